"""Scripted randomness: a duck-typed RandomState that logs every draw and replays a script.

Cirq documents (``cirq.RANDOM_STATE_OR_SEED_LIKE``) that a ``seed`` may be any object implementing the
RandomState methods the use case needs.  All probabilistic choices of the simulators go through
``choice(n, p=...[, size=...])``, ``random()`` and ``randint(2)``.  ``ScriptedPRNG`` returns the next entry of
a script for each scalar draw and records the probability vector, so that ``enumerate_branches`` can run a
circuit once per outcome branch and compute the *exact* probability of the branch as the product of the
logged probabilities.
"""
from __future__ import annotations

from typing import Callable, List, Optional, Sequence

import numpy as np

from vf.core import Reject

EPS = 1e-12


class UnsupportedDraw(Reject):
    """The code under test drew randomness through an API (or in a shape) the script cannot control: the case cannot be
    decided by branch enumeration.  A rejection (counted and reported), never a violation: how a simulator consumes its
    random stream is not part of any property."""

    def __init__(self, what):
        super().__init__(f"scripted-prng: unscripted randomness API used by the code under test ({what})")


_UNSCRIPTED = ("uniform", "normal", "standard_normal", "multinomial", "binomial", "permutation", "shuffle", "bytes", "integers",
               "exponential", "poisson", "beta", "gamma", "random_integers", "tomaxint", "multivariate_normal", "dirichlet")


class SpyFloat:
    """Value returned by ``ScriptedPRNG.random()`` in spy mode.

    The state-vector simulator samples a Kraus operator by ``p = prng.random(); for k: p -= w_k; if p < 0: break``.
    A SpyFloat records every weight subtracted from it and answers ``< 0`` with True exactly at the scripted
    operator index, so the branch taken is chosen by the script and its probability is the recorded weight
    (the quantity the code itself subtracts).  ``>= 0`` (asked after the loop) is True iff the loop never broke.
    """

    def __init__(self, entry):
        self.entry = entry

    def __sub__(self, w):
        self.entry["weights"].append(float(w))
        return self

    __isub__ = __sub__

    def __lt__(self, other):
        hit = len(self.entry["weights"]) - 1 == self.entry["k"]
        if hit:
            self.entry["hit"] = True
        return hit

    def __ge__(self, other):
        return not self.entry.get("hit", False)

    def __float__(self):
        return 0.5

    def _unsupported(self, *a, **k):
        raise UnsupportedDraw("random() value used other than by `p -= w; p < 0`")

    __gt__ = __le__ = __add__ = __radd__ = __rsub__ = __mul__ = __rmul__ = __truediv__ = __rtruediv__ = __array__ = _unsupported


class ScriptedPRNG:
    def __init__(self, script: Sequence[int] = (), vector_script: Optional[Callable] = None,
                 random_script: Optional[Callable] = None, branch_vectors: int = 0, spy_random: bool = False):
        self.spy_random = spy_random
        # branch_vectors=k: a vector draw choice(size<=k) is treated as k independent branching scalar draws
        self.branch_vectors = branch_vectors
        self.script = list(script)
        self.pos = 0
        self.log: List[dict] = []  # one entry per *scalar* branching draw
        self.vector_log: List[dict] = []
        self.random_log: List[float] = []
        self.vector_script = vector_script
        self.random_script = random_script

    # -- helpers
    def _branch(self, probs: np.ndarray) -> int:
        probs = np.asarray(probs, dtype=float)
        if self.pos < len(self.script):
            k = int(self.script[self.pos])
        else:
            k = int(np.argmax(probs > EPS))  # first admissible outcome
            self.script.append(k)
        self.pos += 1
        self.log.append({"p": probs.copy(), "k": k})
        return k

    # -- RandomState API used by cirq
    def choice(self, a, size=None, replace=True, p=None):
        n = int(a) if isinstance(a, (int, np.integer)) else len(a)
        probs = np.full(n, 1.0 / n) if p is None else np.asarray(p, dtype=float)
        if size is None:
            k = self._branch(probs)
            return k if isinstance(a, (int, np.integer)) else a[k]
        cnt = int(np.prod(size))
        if self.branch_vectors and cnt <= self.branch_vectors:
            idx = np.array([self._branch(probs) for _ in range(cnt)], dtype=np.int64)
            out = idx if isinstance(a, (int, np.integer)) else np.asarray(a)[idx]
            return out.reshape(size) if not isinstance(size, (int, np.integer)) else out
        if self.vector_script is not None:
            idx = np.asarray(self.vector_script(n, probs, cnt), dtype=np.int64)
        else:
            idx = np.full(cnt, int(np.argmax(probs > EPS)), dtype=np.int64)
        self.vector_log.append({"p": probs.copy(), "idx": idx.copy()})
        out = idx if isinstance(a, (int, np.integer)) else np.asarray(a)[idx]
        return out.reshape(size) if not isinstance(size, (int, np.integer)) else out

    def randint(self, low, high=None, size=None, dtype=int):
        if high is None:
            low, high = 0, low
        n = int(high) - int(low)
        if size is None:
            return int(low) + self._branch(np.full(n, 1.0 / n))
        cnt = int(np.prod(size))
        return np.array([int(low) + self._branch(np.full(n, 1.0 / n)) for _ in range(cnt)]).reshape(size)

    def random(self, size=None):
        if self.spy_random and size is None:
            if self.pos < len(self.script):
                k = int(self.script[self.pos])
            else:
                k = 0
                self.script.append(k)
            self.pos += 1
            e = {"kind": "random", "weights": [], "k": k}
            self.log.append(e)
            return SpyFloat(e)
        v = 0.5 if self.random_script is None else float(self.random_script(len(self.random_log)))
        self.random_log.append(v)
        if size is not None:
            return np.full(size, v)
        return v

    random_sample = random
    rand = lambda self, *shape: self.random(shape if shape else None)  # noqa: E731

    def __getattr__(self, name):
        if name in _UNSCRIPTED:
            def stub(*a, **k):
                raise UnsupportedDraw(name)
            return stub
        raise AttributeError(name)

    def __deepcopy__(self, memo):  # one shared stream, like a RandomState passed by reference
        return self

    def __copy__(self):
        return self

    @property
    def probability(self) -> float:
        pr = 1.0
        for e in self.log:
            if e.get("kind") == "random":
                pr *= e["weights"][e["k"]] if e.get("hit") and len(e["weights"]) > e["k"] else 0.0
            else:
                pr *= float(e["p"][e["k"]])
        return pr


def enumerate_branches(run: Callable[[ScriptedPRNG], object], max_branches: int = 256, **prng_kw):
    """DFS over all outcome scripts.  ``run(prng)`` executes the code under test with the scripted prng and
    returns a result.  Yields ``(probability, script, result, prng)`` for every branch with probability > EPS.

    Raises ``OverflowError`` if more than ``max_branches`` branches exist.
    """
    out = []
    stack = [[]]
    seen = []
    while stack:
        prefix = stack.pop()
        prng = ScriptedPRNG(prefix, **prng_kw)
        res = run(prng)
        dead = False
        for i in range(len(prng.log)):
            e = prng.log[i]
            if e.get("kind") == "random":
                if not e["weights"]:
                    raise UnsupportedDraw("random() value never compared through `p -= w; p < 0`")
                if not e.get("hit"):
                    dead = True  # scripted index beyond the last Kraus operator: not a real branch
                    break
                if i >= len(prefix) or i == len(prefix) - 1:
                    # operator k was available: also explore k+1 (chain; each prefix is explored once)
                    if i >= len(prefix) or True:
                        nxt = prng.script[:i] + [e["k"] + 1]
                        if nxt not in seen:
                            seen.append(nxt)
                            stack.append(nxt)
            elif i >= len(prefix):
                for alt in range(len(e["p"])):
                    if alt != e["k"] and e["p"][alt] > EPS:
                        stack.append(prng.script[:i] + [alt])
        if not dead and prng.probability > EPS:
            out.append((prng.probability, list(prng.script[: len(prng.log)]), res, prng))
        if len(out) + len(stack) > max_branches:
            raise OverflowError("too many branches")
    return out
