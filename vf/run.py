"""CLI: python -m vf.run <PROPERTY> [--tier quick|thorough] [--replay FILE] [--only SUB[,SUB]]

Exit codes: 0 property held on everything explored (KNOWN-FINDING lines possible),
1 at least one unlisted violation (``VIOLATION property=<id> replay=<path>`` lines),
2 harness error.
"""
from __future__ import annotations

import argparse
import json
import os
import sys
import time


def _reexec_if_needed():
    # VERIF_HASHSEED: robustness experiments only (tools/run_all.py --hashseed): the verdicts must not depend on set order
    want = {"PYTHONHASHSEED": os.environ.get("VERIF_HASHSEED", "0"), "OMP_NUM_THREADS": "1", "OPENBLAS_NUM_THREADS": "1", "MKL_NUM_THREADS": "1"}
    if any(os.environ.get(k) != v for k, v in want.items()):
        envd = dict(os.environ)
        envd.update(want)
        os.execve(sys.executable, [sys.executable, "-m", "vf.run"] + sys.argv[1:], envd)


def main(argv=None):
    ap = argparse.ArgumentParser()
    ap.add_argument("prop")
    ap.add_argument("--tier", default=os.environ.get("VERIF_TIER") or "quick", choices=["quick", "thorough"])
    ap.add_argument("--replay")
    ap.add_argument("--only", default="")
    ap.add_argument("--seed", type=int, default=None)
    ap.add_argument("--workers", type=int, default=int(os.environ.get("VERIF_WORKERS", "16")))
    ap.add_argument("--scale", type=float, default=float(os.environ.get("VERIF_SCALE", "1")))
    ap.add_argument("--no-evidence", action="store_true")
    args = ap.parse_args(argv)
    _reexec_if_needed()

    from . import core, env, registry

    prop_id = args.prop.upper()
    try:
        seed = args.seed if args.seed is not None else int(os.environ.get("VERIF_SEED") or "1")
    except ValueError:
        seed = core.derive_seed(os.environ.get("VERIF_SEED"))
    t0 = time.time()
    try:
        env.setup()
        mod = registry.load(prop_id)
    except Exception as e:  # noqa
        import traceback

        traceback.print_exc()
        print(f"HARNESS-ERROR property={prop_id} {type(e).__name__}: {e}")
        return 2

    subs = {s.name: s for s in mod.SUBCHECKS}
    if args.replay:
        return _replay(prop_id, mod, subs, args.replay)

    findings = [f for f in registry.known_findings() if f["property"] == prop_id]
    known = [f for f in findings if f["status"] == "known"]
    fixed = [f for f in findings if f["status"] == "fixed"]
    for f in fixed:  # regression inputs of repaired defects run as explicit examples
        s = subs.get(f.get("subcheck"))
        if s is not None and f.get("recipe") is not None:
            s.examples.append(f["recipe"])
    known_feature_names = {f["feature"]: f["key"] for f in known if f.get("feature")}

    only = [x for x in args.only.split(",") if x]
    tasks = []
    for s in mod.SUBCHECKS:
        if only and s.name not in only:
            continue
        if args.scale != 1:
            s.quick = max(1, int(s.quick * args.scale))
            s.thorough = max(1, int(s.thorough * args.scale))
        n = s.shards_quick if args.tier == "quick" else s.shards_thorough
        n = max(1, n)
        for sh in range(n):
            tasks.append((prop_id, s.name, sh, n, args.tier, seed, known_feature_names))

    results = []
    import multiprocessing as mp
    from concurrent.futures import ProcessPoolExecutor, as_completed

    harness_msgs = []
    health_warnings = []
    ctx = mp.get_context("fork")
    with ProcessPoolExecutor(max_workers=max(1, min(args.workers, len(tasks))), mp_context=ctx) as ex:
        futs = {ex.submit(core.run_task, *t): t for t in tasks}
        for fu in as_completed(futs):
            t = futs[fu]
            try:
                results.append(fu.result())
            except BaseException as e:  # noqa
                harness_msgs.append(f"task {t[1]}[{t[2]}] died: {type(e).__name__}: {e}")

    # ------------------------------------------------------------------ aggregate
    per_sub = {}
    nontriv = set()
    samples = []
    failures = {}
    evaluations = 0
    for r in results:
        d = per_sub.setdefault(r["sub"], {"cases": 0, "ok": 0, "rejects": {}, "labels": {}, "excluded_by_known_finding": {},
                                          "budget_hit": False, "wall_s": 0.0, "nontrivial": 0})
        d["cases"] += r["evaluations"]
        d["ok"] += r["ok"]
        evaluations += r["evaluations"]
        for k, v in r["rejects"].items():
            d["rejects"][k] = d["rejects"].get(k, 0) + v
        for k, v in r["labels"].items():
            d["labels"][k] = d["labels"].get(k, 0) + v
        for k, v in r["excluded"].items():
            d["excluded_by_known_finding"][k] = d["excluded_by_known_finding"].get(k, 0) + v
        d["budget_hit"] = d["budget_hit"] or r["budget_hit"]
        d["wall_s"] = max(d["wall_s"], round(r["wall_s"], 1))
        if r["enum_total"]:
            d["enumerated"] = d.get("enumerated", 0) + r["enumerated"]
            d["enum_total"] = r["enum_total"]
        for h in r["nontrivial_hashes"]:
            nontriv.add(r["sub"] + ":" + h)
        d["_nt"] = d.get("_nt", set()) | set(r["nontrivial_hashes"])
        samples += r["samples"][:1] if len(samples) < 12 else []
        for b, f in r["failures"].items():
            g = failures.get(b)
            if g is None or len(core.dumps(f["recipe"])) < len(core.dumps(g["recipe"])):
                cnt = (g["count"] if g else 0) + f["count"]
                failures[b] = dict(f, sub=r["sub"], count=cnt)
            else:
                g["count"] += f["count"]
        for h in r["harness"]:
            harness_msgs.append(h["msg"] + ("\n" + h["tb"] if h.get("tb") else "") + f"\nrecipe={json.dumps(h.get('recipe'))[:800]}")
    for name, d in per_sub.items():
        d["nontrivial"] = len(d.pop("_nt", set()))
        s = subs[name]
        if s.enumerate is not None and d.get("enumerated") == d.get("enum_total") and args.tier in s.exhaustive_in and not d["budget_hit"]:
            d["exhaustive"] = True
        for lab, floor in s.essential.items():
            frac = d["labels"].get(lab, 0) / max(1, d["ok"])
            if d["ok"] >= 20 and frac < floor:
                msg = f"generator health: sub-check {name}: label {lab!r} in {frac:.1%} of cases < floor {floor:.0%}"
                health_warnings.append(msg)
                if d["labels"].get(lab, 0) == 0 and d["ok"] >= 200:
                    harness_msgs.append(msg + " (never produced)")

    # ------------------------------------------------------------------ known findings
    known_lines = []
    violations = []
    for f in known:
        s = subs.get(f.get("subcheck"))
        if s is None or f.get("recipe") is None or (only and s.name not in only):
            continue
        out = core.evaluate(s, f["recipe"])
        if out.status in ("violation", "crash"):
            known_lines.append(f"KNOWN-FINDING: property={prop_id} {f['key']}: {f['what']}")
    import re

    for b, f in sorted(failures.items()):
        listed = False
        for k in known:
            if k.get("subcheck") not in (None, f["sub"]):
                continue
            feats = getattr(mod, "KNOWN_FEATURES", {})
            pred = feats.get(k.get("feature"))
            try:
                if pred is not None and pred(f["sub"], f["recipe"]) and re.search(k.get("error_regex", ".*"), f["msg"]):
                    listed = True
            except Exception:
                pass
        if listed:
            continue
        os.makedirs(os.path.join(env.VERIF, "replays", prop_id), exist_ok=True)
        hh = core.recipe_hash([b, f["recipe"]])
        path = os.path.join(env.VERIF, "replays", prop_id, f"{f['sub']}-{hh}.json")
        with open(path, "w") as fh:
            json.dump({"property": prop_id, "subcheck": f["sub"], "bucket": b, "kind": f["kind"], "message": f["msg"],
                       "count_in_run": f["count"], "seed": seed, "tier": args.tier, "recipe": f["recipe"],
                       "traceback": f.get("tb", "")}, fh, indent=1, sort_keys=True)
        violations.append((path, f))

    wall = time.time() - t0
    # ------------------------------------------------------------------ evidence
    cov = {
        "evaluations": evaluations,
        "distinct_nontrivial": len(nontriv),
        "rule": getattr(mod, "RULE", ""),
        "samples": samples[:10],
        "per_subcheck": per_sub,
        "exhaustive": bool(per_sub) and all(d.get("exhaustive", False) for d in per_sub.values()),
        "known_findings_reported": known_lines,
        "uncovered": getattr(mod, "uncovered", lambda: [])(),
        "sensitivity": getattr(mod, "SENSITIVITY", []),
        "generator_health_warnings": health_warnings,
        "inconclusive_budget_hit": sorted(k for k, d in per_sub.items() if d["budget_hit"]),
    }
    ev = {
        "property_id": prop_id, "tier": args.tier, "seed": seed, "level": getattr(mod, "LEVEL", "exploration"),
        "coverage": cov, "assumptions": getattr(mod, "ASSUMPTIONS", []), "wall_s": round(wall, 2),
        "violations": len(violations),
    }
    if not args.no_evidence and not only:
        os.makedirs(os.path.join(env.VERIF, "evidence"), exist_ok=True)
        with open(os.path.join(env.VERIF, "evidence", f"{prop_id}.json"), "w") as fh:
            json.dump(ev, fh, indent=1, sort_keys=True, default=str)

    # ------------------------------------------------------------------ report
    print(f"== {prop_id} tier={args.tier} seed={seed} wall={wall:.1f}s evaluations={evaluations} distinct_nontrivial={len(nontriv)}")
    for name, d in per_sub.items():
        rej = sum(d["rejects"].values())
        exc = sum(d["excluded_by_known_finding"].values())
        print(f"   {name:34s} cases={d['cases']:7d} ok={d['ok']:7d} nontrivial={d['nontrivial']:6d} rejects={rej:5d} excluded={exc:4d} "
              f"wall={d['wall_s']:6.1f}s{' BUDGET-HIT' if d['budget_hit'] else ''}{' exhaustive' if d.get('exhaustive') else ''}")
        if os.environ.get("VERIF_VERBOSE"):
            print("      labels:", json.dumps(d["labels"], sort_keys=True))
            print("      rejects:", json.dumps(d["rejects"], sort_keys=True))
    for w in health_warnings:
        print("   WARNING", w)
    for line in known_lines:
        print(line)
    for path, f in violations:
        print(f"   [{f['kind']}] {f['sub']} x{f['count']}: {f['msg'][:600]}")
        print(f"VIOLATION property={prop_id} replay={path}")
    if harness_msgs:
        for m in harness_msgs[:10]:
            print("HARNESS-ERROR", m)
    if violations:
        return 1
    if harness_msgs:
        return 2
    if len(nontriv) < 2 and not only:
        print("HARNESS-ERROR fewer than 2 distinct non-trivial cases")
        return 2
    return 0


def _replay(prop_id, mod, subs, path):
    from . import core

    with open(path) as fh:
        doc = json.load(fh)
    s = subs.get(doc["subcheck"])
    if s is None:
        print(f"HARNESS-ERROR unknown sub-check {doc['subcheck']}")
        return 2
    out = core.evaluate(s, doc["recipe"])
    print(f"replay {path}: {out.status} {out.msg[:2000]}")
    if out.status in ("violation", "crash"):
        if out.tb:
            print(out.tb)
        print(f"VIOLATION property={prop_id} replay={path}")
        return 1
    if out.status == "harness":
        print(out.tb)
        return 2
    return 0


if __name__ == "__main__":
    sys.exit(main())
