"""C19 — exported OpenQASM describes the same computation as the circuit.

The emitted text is read by ``vf.ref.qasm`` (own tokenizer / parser / gate library written from the OpenQASM 2.0
paper and the 3.0 standard library) and compared with the circuit:
  (a) unitary circuits: product of the parsed gate matrices == product of the operation matrices, up to global phase;
  (b) circuits with measurement / reset / classical control: exact joint record distribution and per-record final
      state of the parsed program (``vf.ref.interp``) == those of the circuit under Cirq's documented semantics;
  (c) nothing dropped (follows from a/b);  (d) the text parses at all.
"""
from __future__ import annotations

import math

import numpy as np
from hypothesis import strategies as st

import cirq
from vf.core import Reject, SubCheck, Violation
from vf.gen import circuits as GC
from vf.gen import gates as G
from vf.ref import interp as I
from vf.ref import linalg as L
from vf.ref import qasm as Q

RULE = (
    "gate_special: exhaustive list of every gate family at the exponents/shifts/angles where the exporter switches mnemonic "
    "(x sx sxdg s sdg t tdg h id cz cx cy swap ccx cswap u2 ...), both versions, plus the directly exportable controlled "
    "Paulis/H in all construction forms and control values. gate: Hypothesis draws one gate of the whole unitary gate table "
    "(special+continuous parameters), optionally wrapped with 1-2 controls (control values 0/1; ControlledOperation / "
    "ControlledGate / controlled_by), on permuted qubits of a 1-4 qubit register; exported by cirq.qasm(op, args=...) and as a "
    "one-operation circuit. unitary: a 1-4 wire circuit recipe over the gate table with every insert strategy. feedforward: a "
    "1-4 wire circuit of Ry state preparation (also after measurements), gates, 1-3 qubit measurements with (short/full) invert masks and awkward keys "
    "('x y', 'p:q', '0'), repeated keys, resets and classically controlled operations - simple mnemonics, and densely ops that need the exporter's decomposition / "
    "matrix-fallback paths (fractional two-qubit powers, FSim, matrix gates, shifted gates, CCZ**t ...), as "
    "ClassicallyControlledOperation or cirq.If (KeyCondition incl. index, sympy "
    "key==const, bitmask and other sympy conditions, 1-2 conditions). Each x qubit order (permutation + optional idle qubit) "
    "x precision {3,6,10,15} x version {2.0,3.0} x header (None/''/multi-line/tricky) x entry point (to_qasm / cirq.qasm / "
    "cirq.qasm(args=) / QasmOutput). Oracle: own OpenQASM reader -> numpy product (unitary part) or exhaustive-branching "
    "reference interpreter (records + per-record final state), compared with the same reference applied to an IR read off "
    "the Cirq operations' public attributes. Non-trivial: the export needed a decomposition / U-gate / KAK fallback (an op "
    "without direct mnemonic), or contains a classical control, or an inverted multi-qubit measurement. Distinct = distinct "
    "recipe hash."
)
ASSUMPTIONS = [
    "cirq.unitary(op) is taken as the matrix of each single operation (C03/C04 decide that)",
    "library semantics: qelib1.inc as printed in arXiv:1707.03429 (gates = sequences of U=Rz(phi)Ry(theta)Rz(lambda) and CX), "
    "Qiskit's extended qelib1 mnemonics (sx, sxdg, swap, cswap, ...) and the 3.0 stdgates as closed forms; use of an "
    "extended mnemonic is recorded as label ext=<names>, not a failure",
    "creg read as integer has bit 0 least significant (2.0 paper sec. 3.3 / 3.0 bit[n]->int cast); creg m_<key> bit j is "
    "compared with the j-th measured qubit of the key; Cirq key value = big-endian int of the measured bits",
    "tolerance: max-abs entry difference (unitary up to phase; probabilities and per-record density matrices x2) "
    "<= 10^-precision * pi * #emitted statements that carry an angle + 1e-7 (parameterless statements are exact)",
    "documented rejections are predicted from the recipe (more than one condition in 2.0, multi-bit / indexed KeyCondition, "
    "sympy condition other than key == constant, BitMaskKeyCondition (raises NotImplementedError), confusion map) and "
    "matched with the exception *type* and raising site (innermost traceback frame), never the message text; an unpredicted "
    "exception is a crash; a predicted rejection that does not happen is no violation - the accepted text goes through the "
    "normal validation (Reject if it uses syntax the reference reader does not know); the exporter's on_stuck ValueError "
    "(operation without any QASM form, raised from the decompose protocol) is accepted wherever it occurs",
]
SENSITIVITY = [
    "ZPowGate qasm: sdg emitted for exponent +0.5",
    "QasmUGate qasm: phi and lambda swapped",
    "HPowGate qasm: ry angles swapped",
    "ISwapPowGate decomposition missing an h",
    "measurement creg index reversed",
    "invert-mask X not undone",
    "scientific notation without decimal point",
    "qubit ids reversed",
    "ControlledOperation qasm ignores control values",
    "KeyCondition 3.0: ==0 instead of !=0",
    "QasmTwoQubitGate: X**-0.5 -> X**0.5",
    "CCY qasm: s/sdg swapped",
    "PhasedXPowGate u2 branch angle sign",
    "to_qasm ignores qubit_order",
    "multiple conditions joined with ||",
    "XPowGate qasm: sxdg for exponent +0.5",
    "half_turns rounding to precision-1 digits",
    "creg declared one bit larger than the measured key",
    "sympy key==const: constant no longer bit-reversed (re-introduces F8)",
    "classical control guards only the first statement (re-introduces C19A)",
    "KeyCondition index accepted and ignored again (re-introduces C19F)",
]

PRECISIONS = [3, 6, 10, 15]
VERSIONS = ["2.0", "3.0"]
HEADERS = [None, "", "custom header", "two\nlines // x", "tricky */ /* \" ; qreg z[2];\n\n  trailing  "]
ENTRIES = ["to_qasm", "to_qasm", "to_qasm", "qasm_fn", "qasm_args", "output"]
KEYS = ["a", "b", "c_1", "K9", "x y", "p:q", "0"]

# ----------------------------------------------------------------------------------------- export + parse


def _tol(precision, prog):
    """Every emitted angle is rounded to ``precision`` digits of half turns: |d angle| <= 0.5e-p*pi per parameter, i.e. an
    operator error <= 0.25e-p*pi per parameter, <= 0.75e-p*pi per (<= 3 parameter) statement; PhasedXPowGate's u2 shortcut
    (|e -+ 0.5| <= 10^-p) adds <= 0.5e-p*pi.  Parameterless statements (cx, h, sx ...) are exact."""
    return 10.0 ** (-precision) * math.pi * max(1, prog.n_param_statements) + 1e-7


def _chance(draw, k):
    """True with probability ~1/k (Hypothesis favours the first/last element of a range, so True sits in the middle)."""
    return draw(st.sampled_from([False] * (k // 2) + [True] + [False] * (k - 1 - k // 2)))


def _opts(draw):
    return {
        "precision": draw(st.sampled_from(PRECISIONS)),
        "version": draw(st.sampled_from(["2.0", "3.0", "3.0"])),
        "header": draw(st.integers(0, len(HEADERS) - 1)),
        "entry": draw(st.sampled_from(ENTRIES)),
    }


def effective_version(r):
    return "2.0" if r.get("entry") == "qasm_fn" else r.get("version", "2.0")


def _rejection_site(e):
    """Where an exception of the exporter was raised (innermost frame): "condition" = a ``_qasm_`` / ``qasm`` of a
    condition or of a classically controlled operation, "stuck" = the decompose protocol raising the exporter's
    ``on_stuck`` error for an operation without any QASM form.  Never looks at the message text."""
    import os
    import traceback

    tb = traceback.extract_tb(e.__traceback__)
    if not tb:
        return None
    fr = tb[-1]
    base = os.path.basename(fr.filename)
    if base in ("condition.py", "classically_controlled_operation.py", "if_op.py") and fr.name in ("_qasm_", "qasm"):
        return "condition"
    if base == "decompose_protocol.py":
        return "stuck"
    return None


def _export(circuit, r, order, expected=()):
    """Returns (text, effective order, precision, version).

    ``expected`` = [(kind, exception type name, certain)] : the documented rejections that the *recipe* predicts
    (see ``expected_rejections``).  An exception is a Reject only if its type and raising site fit a predicted rejection,
    or if it is the exporter's on_stuck ValueError (operation without any QASM form); anything else propagates (crash
    bucket).  A predicted rejection that does not happen is not a violation: the text is validated like any other."""
    entry = r.get("entry", "to_qasm")
    precision, version = r.get("precision", 10), r.get("version", "2.0")
    header = HEADERS[r.get("header", 0) % len(HEADERS)]
    try:
        if entry == "qasm_fn":
            text = cirq.qasm(circuit)
            precision, version = 10, "2.0"
            order = sorted(circuit.all_qubits())
        elif entry == "qasm_args":
            text = cirq.qasm(circuit, args=cirq.QasmArgs(precision=precision, version=version))
            order = sorted(circuit.all_qubits())
        elif entry == "output":
            text = str(cirq.QasmOutput(circuit.all_operations(), tuple(order), header=header or "", precision=precision,
                                       version=version))
        else:
            text = circuit.to_qasm(header=header, precision=precision, qubit_order=order, version=version)
    except (ValueError, NotImplementedError) as e:
        site = _rejection_site(e)
        tname = type(e).__name__
        if site == "stuck" and tname == "ValueError":
            fit = [k for k, t, _ in expected if k == "confusion map"]
            raise Reject("ValueError from on_stuck: " + (fit[0] if fit else "operation without QASM form"))
        if site == "condition":
            fit = [k for k, t, _ in expected if t == tname and k != "confusion map"]
            if fit:
                raise Reject(f"{tname}: {fit[0]}")
        raise
    # An export that ACCEPTS a circuit the documented rules reject is not by itself a violation of C19 (the property is about
    # the meaning of emitted text, not about which circuits are refused): the text goes through the same translation
    # validation as any other, which fails if e.g. a condition was silently dropped.
    return text, list(order), precision, version


UNREADABLE = "accepted export of a circuit the documented rules reject: not evaluable by the reference reader"


def _parse(text, version, n_qubits, lenient=False):
    try:
        prog = Q.parse(text)
    except Q.QasmError as e:
        if lenient:
            # the recipe predicted a documented rejection, the exporter accepted instead (a future extension) and writes
            # syntax outside the subset this reader knows: nothing can be concluded
            raise Reject(UNREADABLE)
        raise Violation(f"emitted OpenQASM does not parse: {e}\n{text[-1500:]}")
    if prog.version != version:
        raise Violation(f"emitted text declares OPENQASM {prog.version}, requested {version}")
    want_inc = "qelib1.inc" if version == "2.0" else "stdgates.inc"
    if prog.includes != [want_inc]:
        raise Violation(f"emitted text includes {prog.includes}, expected [{want_inc}]")
    if prog.n_qubits != n_qubits or (n_qubits and list(prog.qregs) != ["q"]):
        raise Violation(f"emitted text declares quantum registers {prog.qregs} for {n_qubits} ordered qubits")
    return prog


def _ext_label(prog):
    return {"ext": "+".join(prog.ext_used) if prog.ext_used else "none", "uses_ext": bool(prog.ext_used)}


# ----------------------------------------------------------------------------------------- (1) single gate


@st.composite
def _gate_case(draw):
    g = draw(G.gate_recipes(lambda f: f.unitary and not f.qudit, max_arity=3))
    k = G.arity(g)
    nctrl = draw(st.sampled_from([0, 0, 0, 1, 1, 2])) if k <= 2 else 0
    n = draw(st.integers(max(1, k + nctrl), 4))
    r = {"g": g, "w": list(draw(st.permutations(list(range(n)))))[: k + nctrl], "n": n, "nctrl": nctrl,
         "cv": [draw(st.sampled_from([1, 1, 1, 0])) for _ in range(nctrl)],
         "ctrl_form": draw(st.sampled_from(["op", "gate", "controlled_by"])),
         "order": list(draw(st.permutations(list(range(n)))))}
    r.update(_opts(draw))
    return r


def _gate_op(r, qs):
    g = G.build_gate(r["g"])
    k = G.arity(r["g"])
    nctrl = r.get("nctrl", 0)
    w = r["w"]
    if len(w) < k + nctrl or len(set(w)) != len(w) or max(w, default=0) >= len(qs):
        raise Reject("malformed recipe")
    ctrls = [qs[i] for i in w[:nctrl]]
    tgt = [qs[i] for i in w[nctrl: nctrl + k]]
    op = g.on(*tgt)
    if nctrl:
        cv = list(r["cv"])[:nctrl] + [1] * (nctrl - len(r["cv"]))
        form = r.get("ctrl_form", "op")
        if form == "op":
            op = cirq.ControlledOperation(ctrls, op, control_values=cv)
        elif form == "gate":
            op = cirq.ControlledGate(g, num_controls=nctrl, control_values=cv).on(*ctrls, *tgt)
        else:
            op = op.controlled_by(*ctrls, control_values=cv)
    return op


def oracle_gate(r):
    n = r["n"]
    qs = cirq.LineQubit.range(n)
    op = _gate_op(r, qs)
    if sorted(r["order"]) != list(range(n)):
        raise Reject("malformed recipe")
    order = [qs[i] for i in r["order"]]
    u = cirq.unitary(op, None)
    if u is None:
        raise Reject("op without unitary")
    want = L.embed(u, [order.index(q) for q in op.qubits], [2] * n) if len(op.qubits) else u.reshape(1, 1) * np.eye(2 ** n)
    precision, version = r["precision"], r["version"]
    labels = {"version": version, "precision": precision, "family": r["g"][0], "controlled": r.get("nctrl", 0) > 0}

    # (i) cirq.qasm(op, args=...) on the single operation
    args = cirq.QasmArgs(precision=precision, version=version, qubit_id_map={q: f"q[{i}]" for i, q in enumerate(order)})
    frag = cirq.qasm(op, args=args, default=None)
    labels["direct"] = frag is not None
    if frag is not None:
        try:
            prog = Q.parse_fragment(frag, n, version)
        except Q.QasmError as e:
            raise Violation(f"cirq.qasm(op) text does not parse: {e}\n{frag}")
        got = L.circuit_unitary(Q.flat_unitary(prog), [2] * n)
        d = L.diff_up_to_phase(got, want)
        tol = _tol(precision, prog)
        if not d <= tol:
            raise Violation(f"cirq.qasm(op) of {r['g'][0]}{' (controlled)' if r.get('nctrl') else ''}: parsed unitary differs from "
                            f"cirq.unitary(op) by {d:.3g} up to phase (tol {tol:.1g})\nop={op!r}\n{frag}")
        labels["mnemonic"] = prog.calls[0] if len(prog.calls) == 1 else ("none" if not prog.calls else "multi")
        labels.update(_ext_label(prog))

    # (ii) one-operation circuit
    circuit = cirq.Circuit(op)
    text, order2, precision2, version2 = _export(circuit, dict(r, entry="to_qasm"), order)
    prog = _parse(text, version2, n)
    got = L.circuit_unitary(Q.flat_unitary(prog), [2] * n)
    d = L.diff_up_to_phase(got, want)
    tol = _tol(precision2, prog)
    if not d <= tol:
        raise Violation(f"Circuit(op).to_qasm of {r['g'][0]}{' (controlled)' if r.get('nctrl') else ''}: parsed unitary differs from "
                        f"cirq.unitary(op) by {d:.3g} up to phase (tol {tol:.1g})\nop={op!r}\n{text[-1200:]}")
    labels["decomposed"] = frag is None
    labels["nontrivial"] = frag is None or prog.n_statements > 1
    labels["statements"] = min(prog.n_statements, 40) // 10 * 10
    if frag is None:
        labels.update(_ext_label(prog))
    return labels


def special_gate_cases(tier="quick"):
    """Finite domain: every gate family at the exponents / shifts / angles where the exporter switches mnemonic
    (x sx sxdg s sdg t tdg h id cz cx cy swap ccx cswap u2 ...), both versions, reversed qubit placement + idle qubit;
    the directly exportable controlled Paulis / H through all three construction forms and both control values."""
    G._lazy()
    out = []

    def add(g, version, nctrl=0, cv=(), form="op", precision=10):
        k = G.arity(g) + nctrl
        n = k + 1
        out.append({"g": g, "w": list(range(k))[::-1], "n": n, "nctrl": nctrl, "cv": list(cv), "ctrl_form": form,
                    "order": [(i + 1) % n for i in range(n)], "precision": precision, "version": version, "header": 1,
                    "entry": "to_qasm"})

    exps = [1.0, -1.0, 0.5, -0.5, 0.25, -0.25, 0.0, 2.0, 3.0, 1.5, 0.5 + 1e-9, 1 - 1e-9]
    for v in VERSIONS:
        for name, f in G.FAMILIES.items():
            if "eigen" in f.tags:
                for e in exps:
                    for sh in (0.0, -0.5, 0.25):
                        add([name, {"e": e, "s": sh}], v)
        for name in ("Rx", "Ry", "Rz"):
            for rr in (0.0, math.pi / 2, -math.pi / 2, math.pi, math.pi / 4, -math.pi / 4, 2 * math.pi, 3 * math.pi):
                add([name, {"r": rr}], v)
        for e in (0.5, -0.5, 1.0, 0.25, 1.5, -1.5, 0.5 + 1e-9, 0.5 - 1e-4):
            for ph in (0.0, 0.25, 0.5, -0.5, 1.0, 1 / 3):
                for prec in (3, 10):
                    add(["PhasedXPow", {"p": ph, "e": e, "s": 0.0}], v, precision=prec)
        for nn in (1, 2, 3):
            add(["Identity", {"n": nn}], v)
        add(["CSwap", {}], v)
        for i in range(24):
            add(["SingleQubitClifford", {"i": i}], v)
        for name in ("XPow", "YPow", "ZPow", "HPow"):
            for form in ("op", "gate", "controlled_by"):
                for c in (1, 0):
                    add([name, {"e": 1.0, "s": 0.0}], v, nctrl=1, cv=[c], form=form)
                add([name, {"e": 0.5, "s": 0.0}], v, nctrl=1, cv=[1], form=form)
                add([name, {"e": 1.0, "s": 0.5}], v, nctrl=1, cv=[1], form=form)
    return out


# ----------------------------------------------------------------------------------------- (2) unitary circuits


@st.composite
def _unitary_case(draw, max_w=4, max_ops=8):
    r = draw(GC.circuit_recipes(max_w=max_w, max_ops=max_ops, min_ops=1))
    r.update(_order(draw, r))
    r.update(_opts(draw))
    return r


def _order(draw, r):
    n = len(r["dims"])
    idle = _chance(draw, 5)
    m = n + (1 if idle else 0)
    return {"idle": idle, "order": list(draw(st.permutations(list(range(m)))))}


def _ordered_qubits(r, qs):
    allq = list(qs)
    if r.get("idle"):
        allq = allq + [cirq.NamedQubit("zz_idle")]
    o = r["order"]
    if sorted(o) != list(range(len(allq))):
        raise Reject("malformed recipe")
    return [allq[i] for i in o]


def oracle_unitary(r):
    circuit, qs = GC.build_circuit(r)
    order = _ordered_qubits(r, qs)
    if r.get("entry") in ("qasm_fn", "qasm_args"):
        pass  # default order: _export replaces ``order`` by the sorted qubits of the circuit
    text, order, precision, version = _export(circuit, r, order)
    n = len(order)
    prog = _parse(text, version, n)
    ops = []
    direct = 0
    for op in circuit.all_operations():
        u = cirq.unitary(op, None)
        if u is None:
            raise Reject("op without unitary")
        ops.append((u, [order.index(q) for q in op.qubits]))
    try:
        got = L.circuit_unitary(Q.flat_unitary(prog), [2] * n)
    except Q.QasmError as e:
        raise Violation(f"unitary circuit exported with a non-unitary statement: {e}")
    want = L.circuit_unitary(ops, [2] * n)
    d = L.diff_up_to_phase(got, want)
    tol = _tol(precision, prog)
    if not d <= tol:
        raise Violation(f"to_qasm: parsed program unitary differs from the circuit's by {d:.3g} up to phase (tol {tol:.1g}), "
                        f"version {version}\n{text[-1500:]}")
    nops = len(ops)
    decomposed = sum(1 for _, t in prog.comments if t.startswith("Gate:") or t.startswith("Operation:"))
    lab = {"nontrivial": decomposed > 0, "needs_decomposition": decomposed > 0, "version": version, "precision": precision,
           "entry": r.get("entry"), "idle": bool(r.get("idle")) and r.get("entry") in ("to_qasm", "output"),
           "permuted_order": order != sorted(order), "has_3q": any(len(ax) == 3 for _, ax in ops),
           "statements": min(prog.n_statements, 90) // 30 * 30, "header": r.get("header", 0) % len(HEADERS)}
    lab.update(_ext_label(prog))
    return lab


# ----------------------------------------------------------------------------------------- (3) measurement / feed-forward

# gates whose classical control is emitted as ONE statement (x, rz, cx, u3, ...)
CC_SIMPLE = ["XPow", "YPow", "ZPow", "Rx", "Ry", "Rz", "PhasedXPow", "PhasedXZ", "Matrix1", "CXint", "CZint", "Swap1", "CCX1",
             "CSwap", "H1", "CYint", "Id1"]


# gates whose classical control has to go through the exporter's decomposition / matrix-fallback paths
CC_HARD = ["CZPow", "CXPow", "CYPow", "SwapPow", "ISwapPow", "XXPow", "YYPow", "ZZPow", "FSim", "PhasedFSim", "PhasedISwapPow",
           "Matrix2", "MS", "CCZPow", "CCXPow", "HPow", "XShift", "ZShift", "YShift", "Matrix1", "PhasedXZ", "TwoQubitDiagonal",
           "PauliInteraction", "SYC"]
_FRACTIONS = [0.5, -0.5, 0.25, 0.75, 1.5, 1 / 3, 0.125, -0.25]


def _hard_gate(draw, name):
    if name in ("XShift", "YShift", "ZShift"):
        return [name[0] + "Pow", {"e": draw(st.sampled_from([1.0, 0.5, 0.25, 1 / 3])), "s": draw(st.sampled_from([-0.5, 0.25, 0.5, 0.125]))}]
    f = G.FAMILIES[name]
    if "eigen" in f.tags:
        e = draw(st.one_of(st.sampled_from(_FRACTIONS), st.floats(0.05, 1.95).map(lambda x: round(x, 4))))
        return [name, {"e": e, "s": draw(st.sampled_from([0.0, 0.0, 0.0, -0.5, 0.25]))}]
    return [name, draw(f.params)]


def _simple_gate(draw, name):
    if name == "CXint":
        return ["CXPow", {"e": draw(st.sampled_from([1.0, -1.0, 3.0])), "s": 0.0}]
    if name == "CZint":
        return ["CZPow", {"e": draw(st.sampled_from([1.0, -1.0, 3.0])), "s": 0.0}]
    if name == "CYint":
        return ["CYPow", {"e": 1.0, "s": 0.0}]
    if name == "Swap1":
        return ["SwapPow", {"e": 1.0, "s": 0.0}]
    if name == "CCX1":
        return ["CCXPow", {"e": 1.0, "s": 0.0}]
    if name == "H1":
        return ["HPow", {"e": 1.0, "s": 0.0}]
    if name == "Id1":
        return ["Identity", {"n": 1}]
    return [name, draw(G.FAMILIES[name].params)]


def _prep_angle():
    """mostly generic angles (both measurement outcomes with O(1) probability), sometimes the special ones"""
    return st.one_of(st.floats(0.4, 2.7).map(lambda x: round(x, 4)), st.floats(0.4, 2.7).map(lambda x: round(x, 4)),
                     st.floats(0.4, 2.7).map(lambda x: round(x, 4)), G.rads())


@st.composite
def _ff_case(draw, max_w=4, max_ops=9):
    G._lazy()
    r = draw(GC.wires(1, max_w))
    opts = _opts(draw)
    v3 = opts["version"] == "3.0" and opts["entry"] != "qasm_fn"
    n = len(r["dims"])
    nops = draw(st.integers(2, max_ops))
    ops = []
    for i in range(n):
        # state preparation: measurements of |0...0> would make every condition deterministic
        if not _chance(draw, 6):
            ops.append({"k": "g", "g": ["Ry", {"r": draw(_prep_angle())}], "w": [i], "ins": 0})
    nprep = len(ops)
    for _ in range(nops):
        kind = draw(st.sampled_from(["g", "g", "g", "m", "m", "m", "cc", "cc", "cc", "cc", "reset"]))
        ins = draw(st.sampled_from([0, 0, 0, 1, 2, 3]))
        if kind == "m":
            k = min(n, draw(st.sampled_from([1, 1, 1, 2, 2, 2, 3])))
            w = list(draw(st.permutations(list(range(n)))))[:k]
            inv_kind = draw(st.sampled_from(["none", "full", "short", "full"]))
            inv = []
            if inv_kind == "full":
                inv = [draw(st.booleans()) for _ in range(k)]
            elif inv_kind == "short":
                inv = [draw(st.booleans()) for _ in range(draw(st.integers(0, k)))]
            ops.append({"k": "m", "key": draw(st.integers(0, len(KEYS) - 1)), "w": w, "inv": inv, "ins": ins,
                        "conf": _chance(draw, 120)})
            if draw(st.booleans()):
                # put the collapsed qubits back into superposition: a later (classically controlled) gate on a basis state
                # is often just a phase, so a lost ``if`` guard would be invisible
                for i in w:
                    ops.append({"k": "g", "g": ["Ry", {"r": draw(_prep_angle())}], "w": [i], "ins": 0})
            continue
        if kind == "reset":
            ops.append({"k": "reset", "w": [draw(st.integers(0, n - 1))], "ins": ins})
            continue
        cls = "table" if kind == "g" else draw(st.sampled_from(["simple", "hard", "table", "hard", "simple", "hard", "simple"]))
        if cls == "table":
            g = draw(G.gate_recipes(lambda f: f.unitary and not f.qudit, max_arity=min(3, n)))
        else:
            for _try in range(4):
                if cls == "hard":
                    g = _hard_gate(draw, draw(st.sampled_from(CC_HARD)))
                else:
                    g = _simple_gate(draw, draw(st.sampled_from(CC_SIMPLE)))
                if G.arity(g) <= n:
                    break
            else:
                g = ["XPow", {"e": 0.5, "s": 0.25}] if cls == "hard" else ["XPow", {"e": 1.0, "s": 0.0}]
        k = G.arity(g)
        w = list(draw(st.permutations(list(range(n)))))[:k]
        o = {"k": kind, "g": g, "w": w, "ins": ins}
        if kind == "cc":
            nc = 2 if _chance(draw, 5 if v3 else 30) else 1
            conds = []
            for _c in range(nc):
                t = draw(st.sampled_from(["key"] * 5 + ["eq"] * 6 + ["bitmask"] + ["key_index"] * 2 + ["sympy_other"] + ["eq"] * 6 + ["key"] * 5))
                c = {"t": t, "ki": draw(st.integers(0, 7))}
                if t == "eq":
                    c["v"] = draw(st.sampled_from([0, 1, 1, 1, 3, 3, 3, 5, 7, 2, 2, 4, 6, 9]))
                elif t == "bitmask":
                    c.update({"mask": draw(st.sampled_from([None, 1, 2, 3])), "target": draw(st.integers(0, 3)), "equal": draw(st.booleans())})
                elif t == "sympy_other":
                    c["form"] = draw(st.sampled_from(["gt", "ne", "eq_rev", "xor", "bare"]))
                elif t == "key_index":
                    c["index"] = draw(st.sampled_from([-1, 0, -1, -2, -1]))
                conds.append(c)
            o["conds"] = conds
            o["form"] = draw(st.sampled_from(["wcc", "wcc", "if"]))
        ops.append(o)
    if not _chance(draw, 4):
        # make sure most circuits measure early, so that later conditions have something to test
        k = min(n, draw(st.sampled_from([1, 1, 2, 2, 3])))
        ops.insert(min(len(ops), nprep + draw(st.sampled_from([0, 1, 1, 2]))),
                   {"k": "m", "key": draw(st.integers(0, len(KEYS) - 1)), "w": list(draw(st.permutations(list(range(n)))))[:k],
                    "inv": [draw(st.booleans()) for _ in range(k)] if draw(st.booleans()) else [], "ins": 0, "conf": False})
    r["ops"] = ops
    r.update(_order(draw, r))
    r.update(opts)
    return r


def plan(r):
    """Pure-python resolution of a feed-forward recipe (no Cirq): key names, bit counts, conditions bound to keys that
    were measured earlier.  Used by the builder and by the KNOWN_FEATURES predicates.

    -> list of dicts: {"k":"g"|"m"|"cc"|"reset", ...} with for "m": key(str), w, inv ; for "cc": conds=[{"t","key",...}]
    plus ``bitcount`` {key: n} (every measurement of a key uses the first measurement's arity: Cirq's data store rejects
    records of different shape under one key)."""
    n = len(r["dims"])
    out = []
    measured = []  # keys in order of first measurement
    count = {}  # key -> number of measurements so far
    arity = {}
    for o in r["ops"]:
        k = o.get("k", "g")
        if k == "m":
            key = KEYS[o["key"] % len(KEYS)]
            w = [x % n for x in o["w"]]
            w = list(dict.fromkeys(w))
            if key in arity:
                # same shape as the first measurement of this key
                if len(w) < arity[key]:
                    w = w + [x for x in range(n) if x not in w][: arity[key] - len(w)]
                w = w[: arity[key]]
            if not w:
                continue
            arity.setdefault(key, len(w))
            if key not in measured:
                measured.append(key)
            count[key] = count.get(key, 0) + 1
            inv = [bool(b) for b in o.get("inv", [])][: len(w)]
            out.append({"k": "m", "key": key, "w": w, "inv": inv, "conf": bool(o.get("conf")), "ins": o.get("ins", 0)})
        elif k == "reset":
            out.append({"k": "reset", "w": [o["w"][0] % n], "ins": o.get("ins", 0)})
        else:
            w = [x % n for x in o["w"]]
            e = {"k": "g", "g": o["g"], "w": w, "ins": o.get("ins", 0)}
            if k == "cc" and measured:
                conds = []
                for c in o.get("conds", []):
                    key = measured[c.get("ki", 0) % len(measured)]
                    cc = dict(c, key=key, bits=arity[key], times=count[key])
                    conds.append(cc)
                if conds:
                    e["k"] = "cc"
                    e["conds"] = conds
                    e["form"] = o.get("form", "wcc")
            out.append(e)
    return out, arity


def _sympy_cond(c):
    import sympy

    s = sympy.Symbol(c["key"])
    if c["t"] == "eq":
        return sympy.Eq(s, c["v"])
    f = c.get("form", "gt")
    if f == "gt":
        return s > 0
    if f == "ne":
        return sympy.Ne(s, 1)
    if f == "eq_rev":
        return sympy.Eq(sympy.Integer(1), s, evaluate=False)
    if f == "xor":
        a = sympy.IndexedBase(c["key"])
        return sympy.Xor(a[0], a[c["bits"] - 1])
    return s


def _build_ff(r):
    steps, arity = plan(r)
    qs = GC.qubits_of(r)
    c = cirq.Circuit()
    for e in steps:
        if e["k"] == "m":
            kw = {}
            if e["conf"]:
                kw["confusion_map"] = {(0,): np.array([[0.9, 0.1], [0.2, 0.8]])}
            op = cirq.measure(*[qs[i] for i in e["w"]], key=cirq.MeasurementKey.parse_serialized(e["key"]), invert_mask=tuple(e["inv"]), **kw)
        elif e["k"] == "reset":
            op = cirq.reset(qs[e["w"][0]])
        else:
            g = G.build_gate(e["g"])
            k = G.arity(e["g"])
            if len(set(e["w"])) != k or len(e["w"]) != k:
                raise Reject("malformed recipe")
            op = g.on(*[qs[i] for i in e["w"]])
            if e["k"] == "cc":
                conds = []
                for cd in e["conds"]:
                    if cd["t"] == "key":
                        conds.append(cirq.MeasurementKey.parse_serialized(cd["key"]))
                    elif cd["t"] == "key_index":
                        idx = cd.get("index", -1)
                        if not -cd["times"] <= idx < cd["times"]:
                            idx = -1
                        conds.append(cirq.KeyCondition(cirq.MeasurementKey.parse_serialized(cd["key"]), index=idx))
                    elif cd["t"] == "bitmask":
                        conds.append(cirq.BitMaskKeyCondition(cirq.MeasurementKey.parse_serialized(cd["key"]), bitmask=cd.get("mask"), target_value=cd.get("target", 0),
                                                              equal_target=bool(cd.get("equal"))))
                    else:
                        conds.append(cirq.SympyCondition(_sympy_cond(cd)))
                op = cirq.If(conds, op) if e.get("form") == "if" else op.with_classical_controls(*conds)
        c.append(op, strategy=getattr(cirq.InsertStrategy, GC.INS[e.get("ins", 0) % 4]))
    return c, qs, steps, arity


def _cirq_ir(circuit, order):
    """IR for vf.ref.interp read off the public attributes of the circuit's operations (Cirq's documented semantics)."""
    import sympy

    ir = []
    info = {"cc": 0, "meas": 0, "inv_multi": 0, "multi_key_cond": 0, "keys": [], "arity": {}}
    for op in circuit.all_operations():
        conds = []
        base = op
        if op.classical_controls:  # ClassicallyControlledOperation and cirq.If alike (public Operation API)
            base = op.without_classical_controls()
            for cd in op.classical_controls:
                if isinstance(cd, cirq.KeyCondition):
                    conds.append({"t": "key", "key": str(cd.key), "index": cd.index})
                elif isinstance(cd, cirq.BitMaskKeyCondition):
                    conds.append({"t": "bitmask", "key": str(cd.key), "index": cd.index, "target": cd.target_value,
                                  "equal": cd.equal_target, "mask": cd.bitmask})
                elif isinstance(cd, cirq.SympyCondition):
                    expr = cd.expr
                    if isinstance(expr, sympy.Equality) and isinstance(expr.lhs, sympy.Symbol) and isinstance(expr.rhs, sympy.Integer):
                        conds.append({"t": "bitmask", "key": expr.lhs.name, "index": -1, "target": int(expr.rhs), "equal": True, "mask": None})
                    else:
                        names = sorted(s.name for s in expr.free_symbols if isinstance(s, sympy.Symbol))

                        def f(get_int, expr=expr, names=names):
                            return bool(expr.subs({nm: get_int(nm) for nm in names}))

                        if any(isinstance(s, sympy.Indexed) for s in expr.free_symbols):
                            raise Reject("indexed sympy condition exported (no reference semantics implemented)")
                        conds.append({"t": "fn", "f": f})
                else:
                    raise Reject("unknown condition type")
            info["cc"] += 1
        ax = [order.index(q) for q in base.qubits]
        g = base.gate
        if isinstance(g, cirq.MeasurementGate):
            inv = list(g.full_invert_mask())
            conf = [[list(pos), np.asarray(m)] for pos, m in g.confusion_map.items()]
            one = {"t": "m", "key": cirq.measurement_key_name(base), "ax": ax, "inv": inv, "conf": conf}
            info["meas"] += 1
            if len(ax) >= 2 and any(inv):
                info["inv_multi"] += 1
            if one["key"] not in info["keys"]:
                info["keys"].append(one["key"])
            info["arity"][one["key"]] = max(info["arity"].get(one["key"], 0), len(ax))
        elif isinstance(g, cirq.ResetChannel):
            one = {"t": "reset", "ax": ax}
        else:
            u = cirq.unitary(base, None)
            if u is None:
                raise Reject("op without unitary")
            one = {"t": "u", "m": u, "ax": ax}
        ir.append({"t": "c", "conds": conds, "op": one} if conds else one)
    return ir, info


def _qasm_ir(prog):
    """IR for vf.ref.interp of a parsed program; every classical bit ``c[j]`` is its own record key."""
    cregs = prog.cregs

    def getbit_factory(get_int):
        def getbit(name, j):
            try:
                return get_int(f"{name}[{j}]")
            except KeyError:
                return 0  # never written: classical bits are initialised to 0

        return getbit

    def conv(op, out, conds):
        t = op["t"]
        if t == "barrier":
            return
        if t == "if":
            ast = op["cond"]

            def f(get_int, ast=ast):
                return bool(Q.eval_cond(ast, getbit_factory(get_int), cregs))

            def nf(get_int, ast=ast):
                return not bool(Q.eval_cond(ast, getbit_factory(get_int), cregs))

            for branch, fn in ((op["body"], f), (op["orelse"], nf)):
                reads = Q.cond_cregs(ast)
                for i, sub in enumerate(branch):
                    if sub["t"] == "measure" and sub["c"][0] in reads and i != len(branch) - 1:
                        raise NotImplementedError("block that overwrites its own condition register mid-way")
                    conv(sub, out, conds + [{"t": "fn", "f": fn}])
            return
        if t == "u":
            one = {"t": "u", "m": op["m"], "ax": op["ax"]}
            if not op["ax"]:
                return
        elif t == "measure":
            one = {"t": "m", "key": f"{op['c'][0]}[{op['c'][1]}]", "ax": [op["q"]]}
        elif t == "reset":
            one = {"t": "reset", "ax": [op["q"]]}
        else:
            raise KeyError(t)
        out.append({"t": "c", "conds": conds, "op": one} if conds else one)

    out = []
    for op in prog.ops:
        conv(op, out, [])
    return out


def _creg_for_keys(prog, keys):
    """key -> creg name, read from the emitted declarations (name ``m_<key>`` or the ``// Measurement: <key>`` comment)."""
    used = set()
    m = {}
    for key in keys:
        name = "m_" + key
        if name in prog.cregs and name not in prog.creg_comments and name not in used:
            m[key] = name
        else:
            want = "Measurement: " + " ".join(key.split("\n"))
            cands = [c for c in prog.cregs if c not in used and prog.creg_comments.get(c) == want]
            if not cands:
                raise Violation(f"no classical register for measurement key {key!r}: declared {prog.cregs} comments {prog.creg_comments}")
            m[key] = cands[0]
        used.add(m[key])
    return m


def _collect(branches, convert):
    acc = {}
    for b in branches:
        k = I.records_key(convert(b.records))
        p, rho = acc.get(k, (0.0, 0.0))
        acc[k] = (p + b.prob, rho + b.prob * b.rho)
    return acc


def expected_rejections(steps, version):
    """Documented rejections predicted from the resolved recipe alone -> [(kind, exception type, certain)].

    * ClassicallyControlledOperation / If ``_qasm_``: more than one condition in OpenQASM 2.0 -> ValueError (checked before
      anything else, hence certain);
    * KeyCondition: explicit index -> ValueError; key of more than one bit in 2.0 (only ``==`` exists) -> ValueError;
    * SympyCondition not of the form key == constant -> ValueError;  BitMaskKeyCondition -> NotImplementedError;
    * measurement with a confusion map: no QASM form -> the exporter's on_stuck ValueError (certain).
    A condition is only *certainly* evaluated when its operation has to be emitted, i.e. is not the identity up to phase
    (an identity such as WaitGate decomposes to nothing and its conditions are never looked at)."""
    out = []
    for e in steps:
        if e["k"] == "m" and e.get("conf"):
            out.append(("confusion map", "ValueError", True))
        if e["k"] != "cc":
            continue
        u = cirq.unitary(G.build_gate(e["g"]), None)
        nonid = u is not None and L.diff_up_to_phase(u, np.eye(u.shape[0])) > 1e-6
        if len(e["conds"]) > 1 and version == "2.0":
            out.append(("multiple conditions in 2.0", "ValueError", True))
        for c in e["conds"]:
            t = c["t"]
            if t == "key_index":
                idx = c.get("index", -1)
                if -c["times"] <= idx < c["times"] and idx != -1:
                    out.append(("KeyCondition with explicit index", "ValueError", nonid))
                    continue
                t = "key"
            if t == "key" and version == "2.0" and c["bits"] != 1:
                out.append(("multi-bit KeyCondition in 2.0", "ValueError", nonid))
            elif t == "bitmask":
                out.append(("BitMaskKeyCondition", "NotImplementedError", nonid))
            elif t == "sympy_other":
                out.append(("sympy condition other than key == constant", "ValueError", nonid))
    return out


def oracle_ff(r):
    circuit, qs, steps, arity = _build_ff(r)
    order = _ordered_qubits(r, qs)
    expected = expected_rejections(steps, effective_version(r))
    text, order, precision, version = _export(circuit, r, order, expected)
    return compare_program(circuit, order, text, precision, version, steps, r.get("entry"), lenient=bool(expected))


def compare_program(circuit, order, text, precision, version, steps=(), entry=None, lenient=False):
    """Oracle (b): joint record distribution + per-record final state of ``text`` vs ``circuit`` (qubits in ``order``)."""
    n = len(order)
    ir_c, info = _cirq_ir(circuit, order)
    arity = info["arity"]
    prog = _parse(text, version, n, lenient)
    keymap = _creg_for_keys(prog, info["keys"])
    for key, creg in keymap.items():
        if prog.cregs[creg] != arity[key]:
            raise Violation(f"classical register {creg} has {prog.cregs[creg]} bits, key {key!r} measures {arity[key]} qubits")
    if len(prog.cregs) != len(keymap):
        raise Violation(f"classical registers {list(prog.cregs)} declared for keys {info['keys']}")
    try:
        try:
            ir_q = _qasm_ir(prog)
        except NotImplementedError:
            if lenient:
                raise Reject(UNREADABLE)
            raise
        bq = I.run(ir_q, [2] * n, max_branches=1 << 14)
        bc = I.run(ir_c, [2] * n, max_branches=1 << 14)
    except OverflowError:
        raise Reject("too many branches")

    def conv_c(records):
        out = {}
        for key, insts in records.items():
            for j in range(arity[key]):
                out[f"{keymap[key]}[{j}]"] = tuple((inst[j],) for inst in insts if len(inst) > j)
        return out

    dc = _collect(bc, conv_c)
    dq = _collect(bq, lambda rec: rec)
    tol = 2 * _tol(precision, prog)
    worst, where = 0.0, None
    for k in sorted(set(dc) | set(dq)):
        pc, rc = dc.get(k, (0.0, 0.0))
        pq, rq = dq.get(k, (0.0, 0.0))
        d = abs(pc - pq)
        if d > worst:
            worst, where = d, k
    if worst > tol:
        pc, pq = dc.get(where, (0.0,))[0], dq.get(where, (0.0,))[0]
        raise Violation(
            f"record distribution of the exported program differs from the circuit's: records {{{where}}} have probability "
            f"{pq:.6g} in the OpenQASM program and {pc:.6g} in the circuit (tol {tol:.1g}), version {version}\n"
            f"circuit:\n{circuit}\n{_strip_header(text)}\ncircuit distribution: {_fmt(dc)}\nqasm distribution:    {_fmt(dq)}")
    for k in sorted(dc):
        pc, rc = dc[k]
        pq, rq = dq.get(k, (0.0, np.zeros_like(rc)))
        d = L.max_abs_diff(np.asarray(rc), np.asarray(rq))
        if d > tol:
            raise Violation(f"final state given records {{{k}}} differs between exported program and circuit by {d:.3g} (tol {tol:.1g}), "
                            f"version {version}\ncircuit:\n{circuit}\n{_strip_header(text)}")
    decomposed = sum(1 for _, t in prog.comments if (t.startswith("Gate:") and "MeasurementGate" not in t) or t.startswith("Operation:"))
    lab = {"nontrivial": decomposed > 0 or info["cc"] > 0 or info["inv_multi"] > 0, "needs_decomposition": decomposed > 0,
           "classical_control": info["cc"] > 0, "inverted_multi_measurement": info["inv_multi"] > 0,
           "measured": info["meas"] > 0, "version": version, "precision": precision, "entry": entry,
           "n_conditions": min(2, max([len(e.get("conds", [])) for e in steps] + [0])),
           "multibit_eq": any(c["t"] == "eq" and c["bits"] > 1 for e in steps for c in e.get("conds", [])),
           "sanitised_key": any(k in ("x y", "p:q") for k in info["keys"]),
           "repeated_key": any(c > 1 for c in _counts(steps).values()), "branches": 1 << (min(len(bc), 64).bit_length() - 1),
           "has_reset": any(e["k"] == "reset" for e in steps)}
    hard = [e for e in steps if e["k"] == "cc" and not _has_direct_qasm(e["g"])]
    lab["cc_fallback"] = bool(hard)  # classically controlled op that has to go through decomposition / matrix fallback
    lab["cc_fallback_2q"] = any(G.arity(e["g"]) == 2 for e in hard)
    lab["cc_fallback_branching"] = bool(hard) and len(bc) >= 2
    lab["cc_if_form"] = any(e.get("form") == "if" for e in steps if e["k"] == "cc")
    lab.update(_ext_label(prog))
    return lab


def _has_direct_qasm(g):
    gate = G.build_gate(g)
    k = G.arity(g)
    qs = cirq.LineQubit.range(max(k, 1))
    return cirq.qasm(gate.on(*qs[:k]), args=cirq.QasmArgs(qubit_id_map={q: f"q[{i}]" for i, q in enumerate(qs)}), default=None) is not None


def _counts(steps):
    out = {}
    for e in steps:
        if e["k"] == "m":
            out[e["key"]] = out.get(e["key"], 0) + 1
    return out


def _strip_header(text):
    i = text.find("OPENQASM")
    return text[i:][:1800]


def _fmt(d):
    return "{" + ", ".join(f"{k}: {p:.4g}" for k, (p, _) in sorted(d.items()) if p > 1e-9) + "}"


# ----------------------------------------------------------------------------------------- known features (rule 1)


KNOWN_FEATURES = {}  # every defect this check found has been repaired in /repo (see FIXED_GATE / FIXED_FF below)


def uncovered():
    return [
        "parameterised (sympy) circuits, qudits, CircuitOperation / nested keys, classically controlled measurements, "
        "measurements of one key with different arities: outside the generated domain",
        "indexed sympy conditions (a[0] ^ a[1]) are only checked to be rejected",
        "save_qasm (file output) is not exercised; Circuit.to_qasm / cirq.qasm / QasmOutput.__str__ are",
        "conformance of the text with third-party readers (Qiskit, openqasm3 reference parser) is not tested; the reader "
        "here accepts Qiskit's extended qelib1 mnemonics and records them (label ext=...)",
    ]


# regression inputs of repaired defects (key (fix commit) -> recipe); always run first
FIXED_GATE = {
    "C19D (c21db99)": {"g": ["UniformSuperposition", {"n": 2, "m": 3}], "w": [0, 1], "n": 2, "nctrl": 0, "cv": [], "ctrl_form": "op", "order": [0, 1], "precision": 10, "version": "2.0", "header": 1, "entry": "to_qasm"},
    "C19G (b79d878)": {"g": ["CZPow", {"e": 6.4e-06, "s": 0.25}], "w": [0, 1, 2], "n": 3, "nctrl": 1, "cv": [1], "ctrl_form": "controlled_by", "order": [0, 1, 2], "precision": 10, "version": "2.0", "header": 1, "entry": "to_qasm"},
}
FIXED_FF = {
    "F8 (91d4985)": {"dims": [2, 2, 2], "names": [0, 1, 2], "qkind": "line", "ops": [{"k": "g", "g": ["XPow", {"e": 1.0, "s": 0.0}], "w": [1], "ins": 0}, {"k": "m", "key": 0, "w": [0, 1], "inv": [], "ins": 0, "conf": False}, {"k": "cc", "g": ["XPow", {"e": 1.0, "s": 0.0}], "w": [2], "ins": 0, "conds": [{"t": "eq", "ki": 0, "v": 1}]}, {"k": "m", "key": 1, "w": [2], "inv": [], "ins": 0, "conf": False}], "idle": False, "order": [0, 1, 2], "precision": 10, "version": "2.0", "header": 1, "entry": "to_qasm"},
    "C19A (20b22e4)": {"dims": [2, 2], "names": [0, 1], "qkind": "line", "ops": [{"k": "m", "key": 0, "w": [0], "inv": [], "ins": 0, "conf": False}, {"k": "cc", "g": ["HPow", {"e": 0.5, "s": 0.0}], "w": [1], "ins": 0, "conds": [{"t": "key", "ki": 0}]}, {"k": "m", "key": 1, "w": [1], "inv": [], "ins": 0, "conf": False}], "idle": False, "order": [0, 1], "precision": 10, "version": "2.0", "header": 1, "entry": "to_qasm"},
    "C19B (20b22e4)": {"dims": [2, 2], "names": [0, 1], "qkind": "line", "ops": [{"k": "m", "key": 0, "w": [0], "inv": [], "ins": 0, "conf": False}, {"k": "cc", "g": ["GlobalPhase", {"turns": 0.25}], "w": [], "ins": 0, "conds": [{"t": "key", "ki": 0}]}, {"k": "g", "g": ["XPow", {"e": 1.0, "s": 0.0}], "w": [1], "ins": 0}, {"k": "m", "key": 1, "w": [1], "inv": [], "ins": 0, "conf": False}], "idle": False, "order": [0, 1], "precision": 10, "version": "2.0", "header": 1, "entry": "to_qasm"},
    "C19C (55bcca9)": {"dims": [2, 2], "names": [0, 1], "qkind": "line", "ops": [{"k": "m", "key": 0, "w": [0], "inv": [], "ins": 0, "conf": False}, {"k": "cc", "g": ["SwapPow", {"e": 0.5, "s": 0.0}], "w": [0, 1], "ins": 0, "conds": [{"t": "key", "ki": 0}]}], "idle": False, "order": [0, 1], "precision": 10, "version": "2.0", "header": 1, "entry": "to_qasm"},
    "C19E (724280a)": {"dims": [2, 2], "names": [0, 1], "qkind": "line", "ops": [{"k": "m", "key": 4, "w": [0], "inv": [], "ins": 0, "conf": False}, {"k": "cc", "g": ["XPow", {"e": 1.0, "s": 0.0}], "w": [1], "ins": 0, "conds": [{"t": "eq", "ki": 0, "v": 1}]}], "idle": False, "order": [0, 1], "precision": 10, "version": "2.0", "header": 1, "entry": "to_qasm"},
    "C19F (7cbea57)": {"dims": [2, 2], "names": [0, 1], "qkind": "line", "ops": [{"k": "g", "g": ["XPow", {"e": 1.0, "s": 0.0}], "w": [0], "ins": 0}, {"k": "m", "key": 0, "w": [0], "inv": [], "ins": 0, "conf": False}, {"k": "g", "g": ["XPow", {"e": 1.0, "s": 0.0}], "w": [0], "ins": 0}, {"k": "m", "key": 0, "w": [0], "inv": [], "ins": 0, "conf": False}, {"k": "cc", "g": ["XPow", {"e": 1.0, "s": 0.0}], "w": [1], "ins": 0, "conds": [{"t": "key_index", "ki": 0, "index": 0}]}, {"k": "m", "key": 1, "w": [1], "inv": [], "ins": 0, "conf": False}], "idle": False, "order": [0, 1], "precision": 10, "version": "2.0", "header": 1, "entry": "to_qasm"},
    "F8 (91d4985) 3.0": {"dims": [2, 2, 2], "names": [0, 1, 2], "qkind": "line", "ops": [{"k": "g", "g": ["XPow", {"e": 1.0, "s": 0.0}], "w": [1], "ins": 0}, {"k": "m", "key": 0, "w": [0, 1], "inv": [], "ins": 0, "conf": False}, {"k": "cc", "g": ["XPow", {"e": 1.0, "s": 0.0}], "w": [2], "ins": 0, "conds": [{"t": "eq", "ki": 0, "v": 1}]}, {"k": "m", "key": 1, "w": [2], "inv": [], "ins": 0, "conf": False}], "idle": False, "order": [0, 1, 2], "precision": 10, "version": "3.0", "header": 1, "entry": "to_qasm"},
    "C19A (20b22e4) 3.0": {"dims": [2, 2], "names": [0, 1], "qkind": "line", "ops": [{"k": "m", "key": 0, "w": [0], "inv": [], "ins": 0, "conf": False}, {"k": "cc", "g": ["HPow", {"e": 0.5, "s": 0.0}], "w": [1], "ins": 0, "conds": [{"t": "key", "ki": 0}]}, {"k": "m", "key": 1, "w": [1], "inv": [], "ins": 0, "conf": False}], "idle": False, "order": [0, 1], "precision": 10, "version": "3.0", "header": 1, "entry": "to_qasm"},
    "C19C (55bcca9) 3.0": {"dims": [2, 2], "names": [0, 1], "qkind": "line", "ops": [{"k": "m", "key": 0, "w": [0], "inv": [], "ins": 0, "conf": False}, {"k": "cc", "g": ["SwapPow", {"e": 0.5, "s": 0.0}], "w": [0, 1], "ins": 0, "conds": [{"t": "key", "ki": 0}]}], "idle": False, "order": [0, 1], "precision": 10, "version": "3.0", "header": 1, "entry": "to_qasm"},
    "C19H multi-statement (ac9f8ab)": {"dims": [2, 2], "names": [0, 1], "qkind": "line", "ops": [{"k": "m", "key": 0, "w": [0], "inv": [], "ins": 0, "conf": False}, {"k": "cc", "g": ["HPow", {"e": 0.5, "s": 0.0}], "w": [1], "ins": 0, "conds": [{"t": "key", "ki": 0}], "form": "if"}, {"k": "m", "key": 1, "w": [1], "inv": [], "ins": 0, "conf": False}], "idle": False, "order": [0, 1], "precision": 10, "version": "2.0", "header": 1, "entry": "to_qasm"},
    "C19H multi-statement (ac9f8ab) 3.0": {"dims": [2, 2], "names": [0, 1], "qkind": "line", "ops": [{"k": "m", "key": 0, "w": [0], "inv": [], "ins": 0, "conf": False}, {"k": "cc", "g": ["HPow", {"e": 0.5, "s": 0.0}], "w": [1], "ins": 0, "conds": [{"t": "key", "ki": 0}], "form": "if"}, {"k": "m", "key": 1, "w": [1], "inv": [], "ins": 0, "conf": False}], "idle": False, "order": [0, 1], "precision": 10, "version": "3.0", "header": 1, "entry": "to_qasm"},
    "C19H empty body (ac9f8ab)": {"dims": [2, 2], "names": [0, 1], "qkind": "line", "ops": [{"k": "m", "key": 0, "w": [0], "inv": [], "ins": 0, "conf": False}, {"k": "cc", "g": ["GlobalPhase", {"turns": 0.25}], "w": [], "ins": 0, "conds": [{"t": "key", "ki": 0}], "form": "if"}, {"k": "g", "g": ["XPow", {"e": 1.0, "s": 0.0}], "w": [1], "ins": 0}, {"k": "m", "key": 1, "w": [1], "inv": [], "ins": 0, "conf": False}], "idle": False, "order": [0, 1], "precision": 10, "version": "2.0", "header": 1, "entry": "to_qasm"},
}
_EXAMPLES_GATE = list(FIXED_GATE.values())
_EXAMPLES_FF = list(FIXED_FF.values())

SUBCHECKS = [
    SubCheck("gate_special", None, oracle_gate, quick=0, thorough=0, shards_quick=4, shards_thorough=4,
             enumerate=special_gate_cases, exhaustive_in=("quick", "thorough")),
    SubCheck("gate", _gate_case(), oracle_gate, quick=3000, thorough=150000, shards_quick=8, shards_thorough=16,
             essential={"direct": 0.2, "decomposed": 0.2, "controlled": 0.1}, examples=_EXAMPLES_GATE),
    SubCheck("unitary", _unitary_case(), oracle_unitary, quick=1600, thorough=80000, shards_quick=6, shards_thorough=16,
             essential={"needs_decomposition": 0.3, "version=3.0": 0.3, "version=2.0": 0.3}),
    SubCheck("feedforward", _ff_case(), oracle_ff, quick=2400, thorough=120000, shards_quick=8, shards_thorough=16,
             essential={"classical_control": 0.2, "inverted_multi_measurement": 0.08, "needs_decomposition": 0.2,
                        "cc_fallback_2q": 0.08, "cc_fallback_branching": 0.12,
                        "version=3.0": 0.25, "version=2.0": 0.25}, examples=_EXAMPLES_FF),
]
