"""C09 — noisy and mixed-state simulation implements the channel semantics."""
from __future__ import annotations

import numpy as np
from hypothesis import strategies as st

import cirq
from vf.core import Reject, SubCheck, Violation
from vf.gen import circuits as GC
from vf.gen import gates as G
from vf.gen import meas_circuits as MC
from vf.prng import enumerate_branches
from vf.ref import interp as RI
from vf.ref import linalg as L

RULE = (
    "Hypothesis draws circuits mixing unitary gates with every channel family of the gate table (depolarize 1/2 qubits, "
    "asymmetric depolarize, bit/phase flip, phase/amplitude/generalized amplitude damping, reset, RandomGateChannel; "
    "special and continuous probabilities), measurements and classical control, qubits and qudits, initial density "
    "matrices (pure / mixed from drawn spectra) and noise models (constant per-qubit with/without prepend, NOISE_MODEL_LIKE "
    "gate, insertion model with gate-type and gate-type+qubits identifiers, thermal model). Oracles: (dm) density-matrix "
    "simulator per measurement branch vs sum_k K rho K^dagger of the numpy interpreter + validity (Hermitian, PSD, trace); "
    "(reps) kraus/mixture/superoperator/Choi conversions vs own formulas, TP, CP; (traj) exact unravelling: every "
    "mixture/Kraus/measurement branch of the state-vector simulator is enumerated with a scripted PRNG (random() returns a "
    "spy that records the weights the simulator subtracts), sum p_b |psi_b><psi_b| == rho_ref; (noise) simulating with a "
    "noise model == simulating noisy_moments / with_noise, and == an independent reference for constant and insertion models. "
    "Non-trivial: a non-unital or non-diagonal channel on a qubit entangled with another, or >=2 channels / inserted noise ops."
)
ASSUMPTIONS = [
    "per-operation Kraus sets come from cirq.kraus(gate)/cirq.mixture(gate) (C03 decides those); composition, left/right axis "
    "handling, branching and noise insertion are recomputed independently",
    "state-vector Kraus sampling is observed through the documented duck-typed `seed` object: random() returns an object "
    "supporting `-=` and `< 0`, which records the operator weights the simulator subtracts",
    "tolerance 1e-6 on density-matrix entries (complex128 simulators)",
]

NONUNITAL = {"AmplitudeDamp", "GenAmplitudeDamp", "Reset", "Stored"}


def r_c64(r):
    """stored complex64 operators carry ~1e-7 rounding of their own (the reference uses the same rounded values)"""
    return any(o["k"] == "ch" and o["g"][0] == "Stored" and o["g"][1].get("c64") for o in r["ops"])


def _psd_valid(what, rho, tol=1e-6):
    rho = np.asarray(rho)
    if L.max_abs_diff(rho, rho.conj().T) > tol:
        raise Violation(f"{what}: density matrix is not Hermitian (asymmetry {L.max_abs_diff(rho, rho.conj().T):.3g})")
    tr = np.trace(rho)
    if abs(tr - 1) > tol:
        raise Violation(f"{what}: density matrix has trace {tr:.6g}")
    w = np.linalg.eigvalsh((rho + rho.conj().T) / 2)
    if w[0] < -tol:
        raise Violation(f"{what}: density matrix has eigenvalue {w[0]:.3g} < 0")


def _mixed_state(vals, spectrum, D):
    u = L.random_unitary_from_floats(vals, D)
    sp = np.array([abs(x) for x in spectrum[:D]] + [0.0] * max(0, D - len(spectrum)), dtype=float)
    if sp.sum() < 1e-6:
        sp[0] = 1.0
    sp = sp / sp.sum()
    return (u * sp) @ u.conj().T


def _entangling_features(r):
    fams = [o["g"][0] for o in r["ops"] if o["k"] == "ch"]
    multi = any(o["k"] in ("g", "cg") and len(o["w"]) >= 2 for o in r["ops"])
    chans = [MC.GC_dumps([o["g"], [r["dims"][i] for i in o["w"]]]) for o in r["ops"] if o["k"] == "ch"]
    return {"n_channels": min(len(fams), 3), "nonunital": any(f in NONUNITAL for f in fams), "two_qubit_gate": multi,
            "stored_arrays": "Stored" in fams, "same_channel_object_twice": len(set(chans)) < len(chans),
            "qudit_channel": any(r["dims"][i] != 2 for o in r["ops"] if o["k"] == "ch" for i in o["w"]),
            "nontrivial": bool(fams) and multi and (any(f in NONUNITAL for f in fams) or len(fams) >= 2)}


# ------------------------------------------------------------------------------------------- (a) density matrix


@st.composite
def _dm_case(draw, qudits=False):
    r = draw(MC.meas_circuit_recipes(max_w=3, max_ops=9, qudits=qudits, channels=True, max_branches=16, pauli_meas=False, ch_weight=4, stored=True))
    n = len(r["dims"])
    r["order"] = list(draw(st.permutations(list(range(n)))))
    r["split"] = draw(st.booleans())
    D = L.dim(r["dims"])
    kind = draw(st.sampled_from(["default", "int", "pure", "mixed"]))
    if kind == "int":
        r["init"] = {"kind": "int", "v": draw(st.integers(0, D - 1))}
    elif kind == "pure":
        r["init"] = {"kind": "pure", "v": draw(st.lists(G.small_floats(), min_size=2 * D, max_size=2 * D))}
    elif kind == "mixed" and D <= 16:
        r["init"] = {"kind": "mixed", "v": draw(st.lists(G.small_floats(), min_size=2 * D * D, max_size=2 * D * D)),
                     "sp": draw(st.lists(st.floats(0, 1), min_size=D, max_size=D))}
    else:
        r["init"] = {"kind": "default"}
    return r


def oracle_dm(r):
    circuit, qs, ir, key_dims = MC.build(r, r["order"])
    order = [qs[i] for i in r["order"]]
    shape = [r["dims"][i] for i in r["order"]]
    D = L.dim(shape)
    init = r["init"]
    kw = {}
    rho0 = None
    if init["kind"] == "int":
        psi0 = L.basis_vector(init["v"], D)
        rho0 = np.outer(psi0, psi0.conj())
        kw["initial_state"] = init["v"]
    elif init["kind"] == "pure":
        psi0 = L.state_from_floats(init["v"], D)
        rho0 = np.outer(psi0, psi0.conj())
        kw["initial_state"] = psi0
    elif init["kind"] == "mixed":
        rho0 = _mixed_state(init["v"], init["sp"], D)
        kw["initial_state"] = rho0.copy()
    ref = RI.run(ir, shape, rho0=rho0)

    def run(prng):
        sim = cirq.DensityMatrixSimulator(seed=prng, dtype=np.complex128, split_untangled_states=r["split"])
        return sim.simulate(circuit, qubit_order=order, **kw)

    want = {}
    for b in ref:
        kk = ";".join(f"{k}=" + "".join(str(d) for d in b.records[k][-1]) for k in sorted(b.records))
        want.setdefault(kk, [0.0, np.zeros((D, D), dtype=complex)])
        want[kk][0] += b.prob
        want[kk][1] += b.prob * b.rho
    lab = _entangling_features(r)
    # a circuit whose channels hold stored arrays is simulated a second time: the same circuit value must mean the same map
    for again in (["", " (second simulation of the same circuit object)"] if lab["stored_arrays"] else [""]):
        try:
            branches = enumerate_branches(run, max_branches=300)
        except OverflowError:
            raise Reject("too many branches")
        if abs(sum(p for p, *_ in branches) - 1) > 1e-6:
            raise Violation(f"branch probabilities of the density-matrix simulator sum to {sum(p for p, *_ in branches):.6g}{again}")
        by_out = {}
        for p, script, res, prng in branches:
            _psd_valid("DensityMatrixSimulator.simulate" + again, res.final_density_matrix)
            kk = ";".join(f"{k}=" + "".join(str(int(d)) for d in res.measurements[k]) for k in sorted(res.measurements))
            by_out.setdefault(kk, [0.0, np.zeros((D, D), dtype=complex)])
            by_out[kk][0] += p
            by_out[kk][1] += p * np.asarray(res.final_density_matrix)
        for kk in set(by_out) | set(want):
            g = by_out.get(kk, [0.0, np.zeros((D, D))])
            w = want.get(kk, [0.0, np.zeros((D, D))])
            if abs(g[0] - w[0]) > 1e-6:
                raise Violation(f"DensityMatrixSimulator{again}: P[{kk}] = {g[0]:.6g}, channel semantics give {w[0]:.6g}")
            d = L.max_abs_diff(g[1], w[1])
            if d > (2e-6 if r_c64(r) else 1e-6):
                raise Violation(f"DensityMatrixSimulator{again}: final density matrix for outcome [{kk}] differs from sum K rho K^dagger by {d:.3g}")
    lab["init"] = init["kind"]
    lab["qudit"] = any(d != 2 for d in shape)
    lab["has_measure"] = any(o["k"] == "m" for o in r["ops"])
    return lab


def oracle_dephased(r):
    """cirq.final_density_matrix with measurement results ignored == sum over outcome branches (terminal measurements)."""
    if not MC.is_terminal_only(r):
        raise Reject("not terminal-only")
    circuit, qs, ir, key_dims = MC.build(r, r["order"])
    order = [qs[i] for i in r["order"]]
    shape = [r["dims"][i] for i in r["order"]]
    D = L.dim(shape)
    init = r["init"]
    kw = {}
    rho0 = None
    if init["kind"] == "int":
        rho0 = np.outer(L.basis_vector(init["v"], D), L.basis_vector(init["v"], D))
        kw["initial_state"] = init["v"]
    elif init["kind"] == "pure":
        psi0 = L.state_from_floats(init["v"], D)
        rho0 = np.outer(psi0, psi0.conj())
        kw["initial_state"] = psi0
    elif init["kind"] == "mixed":
        raise Reject("mixed initial state not accepted by final_density_matrix")
    ref = RI.run(ir, shape, rho0=rho0)
    fd = cirq.final_density_matrix(circuit, qubit_order=order, dtype=np.complex128, ignore_measurement_results=True, **kw)
    _psd_valid("cirq.final_density_matrix", fd)
    d = L.max_abs_diff(fd, RI.total_rho(ref))
    if d > 1e-6:
        raise Violation(f"cirq.final_density_matrix(ignore_measurement_results=True) differs from the channel semantics by {d:.3g}")
    lab = _entangling_features(r)
    lab["has_measure"] = any(o["k"] == "m" for o in r["ops"])
    lab["nontrivial"] = lab["has_measure"] and lab["n_channels"] >= 1
    return lab


def _defers(r):
    """Does cirq.final_density_matrix have to defer a measurement of this recipe (anything acts on a measured wire again,
    a key is read by a control, a Pauli measurement)?"""
    seen = set()
    for o in r["ops"]:
        if o["k"] in ("cg", "pm") or any(w in seen for w in o["w"]):
            return True
        if o["k"] == "m":
            seen.update(o["w"])
    return False


def oracle_dephased_general(r):
    """cirq.final_density_matrix (results ignored) on circuits with mid-circuit measurements, resets and classical control:
    'all measurements are treated as sources of decoherence' == sum_b p_b rho_b over every outcome branch."""
    has_cc = any(o["k"] == "cg" for o in r["ops"])
    if has_cc and any(o["k"] == "m" and o.get("conf") for o in r["ops"]):
        raise Reject("confusion map + classical control: defer_measurements documents NotImplementedError")
    n = len(r["dims"])
    # with classical control the documented entry point is used with the default (sorted) order unless the recipe forces an
    # explicit one (known finding C09-N4: any explicit qubit_order fails once ancilla qubits are added)
    force = bool(r.get("force_order"))
    qs0 = GC.qubits_of(r)
    sorted_order = sorted(range(n), key=lambda i: qs0[i])
    deferring = _defers(r)  # the entry point defers every non-terminal measurement onto ancilla qubits
    wire_order = list(r["order"]) if (force or not deferring) else sorted_order
    circuit, qs, ir, key_dims = MC.build(r, wire_order)
    order = [qs[i] for i in wire_order]
    shape = [r["dims"][i] for i in wire_order]
    D = L.dim(shape)
    init = r["init"]
    kw = {}
    rho0 = None
    if init["kind"] == "int" and not deferring:
        rho0 = np.outer(L.basis_vector(init["v"], D), L.basis_vector(init["v"], D))
        kw["initial_state"] = init["v"]
    elif init["kind"] == "pure" and not deferring:
        psi0 = L.state_from_floats(init["v"], D)
        rho0 = np.outer(psi0, psi0.conj())
        kw["initial_state"] = psi0
    # (with classical control the entry point adds ancilla qubits; an initial state for the circuit's own qubits is then not
    #  expressible through this entry point - default initial state there)
    if len(circuit.all_qubits()) != n:
        raise Reject("idle wire: the default order would not contain it")
    try:
        ref = RI.run(ir, shape, rho0=rho0, max_branches=512)
    except OverflowError:
        raise Reject("too many branches")
    if deferring and not force:
        fd = cirq.final_density_matrix(circuit, dtype=np.complex128, **kw)
    else:
        fd = cirq.final_density_matrix(circuit, qubit_order=order, dtype=np.complex128, **kw)
    _psd_valid("cirq.final_density_matrix", fd)
    d = L.max_abs_diff(fd, RI.total_rho(ref))
    if d > 1e-6:
        raise Violation(f"cirq.final_density_matrix (measurement results ignored) differs from sum_b p_b rho_b over the outcome branches by {d:.3g}")
    lab = _entangling_features(r)
    lab["classical_control"] = has_cc
    lab["mid_circuit_measurement"] = not MC.is_terminal_only(r)
    lab["reset"] = any(o["k"] == "r" for o in r["ops"])
    lab["nontrivial"] = lab["mid_circuit_measurement"] and (has_cc or lab["n_channels"] >= 1)
    return lab


@st.composite
def _dephased_general_case(draw):
    r = draw(MC.meas_circuit_recipes(max_w=3, max_ops=8, channels=True, max_branches=16, pauli_meas=False, ch_weight=2, stored=True,
                                     confusion=False))
    n = len(r["dims"])
    r["order"] = list(draw(st.permutations(list(range(n)))))
    D = L.dim(r["dims"])
    kind = draw(st.sampled_from(["default", "default", "int", "pure"]))
    r["init"] = {"kind": "default"} if kind == "default" else (
        {"kind": "int", "v": draw(st.integers(0, D - 1))} if kind == "int" else
        {"kind": "pure", "v": draw(st.lists(G.small_floats(), min_size=2 * D, max_size=2 * D))})
    r["force_order"] = draw(st.integers(0, 4)) == 0
    return r


def _feat_fdm_cc_order(sub, r):
    return sub == "dephased_general" and bool(r.get("force_order")) and _defers(r)


@st.composite
def _dephased_case(draw):
    r = draw(_dm_case(qudits=draw(st.integers(0, 3)) == 0))
    # make it terminal-only: drop resets / controls / anything after a measurement on the same wire
    seen = set()
    ops = []
    for o in r["ops"]:
        if o["k"] in ("cg", "r"):
            continue
        if o["k"] == "m":
            if any(w in seen for w in o["w"]):
                continue
            seen.update(o["w"])
            o = dict(o, conf=None)
        elif any(w in seen for w in o["w"]):
            continue
        ops.append(o)
    r["ops"] = ops
    return r


def _feat_dephase_qudit(sub, r):
    return sub == "dephased" and any(o["k"] == "m" and any(r["dims"][w] != 2 for w in o["w"]) for o in r["ops"])


def _feat_noise_prefix_split(sub, r):
    """The density-matrix simulator splits the program into a measurement-free run prefix (per-qubit frontier) and the
    rest and applies the noise model to each part separately: excluded whenever both parts are non-empty."""
    if sub != "noise_models" or not r.get("dm"):
        return False
    blocked = set()
    prefix = suffix = 0
    for o in r["ops"]:
        if o["k"] in ("m", "cg") or any(w in blocked for w in o["w"]):
            blocked.update(o["w"])
            suffix += 1
        else:
            prefix += 1
    return prefix > 0 and suffix > 0


KNOWN_FEATURES = {
    "C09_dephase_measurements_qudit": _feat_dephase_qudit,
    "C09_noise_system_qubits_per_run_prefix": _feat_noise_prefix_split,
    "C09_final_dm_classical_control_qubit_order": _feat_fdm_cc_order,
}


# ------------------------------------------------------------------------------------------- (c) trajectories


@st.composite
def _traj_case(draw):
    r = draw(MC.meas_circuit_recipes(max_w=3, max_ops=8, channels=True, max_branches=8, confusion=False, pauli_meas=False, ch_weight=4, stored=True))
    n = len(r["dims"])
    r["order"] = list(draw(st.permutations(list(range(n)))))
    r["split"] = draw(st.booleans())
    return r


def oracle_traj(r):
    circuit, qs, ir, key_dims = MC.build(r, r["order"])
    order = [qs[i] for i in r["order"]]
    shape = [r["dims"][i] for i in r["order"]]
    D = L.dim(shape)
    ref = RI.run(ir, shape)

    def run(prng):
        sim = cirq.Simulator(seed=prng, dtype=np.complex128, split_untangled_states=r["split"])
        return sim.simulate(circuit, qubit_order=order)

    try:
        branches = enumerate_branches(run, max_branches=1500, spy_random=True)
    except OverflowError:
        raise Reject("too many branches")
    tot = sum(p for p, *_ in branches)
    if abs(tot - 1) > 1e-6:
        raise Violation(f"trajectory branch probabilities sum to {tot:.6g}")
    by_out = {}
    for p, script, res, prng in branches:
        v = np.asarray(res.final_state_vector).reshape(-1)
        if abs(np.linalg.norm(v) - 1) > 1e-6:
            raise Violation(f"trajectory branch state has norm {np.linalg.norm(v):.6g}")
        kk = ";".join(f"{k}=" + "".join(str(int(d)) for d in res.measurements[k]) for k in sorted(res.measurements))
        by_out.setdefault(kk, np.zeros((D, D), dtype=complex))
        by_out[kk] += p * np.outer(v, v.conj())
    want = {}
    for b in ref:
        kk = ";".join(f"{k}=" + "".join(str(d) for d in b.records[k][-1]) for k in sorted(b.records))
        want.setdefault(kk, np.zeros((D, D), dtype=complex))
        want[kk] += b.prob * b.rho
    for kk in set(by_out) | set(want):
        d = L.max_abs_diff(by_out.get(kk, np.zeros((D, D))), want.get(kk, np.zeros((D, D))))
        if d > 1e-6:
            raise Violation(f"state-vector trajectories: sum_b p_b |psi_b><psi_b| for outcome [{kk}] differs from the channel semantics by {d:.3g}")
    lab = _entangling_features(r)
    lab["branches"] = min(len(branches) // 4, 5)
    return lab


# ------------------------------------------------------------------------------------------- (b) representations


def oracle_reps(r):
    gate = G.build_gate(r["g"])
    fam = G.FAMILIES[r["g"][0]]
    ks = cirq.kraus(gate)
    d = ks[0].shape[0]
    if not L.is_trace_preserving(ks, 1e-7):
        raise Violation(f"cirq.kraus({gate!r}) is not trace preserving")
    J = L.kraus_to_choi(ks)
    S = L.kraus_to_superop(ks)
    w = np.linalg.eigvalsh((J + J.conj().T) / 2)
    if w[0] < -1e-7:
        raise Violation("Choi matrix of the Kraus set is not PSD")
    tol = 1e-7

    def cmp(what, got, want):
        dd = L.max_abs_diff(np.asarray(got), want)
        if dd > tol:
            raise Violation(f"{what} differs from the reference computed from the Kraus operators by {dd:.3g}")

    cmp("kraus_to_superoperator", cirq.kraus_to_superoperator(ks), S)
    cmp("kraus_to_choi", cirq.kraus_to_choi(ks), J)
    cmp("superoperator_to_choi", cirq.superoperator_to_choi(S), J)
    cmp("choi_to_superoperator", cirq.choi_to_superoperator(J), S)
    cmp("choi_to_kraus (as a map)", L.kraus_to_choi(list(cirq.choi_to_kraus(J))) if len(cirq.choi_to_kraus(J)) else np.zeros_like(J), J)
    cmp("superoperator_to_kraus (as a map)", L.kraus_to_choi(list(cirq.superoperator_to_kraus(S))), J)
    cmp("operation_to_superoperator", cirq.operation_to_superoperator(gate), S)
    cmp("operation_to_choi", cirq.operation_to_choi(gate), J)
    mix = cirq.mixture(gate, None)  # (has_mixture vs mixture consistency is C04's business)
    if mix is not None:
        if abs(sum(p for p, _ in mix) - 1) > 1e-9:
            raise Violation("mixture probabilities do not sum to 1")
        for p, u in mix:
            if p < -1e-12 or not L.is_unitary(u, 1e-7):
                raise Violation("mixture contains a negative probability or a non-unitary operator")
        cmp("mixture (as a map)", L.kraus_to_choi([np.sqrt(max(p, 0)) * np.asarray(u) for p, u in mix]), J)
    # embedded in a moment / circuit with a second op, on permuted qubits
    n = G.arity(r["g"])
    qs = cirq.LineQubit.range(n + 1)
    perm = r["perm"][: n + 1] if len(r["perm"]) >= n + 1 else list(range(n + 1))
    if sorted(perm) != list(range(n + 1)):
        perm = list(range(n + 1))
    tq = [qs[i] for i in perm[:n]]
    other = qs[perm[n]]
    g2 = G.build_gate(r["g2"])
    if len(gate.on(*tq).qubits) != n:
        raise Reject("gate.on drops identity qubits")
    m = cirq.Moment([gate.on(*tq), g2.on(other)])
    shape = [2] * (n + 1)
    ks2 = cirq.kraus(g2)
    full = [L.embed(a, [perm[i] for i in range(n)], shape) @ L.embed(b, [perm[n]], shape) for a in ks for b in ks2]
    cmp("Moment superoperator", m._superoperator_(), L.kraus_to_superop(full))
    c = cirq.Circuit(m, cirq.CNOT(qs[0], qs[1]) if n + 1 >= 2 else [], gate.on(*tq))
    cn = L.embed(cirq.unitary(cirq.CNOT), [0, 1], shape)
    full2 = [L.embed(a, [perm[i] for i in range(n)], shape) @ cn @ k for a in ks for k in full]
    cmp("Circuit superoperator", c._superoperator_(), L.kraus_to_superop(full2))
    return {"nontrivial": fam.channel and r["g"][1] not in ({}, None) and all(v not in (0.0, 1.0) for v in r["g"][1].values() if isinstance(v, float)),
            "family": r["g"][0]}


def _reps_strategy():
    ch = G.gate_recipes(lambda f: (f.channel or f.unitary) and not f.qudit and "zeroq" not in f.tags and f.name not in ("Wait",), max_arity=2)
    chan_only = G.gate_recipes(lambda f: f.channel, max_arity=2)
    one = G.gate_recipes(lambda f: (f.channel or f.unitary) and not f.qudit and f.arity == 1 and f.name != "Wait", max_arity=1)
    return st.fixed_dictionaries({"g": st.one_of(chan_only, chan_only, ch), "g2": one, "perm": st.permutations([0, 1, 2])})


# ------------------------------------------------------------------------------------------- (d) noise models


@st.composite
def _noise_case(draw):
    r = draw(MC.meas_circuit_recipes(max_w=3, max_ops=7, channels=False, max_branches=4, confusion=False, conds=False, resets=False,
                                     qkinds=["line", "grid", "named"], pauli_meas=False))
    n = len(r["dims"])
    r["order"] = list(draw(st.permutations(list(range(n)))))
    r["virtual"] = draw(st.lists(st.booleans(), min_size=len(r["ops"]), max_size=len(r["ops"])))
    ch1 = G.gate_recipes(lambda f: f.channel and f.arity == 1 and f.name != "Reset", max_arity=1)
    kind = draw(st.sampled_from(["const", "const", "like", "insertion", "insertion", "thermal"]))
    if kind in ("const", "like"):
        r["noise"] = {"t": kind, "g": draw(ch1), "prepend": draw(st.booleans()) if kind == "const" else False}
    elif kind == "insertion":
        ents = []
        for _ in range(draw(st.integers(1, 3))):
            ents.append({"fam": draw(st.sampled_from(["XPow", "ZPow", "HPow", "CZPow", "CXPow", "Measure", "EigenAny"])),
                         "on_wires": draw(st.booleans()), "wires": list(draw(st.permutations(list(range(n)))))[:2],
                         "g": draw(ch1), "target": draw(st.integers(0, n - 1))})
        r["noise"] = {"t": "insertion", "ents": ents, "prepend": draw(st.booleans())}
    else:
        r["noise"] = {"t": "thermal", "t1": draw(st.sampled_from([1e4, 2e4, 1e5])), "tphi": draw(st.sampled_from([1e4, 5e4, 1e6])),
                      "dur": draw(st.sampled_from([10.0, 25.0, 100.0]))}
    # state-vector trajectories of a noisy circuit branch once per inserted channel: keep those cases tiny
    r["dm"] = draw(st.booleans()) if (n <= 2 and len(r["ops"]) <= 3) else True
    r["split"] = draw(st.booleans())
    return r


_TYPES = {"XPow": "XPowGate", "ZPow": "ZPowGate", "HPow": "HPowGate", "CZPow": "CZPowGate", "CXPow": "CXPowGate", "Measure": "MeasurementGate",
          "EigenAny": "EigenGate"}


def _build_noise(r, qs):
    nz = r["noise"]
    if nz["t"] == "const":
        return cirq.ConstantQubitNoiseModel(G.build_gate(nz["g"]), prepend=nz["prepend"])
    if nz["t"] == "like":
        return G.build_gate(nz["g"])
    if nz["t"] == "insertion":
        from cirq.devices import InsertionNoiseModel
        from cirq.devices.noise_utils import OpIdentifier

        m = {}
        for e in nz["ents"]:
            t = getattr(cirq, _TYPES[e["fam"]])
            ar = 2 if e["fam"] in ("CZPow", "CXPow") else 1
            if e["on_wires"] and e["fam"] not in ("Measure", "EigenAny") and len(e["wires"]) >= ar:
                oid = OpIdentifier(t, *[qs[i] for i in e["wires"][:ar]])
            else:
                oid = OpIdentifier(t)
            if oid not in m:
                m[oid] = G.build_gate(e["g"]).on(qs[e["target"] % len(qs)])
        return InsertionNoiseModel(ops_added=m, prepend=nz["prepend"], require_physical_tag=False)
    from cirq.devices import ThermalNoiseModel

    return ThermalNoiseModel(qubits=set(qs), gate_durations_ns={cirq.XPowGate: nz["dur"], cirq.ZPowGate: 0.0, cirq.HPowGate: nz["dur"],
                                                                cirq.CZPowGate: nz["dur"], cirq.MeasurementGate: 4 * nz["dur"]},
                             heat_rate_GHz=None, cool_rate_GHz={q: 1.0 / nz["t1"] for q in qs},
                             dephase_rate_GHz={q: 1.0 / nz["tphi"] for q in qs}, require_physical_tag=False, skip_measurements=True)


def oracle_noise(r):
    # NEW strategy: one operation per moment, in recipe order (the reference needs the moment structure)
    circuit0, qs, ir0, key_dims = MC.build(r, r["order"], strategy=cirq.InsertStrategy.NEW)
    if len(circuit0) != len(r["ops"]):
        raise Reject("op count")
    circuit = cirq.Circuit()
    for m, virt in zip(circuit0, r["virtual"] + [False] * 100):
        (op,) = m.operations
        circuit.append(cirq.Moment(op.with_tags(cirq.VirtualTag()) if virt and not cirq.is_measurement(op) else op))
    order = [qs[i] for i in r["order"]]
    shape = [r["dims"][i] for i in r["order"]]
    D = L.dim(shape)
    try:
        noise = _build_noise(r, qs)
    except ValueError as e:
        raise Reject(f"noise model constructor: {str(e)[:40]}")
    model = cirq.NoiseModel.from_noise_model_like(noise)
    Sim = cirq.DensityMatrixSimulator if r["dm"] else cirq.Simulator
    sysq = sorted(circuit.all_qubits())
    try:
        produced = cirq.Circuit(model.noisy_moments(circuit, sysq))
    except ValueError as e:
        raise Reject(f"noise model: {str(e)[:60]}")
    with_noise = circuit.with_noise(noise)

    def totals(circ, noise_arg):
        def run(prng):
            sim = Sim(seed=prng, dtype=np.complex128, split_untangled_states=r["split"], noise=noise_arg)
            return sim.simulate(circ, qubit_order=order)

        br = enumerate_branches(run, max_branches=600, spy_random=True)
        out = {}
        for p, script, res, prng in br:
            kk = ";".join(f"{k}=" + "".join(str(int(d)) for d in res.measurements[k]) for k in sorted(res.measurements))
            if r["dm"]:
                rho = np.asarray(res.final_density_matrix)
            else:
                v = np.asarray(res.final_state_vector).reshape(-1)
                rho = np.outer(v, v.conj())
            out.setdefault(kk, np.zeros((D, D), dtype=complex))
            out[kk] += p * rho
        return out

    try:
        a = totals(circuit, noise)
        b = totals(produced, None)
        c = totals(with_noise, None)
    except OverflowError:
        raise Reject("too many branches")

    def cmp(what, x, y):
        for kk in set(x) | set(y):
            d = L.max_abs_diff(x.get(kk, np.zeros((D, D))), y.get(kk, np.zeros((D, D))))
            if d > 1e-6:
                raise Violation(f"{what}: outcome [{kk}] differs by {d:.3g}")

    name = "DensityMatrixSimulator" if r["dm"] else "Simulator"
    cmp(f"{name}(noise=m).simulate(c) vs simulating m.noisy_moments(c)", a, b)
    cmp(f"{name}(noise=m).simulate(c) vs simulating c.with_noise(m)", a, c)
    for kk, rho in a.items():
        tr = np.trace(rho).real
        if tr > 1e-9:
            _psd_valid(f"{name}(noise=m) outcome [{kk}]", rho / tr)
    # independent reference for constant / like / insertion models
    nz = r["noise"]
    n_ins = 0
    if nz["t"] in ("const", "like", "insertion"):
        pos = {q: order.index(q) for q in qs}
        ir = []
        ops = list(circuit.all_operations())
        for op, base, virt in zip(ops, ir0, r["virtual"] + [False] * 100):
            is_virtual = virt and not cirq.is_measurement(op)
            extra = []
            if nz["t"] in ("const", "like"):
                if not is_virtual:  # a moment consisting only of virtual ops receives no noise
                    ks = list(cirq.kraus(G.build_gate(nz["g"])))
                    extra = [{"t": "k", "ks": ks, "ax": [pos[q]]} for q in sysq]
            else:
                ents = []
                for e in nz["ents"]:
                    t = getattr(cirq, _TYPES[e["fam"]])
                    ar = 2 if e["fam"] in ("CZPow", "CXPow") else 1
                    wires = tuple(e["wires"][:ar]) if (e["on_wires"] and e["fam"] not in ("Measure", "EigenAny") and len(e["wires"]) >= ar) else None
                    key = (e["fam"], wires)
                    if key not in [x[0] for x in ents]:
                        ents.append((key, t, wires, e))
                # most specific matching identifier wins, first in dict order on ties
                best = None
                for key, t, wires, e in ents:
                    if not isinstance(op.gate, t):
                        continue
                    if wires is not None and tuple(qs[i] for i in wires) != tuple(op.qubits):
                        continue
                    if best is None:
                        best = (t, wires, e)
                    else:
                        bt, bw, be = best
                        more_q = wires is not None and bw is None
                        more_g = t is not bt and issubclass(t, bt)
                        if (more_q and (more_g or t is bt)) or (more_g and (more_q or wires == bw)):
                            best = (t, wires, e)
                if best is not None:
                    e = best[2]
                    extra = [{"t": "k", "ks": list(cirq.kraus(G.build_gate(e["g"]))), "ax": [pos[qs[e["target"] % len(qs)]]]}]
            n_ins += len(extra)
            if nz.get("prepend"):
                ir += extra + [base]
            else:
                ir += [base] + extra
        ref = RI.run(ir, shape)
        want = {}
        for bch in ref:
            kk = ";".join(f"{k}=" + "".join(str(d) for d in bch.records[k][-1]) for k in sorted(bch.records))
            want.setdefault(kk, np.zeros((D, D), dtype=complex))
            want[kk] += bch.prob * bch.rho
        cmp(f"{name}(noise={nz['t']} model) vs independent reference of the documented insertion rule", a, want)
    return {"nontrivial": (n_ins >= 2 or nz["t"] == "thermal") and len(r["ops"]) >= 2, "model": nz["t"], "dm": r["dm"],
            "has_virtual": any(r["virtual"][: len(r["ops"])]), "prepend": bool(nz.get("prepend"))}


# ------------------------------------------------------------------------------------------- (e) device-derived noise


@st.composite
def _device_noise_case(draw):
    n = draw(st.integers(2, 3))
    ops = []
    for _ in range(draw(st.integers(1, 6))):
        k = draw(st.sampled_from(["z", "phxz", "cz", "sqrt_iswap", "syc", "fsim", "wait"]))
        i = draw(st.integers(0, n - 2))
        if k == "z":
            ops.append(["z", draw(st.integers(0, n - 1)), draw(G.exponents())])
        elif k == "phxz":
            ops.append(["phxz", draw(st.integers(0, n - 1)), draw(G.exponents()), draw(G.exponents()), draw(G.exponents())])
        elif k == "fsim":
            ops.append(["fsim", i, draw(G.rads()), draw(G.rads())])
        elif k == "wait":
            ops.append(["wait", draw(st.integers(0, n - 1)), draw(st.sampled_from([0, 25, 100, 1000]))])
        else:
            ops.append([k, i])
    return {"n": n, "ops": ops, "measure": draw(st.booleans()), "layer_strategy": draw(st.sampled_from(["EARLIEST", "NEW"])),
            "t1": draw(st.sampled_from([1e4, 1e5, 3e3])), "tphi": draw(st.sampled_from([2e5, 1e4, 5e3])),
            "e1": draw(st.sampled_from([0.0, 0.001, 0.02])), "e2": draw(st.sampled_from([0.0, 0.01, 0.05])),
            "ro": [draw(st.sampled_from([0.0005, 0.001, 0.03])), draw(st.sampled_from([0.002, 0.01, 0.05]))],  # strictly positive: exact zeros divide by zero in build_noise_models
            "fsim_err": draw(st.lists(st.sampled_from([0.0, 0.01, 0.03, -0.02]), min_size=5, max_size=5)),
            "split": draw(st.booleans()), "order": list(draw(st.permutations(list(range(n)))))}


def oracle_device_noise(r):
    """Device-derived noise (GoogleNoiseProperties -> NoiseModelFromGoogleNoiseProperties): simulating with the model equals
    simulating the circuit the model produces, and the result is a valid density matrix."""
    import cirq_google
    from cirq.devices.noise_utils import OpIdentifier
    from cirq_google.devices.google_noise_properties import GoogleNoiseProperties, NoiseModelFromGoogleNoiseProperties

    n = r["n"]
    qs = [cirq.GridQubit(0, i) for i in range(n)]
    pairs = [(qs[i], qs[i + 1]) for i in range(n - 1)] + [(qs[i + 1], qs[i]) for i in range(n - 1)]
    gate_ns = {cirq.ZPowGate: 25.0, cirq.MeasurementGate: 4000.0, cirq.ResetChannel: 250.0, cirq.PhasedXZGate: 25.0, cirq.FSimGate: 32.0,
               cirq_google.SycamoreGate: 32.0, cirq.PhasedFSimGate: 32.0, cirq.ISwapPowGate: 32.0, cirq.CZPowGate: 32.0}
    props = GoogleNoiseProperties(
        gate_times_ns=gate_ns, t1_ns=dict.fromkeys(qs, r["t1"]), tphi_ns=dict.fromkeys(qs, r["tphi"]),
        readout_errors={q: list(r["ro"]) for q in qs},
        gate_pauli_errors={**{OpIdentifier(g, q): r["e1"] for g in GoogleNoiseProperties.single_qubit_gates() for q in qs},
                           **{OpIdentifier(g, a, b): r["e2"] for g in GoogleNoiseProperties.symmetric_two_qubit_gates() for a, b in pairs}},
        fsim_errors={OpIdentifier(g, a, b): cirq.PhasedFSimGate(*r["fsim_err"]) for g in GoogleNoiseProperties.symmetric_two_qubit_gates()
                     for a, b in pairs},
    )
    model = NoiseModelFromGoogleNoiseProperties(props)
    c = cirq.Circuit(cirq.Moment(cirq.PhasedXZGate(x_exponent=0.5, z_exponent=0.25 * (i + 1), axis_phase_exponent=0.1).on(q) for i, q in enumerate(qs)))
    strat = getattr(cirq.InsertStrategy, r["layer_strategy"])
    for o in r["ops"]:
        k = o[0]
        if k == "z":
            op = cirq.ZPowGate(exponent=o[2]).on(qs[o[1]])
        elif k == "phxz":
            op = cirq.PhasedXZGate(x_exponent=o[2], z_exponent=o[3], axis_phase_exponent=o[4]).on(qs[o[1]])
        elif k == "cz":
            op = cirq.CZ(qs[o[1]], qs[o[1] + 1])
        elif k == "sqrt_iswap":
            op = cirq.SQRT_ISWAP(qs[o[1]], qs[o[1] + 1])
        elif k == "syc":
            op = cirq_google.SYC(qs[o[1]], qs[o[1] + 1])
        elif k == "fsim":
            op = cirq.FSimGate(theta=o[2], phi=o[3]).on(qs[o[1]], qs[o[1] + 1])
        else:
            op = cirq.wait(qs[o[1]], nanos=o[2])
        c.append(op, strategy=strat)
    if r["measure"]:
        c.append(cirq.Moment(cirq.measure(*qs, key="m")))
    order = [qs[i] for i in r["order"]]
    sysq = sorted(c.all_qubits())
    try:
        produced = cirq.Circuit(model.noisy_moments(c, sysq))
    except ValueError as e:
        raise Reject(f"noise model: {str(e)[:60]}")
    D = 2 ** n

    def totals(circ, noise_arg):
        def run(prng):
            sim = cirq.DensityMatrixSimulator(seed=prng, dtype=np.complex128, split_untangled_states=r["split"], noise=noise_arg)
            return sim.simulate(circ, qubit_order=order)

        out = {}
        for p, script, res, prng in enumerate_branches(run, max_branches=64):
            _psd_valid("DensityMatrixSimulator(device noise)", res.final_density_matrix)
            kk = ";".join(f"{k}=" + "".join(str(int(d)) for d in res.measurements[k]) for k in sorted(res.measurements))
            out.setdefault(kk, np.zeros((D, D), dtype=complex))
            out[kk] += p * np.asarray(res.final_density_matrix)
        return out

    try:
        a = totals(c, model)
        b = totals(produced, None)
        w = totals(c.with_noise(model), None)
    except OverflowError:
        raise Reject("too many branches")
    for what, x, y in (("simulating m.noisy_moments(c)", a, b), ("simulating c.with_noise(m)", a, w)):
        for kk in set(x) | set(y):
            d = L.max_abs_diff(x.get(kk, np.zeros((D, D))), y.get(kk, np.zeros((D, D))))
            if d > 1e-6:
                raise Violation(f"DensityMatrixSimulator(noise=device model).simulate(c) vs {what}: outcome [{kk}] differs by {d:.3g}")
    n_noise = sum(1 for op in produced.all_operations() if cirq.VirtualTag() in op.tags or not cirq.has_unitary(op)) 
    return {"nontrivial": len(r["ops"]) >= 2 and (r["e1"] > 0 or r["e2"] > 0), "measure": r["measure"], "inserted": min(n_noise // 4, 5)}


SUBCHECKS = [
    SubCheck("dm", _dm_case(), oracle_dm, valid=MC.valid_recipe, quick=3000, thorough=15000, shards_quick=6, essential={"nonunital": 0.04}),
    SubCheck("dm_qudit", _dm_case(qudits=True), oracle_dm, valid=MC.valid_recipe, quick=300, thorough=4000, shards_quick=2),
    SubCheck("dephased", _dephased_case(), oracle_dephased, valid=MC.valid_recipe, quick=1000, thorough=6000, shards_quick=2),
    SubCheck("dephased_general", _dephased_general_case(), oracle_dephased_general, valid=MC.valid_recipe, quick=800, thorough=8000, shards_quick=2),
    SubCheck("trajectories", _traj_case(), oracle_traj, valid=MC.valid_recipe, quick=1500, thorough=8000, shards_quick=8),
    SubCheck("representations", _reps_strategy(), oracle_reps, quick=3000, thorough=30000, shards_quick=3),
    SubCheck("noise_device", _device_noise_case(), oracle_device_noise, quick=400, thorough=4000, shards_quick=2),
    SubCheck("noise_models", _noise_case(), oracle_noise, valid=MC.valid_recipe, quick=1200, thorough=5000, shards_quick=4),
]
