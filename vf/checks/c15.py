"""C15 -- analytical decompositions rebuild their input within documented bounds."""
from __future__ import annotations

import math

import numpy as np
from hypothesis import strategies as st

import cirq
import cirq_google
from vf.core import Reject, SubCheck, Violation
from vf.gen import c15gen as G
from vf.ref import c15ref as R
from vf.ref import linalg as L

PI = math.pi
Q = PI / 4

RULE = (
    "Hypothesis draws STRUCTURED inputs: two-qubit unitaries U = e^{i phi}(A1(x)A0) exp(i(xXX+yYY+zZZ)) (B1(x)B0) with (x,y,z) "
    "at named Weyl-chamber vertices/edges/faces/walls (I, CNOT, iSWAP, SWAP, sqrt-iSWAP, B, x=y, y=|z|, z=0, x=pi/4, "
    "x=y+|z| ...) +- eps in {0,1e-12,1e-9,1e-7,1e-5} along a drawn direction, presented through random lattice shifts / "
    "permutations / sign flips of the coordinates, locals from exact named gates, near-special axis rotations or QR; "
    "plus QR-generic, literal named matrices, permutation, diagonal, block-diagonal (multiplexed), real orthogonal, "
    "SO(4), kron matrices; 1-qubit rotations (exact Paulis, identity, near-pi, tilted axes); 3/4-qubit tensor products, "
    "controlled forms, diagonals, permutations; two-qubit states (product, Bell, near-product); every option flag. All "
    "inputs are polar-projected (unitary to 1e-14). Oracle: independent numpy product of cirq.unitary(op) of the returned "
    "factors vs the input at 10*atol (exact or up to phase as documented), promised form of the factors, gate counts "
    "against the class computed by an independent canonicaliser (only asserted outside the near-tolerance band). "
    "Non-trivial: input on / within 1e-5 of a special class or in a special matrix family, or non-default options."
)
ASSUMPTIONS = [
    "cirq.unitary(op) of each returned operation is trusted (C03/C04); composition is done by vf.ref.linalg",
    "reconstruction tolerance 10*atol (floor 1e-7) where the routine has an atol; 1e-7 for routines without one "
    "(4-FSim, cphase->2 FSim, three-qubit, multi-controlled, Clifford 1e-8), 1e-6 for quantum_shannon_decomposition (its "
    "docstring disclaims eig accuracy; upstream tests use 1e-6), two-qubit state preparation (complex64 internally) and "
    "Sycamore synthesis (16-digit precomputed constants)",
    "gate counts: every individual tolerance test of the classification may read the tolerance anywhere in "
    "[atol/100, 100*atol]; a count is asserted only when all readings agree, otherwise any of them is accepted",
    "num_cnots_required / extract_right_diag are judged by the trace invariants of Shende et al. that their docstrings cite "
    "(re-implemented on the class vector), not by the linear class of the coordinates",
    "two-qubit gate bounds for three_qubit_matrix_to_operations (23) and quantum_shannon_decomposition (3/23/115 for "
    "n=2/3/4) are the paper's counts (20; 3/20/100) plus one CZ per later block when diagonal extraction (A.2) finds "
    "nothing to extract; the docstrings state no number, the tighter paper bound is only recorded as a label",
    "the Weyl-chamber class of non-constructed matrices comes from vf.ref.c15ref.weyl_from_matrix (numpy eigvals), "
    "cross-checked against the constructed class on every constructed input (harness error if they disagree)",
    "two_qubit_gate_product_tabulation gets a drawn integer seed as random_state (its only source of randomness)",
]
SENSITIVITY = [
    "kak_canonicalize_vector skips x<0 negate",
    "kak_vector drops pi/4-face z flip",
    "num_cnots_required CNOT-class test wrong constant",
    "extract_right_diag angle sign",
    "so4_to_magic_su2s conjugates with the wrong side",
    "axis_angle canonicalize prefers negative axes",
    "bidiagonalize det fix flips a column instead of a row",
    "pauli rotations half-turn absorbs Z with wrong sign",
    "cz cleanup merges single-qubit gates in reversed order",
    "cz synthesis treats y as negligible below 1e-3",
    "MS synthesis interaction sign",
    "sqrt-iSWAP 2-gate region ignores sign of z",
    "sqrt-iSWAP inv variant drops trailing Z",
    "4-fsim B-gate construction z sign",
    "cphase->2 fsim drops eta shift for negative delta",
    "three-qubit A.1 CZ merge phases wrong wire",
    "QSD multiplexor angle not halved per select qubit",
    "QSD global phase fix sign",
    "multi-controlled rotation inverse half power sign",
    "multi-controlled X Lemma 7.2 uses wrong borrowed qubit",
    "sqrt-iSWAP state preparation angle",
    "Clifford synthesis records S for S^-1 inverted",
    "sycamore: ISWAP**t accepted as ISWAP",
    "sycamore: rzz picks wrong branch near theta=0",
    "sycamore: swap+zz inner rzz angle sign",
    "three-qubit identity shortcut with default rtol (reverts f29c081)",
    "kak_vector face window with default rtol (reverts 632d107)",
    "cleanup pass ignores the caller's atol (reverts f3190e3)",
]


# ----------------------------------------------------------------------------- helpers


def _tol(atol):
    return max(10 * atol, 1e-7)


def _tol_clean(atol, clean=True):
    """clean_operations runs eject_phased_paulis / eject_z whose atol is documented in *turns*: a PhasedX half turn
    whose axis is within atol turns of X or Y is replaced by the Pauli, a matrix error of up to 4*pi*atol = 12.6*atol
    per replaced gate (two such gates allowed on top of the 10*atol of the synthesis itself)."""
    return _tol(atol) if not clean else max(35 * atol, 1e-7)


def _atol(r, allowed=None):
    """Option value from the recipe; values outside the generated domain (minimiser zeroing a number) are rejected."""
    a = r.get("atol", 1e-8)
    if a not in (allowed or G.ATOLS):
        raise Reject("atol outside the generated domain")
    return float(a)


def _qs(n):
    return cirq.LineQubit.range(n)


def _ops_list(tree):
    return list(cirq.flatten_to_ops(tree))


def _apply_ops(ops, qubits, cols):
    """Independent application of the op matrices (time order) to the columns of ``cols`` (D x k), big-endian."""
    n = len(qubits)
    D = 2 ** n
    cols = np.asarray(cols, dtype=complex)
    k = cols.shape[1]
    idx = {q: i for i, q in enumerate(qubits)}
    shape = [2] * n + [k]
    t = cols.reshape(-1)
    for op in ops:
        for q in op.qubits:
            if q not in idx:
                raise Violation(f"returned operation {op!r} acts on a qubit that was not given")
        u = cirq.unitary(op, None)
        if u is None:
            raise Violation(f"returned operation without unitary: {op!r}")
        t = L.apply_matrix(u, [idx[q] for q in op.qubits], shape, t)
    return t.reshape(D, k)


def _product(ops, qubits):
    """Independent product of the op matrices (time order), big-endian over ``qubits``."""
    return _apply_ops(ops, qubits, np.eye(2 ** len(qubits), dtype=complex))


def _cmp(what, got, want, tol, phase):
    got = np.asarray(got)
    want = np.asarray(want)
    if got.shape != want.shape:
        raise Violation(f"{what}: shape {got.shape} != expected {want.shape}")
    if not np.all(np.isfinite(got)):
        raise Violation(f"{what}: result contains nan/inf")
    d = L.diff_up_to_phase(got, want) if phase else L.max_abs_diff(got, want)
    if not d <= tol:
        raise Violation(f"{what}: rebuilt matrix differs from input by {d:.3g} (tol {tol:.1g}, {'up to phase' if phase else 'exact'})")
    return d


def _check_unitary(what, m, d, tol=1e-7):
    m = np.asarray(m)
    if m.shape != (d, d):
        raise Violation(f"{what}: shape {m.shape}, expected {(d, d)}")
    if not R.unitarity_defect(m) <= tol:
        raise Violation(f"{what}: factor is not unitary (defect {R.unitarity_defect(m):.3g})")


def _input_2q(r):
    try:
        u, info = G.build_2q(r)
    except R.ReferenceUnavailable as e:
        raise Reject(f"reference unavailable: {e}")
    assert R.unitarity_defect(u) < 1e-13, "generator produced a non-unitary input"
    if info["constructed"]:
        try:
            w = R.weyl_from_matrix(u)
        except R.ReferenceUnavailable:
            return u, info  # the class is known by construction; only the cross-check of the two references is skipped
        assert R.weyl_distance(w, info["v"]) < 1e-7, ("reference canonicaliser and reference spectrum disagree", w, info["v"])
    return u, info


SWEEP = (0.01, 0.1, 1.0, 10.0, 100.0)


def _admissible(fn, v, tol):
    """Counts under every reading of the tolerance between tol/100 and 100*tol (independently per test)."""
    return R.admissible(fn, v, tol)


def _labels2q(info, **kw):
    v = info["v"]
    lab = {"kind": info["kind"].split(":")[0], "special": bool(info["special"]), "cz_class": R.cz_class(v, 1e-9),
           "sqisw_class": R.sqrt_iswap_class(v, 1e-9), "nontrivial": bool(info["special"])}
    if info["kind"].startswith("kak:"):
        lab["base"] = info["kind"][4:]
        lab["eps"] = str(info["eps"])
    lab.update(kw)
    return lab


def _in_region(what, v, slack=1e-9, face=1e-9):
    x, y, z = (float(c) for c in v)
    if not (abs(z) <= y + slack and y <= x + slack and x <= Q + slack and x >= -slack):
        raise Violation(f"{what}: coefficients ({x!r}, {y!r}, {z!r}) outside the documented region 0<=|z|<=y<=x<=pi/4")
    if x >= Q - face + 1e-12 and z < -slack:
        raise Violation(f"{what}: coefficients ({x!r}, {y!r}, {z!r}) have x=pi/4 but z<0")


# ----------------------------------------------------------------------------- kak family


KAK_ATOLS = [1e-8, 1e-9, 1e-7]


def oracle_kak(r):
    u, info = _input_2q(r["u"])
    v = info["v"]
    atol = _atol(r, KAK_ATOLS)
    tol = _tol(atol)
    kd = cirq.kak_decomposition(u) if atol == 1e-8 and not r.get("explicit") else cirq.kak_decomposition(u, atol=atol)
    b0, b1 = kd.single_qubit_operations_before
    a0, a1 = kd.single_qubit_operations_after
    for nm, m in (("b0", b0), ("b1", b1), ("a0", a0), ("a1", a1)):
        _check_unitary(f"kak_decomposition {nm}", m, 2)
    g = complex(kd.global_phase)
    if abs(abs(g) - 1) > 1e-7:
        raise Violation(f"kak_decomposition: |global_phase| = {abs(g)!r}")
    k = tuple(float(c) for c in kd.interaction_coefficients)
    _in_region("kak_decomposition", k)
    rebuilt = g * np.kron(a0, a1) @ R.interaction(*k) @ np.kron(b0, b1)
    _cmp("kak_decomposition documented formula g(a0(x)a1)exp(i(xXX+yYY+zZZ))(b0(x)b1)", rebuilt, u, tol, False)
    _cmp("cirq.unitary(KakDecomposition)", cirq.unitary(kd), u, tol, False)
    d = R.weyl_distance(k, v)
    if d > tol:
        raise Violation(f"kak_decomposition: interaction coefficients {k} differ from the class of the input {v} by {d:.3g}")
    # canonicalisation of the presented (non-canonical) vector
    if r["u"].get("k") == "kak":
        pv, _, _ = G.kak_coords(r["u"])
        kc = cirq.kak_canonicalize_vector(*pv)
        kk = tuple(float(c) for c in kc.interaction_coefficients)
        _in_region("kak_canonicalize_vector", kk)
        cb0, cb1 = kc.single_qubit_operations_before
        ca0, ca1 = kc.single_qubit_operations_after
        for nm, m in (("b0", cb0), ("b1", cb1), ("a0", ca0), ("a1", ca1)):
            _check_unitary(f"kak_canonicalize_vector {nm}", m, 2, 1e-9)
        reb = complex(kc.global_phase) * np.kron(ca0, ca1) @ R.interaction(*kk) @ np.kron(cb0, cb1)
        _cmp("kak_canonicalize_vector implied matrix vs exp(i(xXX+yYY+zZZ))", reb, R.interaction(*pv), 1e-9, False)
        d = R.weyl_distance(kk, R.canonicalize(*pv, face_tol=1e-9))
        if d > 1e-9:
            raise Violation(f"kak_canonicalize_vector{pv}: {kk} differs from reference canonical vector by {d:.3g}")
    # CNOT count
    n = cirq.num_cnots_required(u)
    # documented as the trace-invariant test of Shende et al. (Prop. III.1-3) at tolerance atol
    adm = _admissible(R.shende_count, v, 1e-8)
    if n not in adm:
        raise Violation(f"num_cnots_required = {n}, Shende invariants of the input class {v} give {sorted(adm)}")
    # diagonal extraction for 3-CNOT unitaries
    if abs(v[2]) > 1e-6:
        dg = cirq.linalg.extract_right_diag(u)
        _check_unitary("extract_right_diag", dg, 4, 1e-9)
        if np.max(np.abs(dg - np.diag(np.diag(dg)))) > 0:
            raise Violation("extract_right_diag: result is not diagonal")
        try:
            w = R.weyl_from_matrix(u @ dg)
        except R.ReferenceUnavailable as e:
            raise Reject(f"reference unavailable: {e}")
        if min(_admissible(R.shende_count, w, 1e-8)) > 2:
            raise Violation(f"extract_right_diag: U @ D has class {w}, whose Shende invariants still need three CNOTs")
    lab = _labels2q(info, count_decided=len(adm) == 1, atol=str(atol))
    lab["nontrivial"] = bool(info["special"] or atol != 1e-8)
    return lab


def oracle_kak_vector(r):
    u, info = _input_2q(r["u"])
    v = info["v"]
    tol = 1e-7
    # kak_vector (single and broadcast)
    kv = cirq.kak_vector(u)
    if kv.shape != (3,):
        raise Violation(f"kak_vector: shape {kv.shape}")
    _in_region("kak_vector", kv, face=1e-8)
    d = R.weyl_distance(kv, v)
    if d > tol:
        raise Violation(f"kak_vector: {tuple(kv)} differs from the class of the input {v} by {d:.3g}")
    stack = np.stack([u, u.conj().T, 1j * u])
    kvs = cirq.kak_vector(stack)
    if kvs.shape != (3, 3):
        raise Violation(f"kak_vector broadcast: shape {kvs.shape}")
    vdag = R.canonicalize(v[0], v[1], -v[2], face_tol=1e-9)
    for i, want in enumerate((v, vdag, v)):
        _in_region(f"kak_vector broadcast[{i}]", kvs[i], face=1e-8)
        d = R.weyl_distance(kvs[i], want)
        if d > tol:
            raise Violation(f"kak_vector broadcast[{i}]: {tuple(kvs[i])} differs from expected class {want} by {d:.3g}")
    return _labels2q(info, near_face=bool(abs(v[0] - Q) < 1e-4))


# ----------------------------------------------------------------------------- one-qubit family


def _pauli_pow(p, t):
    m = {cirq.X: L.PX, cirq.Y: L.PY, cirq.Z: L.PZ}[p]
    return np.exp(1j * PI * t / 2) * (math.cos(PI * t / 2) * np.eye(2) - 1j * math.sin(PI * t / 2) * m)


ONEQ_ATOLS = [0.0, 1e-8, 1e-6, 1e-4]


def oracle_oneq(r):
    u = G.build_1q(r["u"])
    assert R.unitarity_defect(u) < 1e-13
    atol = _atol(r, ONEQ_ATOLS)
    tol = max(10 * atol, 1e-8)
    eye = np.eye(2)
    # ZYZ angles
    p0, p1, p2 = cirq.deconstruct_single_qubit_matrix_into_angles(u)
    zyz = np.diag([1, np.exp(1j * p2)]) @ np.array([[math.cos(p1 / 2), -math.sin(p1 / 2)], [math.sin(p1 / 2), math.cos(p1 / 2)]]) @ np.diag([1, np.exp(1j * p0)])
    _cmp("deconstruct_single_qubit_matrix_into_angles Z^p2 Y^p1 Z^p0", zyz, u, 1e-8, True)
    # pauli rotations / gates
    rots = cirq.single_qubit_matrix_to_pauli_rotations(u, atol)
    if len(rots) > 3:
        raise Violation(f"single_qubit_matrix_to_pauli_rotations: {len(rots)} rotations")
    m = eye
    for p, t in rots:
        m = _pauli_pow(p, float(t)) @ m
    _cmp(f"single_qubit_matrix_to_pauli_rotations(atol={atol})", m, u, tol, True)
    gates = cirq.single_qubit_matrix_to_gates(u, atol)
    if len(gates) > 3:
        raise Violation(f"single_qubit_matrix_to_gates: {len(gates)} gates")
    m = eye
    for g in gates:
        m = cirq.unitary(g) @ m
    _cmp(f"single_qubit_matrix_to_gates(tolerance={atol})", m, u, tol, True)
    # phased x + z
    pxz = cirq.single_qubit_matrix_to_phased_x_z(u, atol)
    if len(pxz) > 2:
        raise Violation(f"single_qubit_matrix_to_phased_x_z: {len(pxz)} gates")
    kinds = [type(g).__name__ for g in pxz]
    if len(pxz) == 2 and not (isinstance(pxz[0], cirq.PhasedXPowGate) and isinstance(pxz[1], cirq.ZPowGate)):
        raise Violation(f"single_qubit_matrix_to_phased_x_z: gates {kinds}, documented PhasedX then Z")
    m = eye
    for g in pxz:
        m = cirq.unitary(g) @ m
    # gates are dropped by trace_distance_bound(g) <= atol, a cosine-based bound that cannot resolve rotations below
    # sqrt(2*eps) ~ 3e-8 rad from the identity (matrix error 1.5e-8) even at atol = 0
    tol_td = max(tol, 3e-8)
    _cmp(f"single_qubit_matrix_to_phased_x_z(atol={atol})", m, u, tol_td, True)
    # phxz
    g = cirq.single_qubit_matrix_to_phxz(u, atol)
    if g is None:
        _cmp(f"single_qubit_matrix_to_phxz(atol={atol}) returned None for a non-identity", eye, u, tol_td, True)
    else:
        if not isinstance(g, cirq.PhasedXZGate):
            raise Violation(f"single_qubit_matrix_to_phxz returned {type(g).__name__}")
        _cmp(f"single_qubit_matrix_to_phxz(atol={atol})", cirq.unitary(g), u, tol_td, True)
    g = cirq.PhasedXZGate.from_matrix(u)
    _cmp("PhasedXZGate.from_matrix", cirq.unitary(g), u, 1e-8, True)
    # axis-angle
    aa = cirq.axis_angle(u)
    ax = np.array(aa.axis, dtype=float)
    if abs(np.linalg.norm(ax) - 1) > 1e-8:
        raise Violation(f"axis_angle: axis norm {np.linalg.norm(ax)!r}")
    if abs(abs(aa.global_phase) - 1) > 1e-8:
        raise Violation(f"axis_angle: |global_phase| {abs(aa.global_phase)!r}")
    if float(np.sum(ax)) < -1e-9:
        raise Violation(f"axis_angle: axis {tuple(ax)} has negative coordinate sum (documented canonical form x+y+z>=0)")
    if not (-PI + 1e-8 - 1e-10 < aa.angle <= PI + 1e-8 + 1e-10):
        raise Violation(f"axis_angle: angle {aa.angle!r} outside (-pi, pi]")
    _cmp("axis_angle: g*exp(-i angle/2 (n.sigma))", aa.global_phase * R.rot(ax, aa.angle), u, 2e-7, False)
    _cmp("cirq.unitary(AxisAngleDecomposition)", cirq.unitary(aa), u, 2e-7, False)
    # framed phase form  M = U^-1 diag(1, r) U diag(g, g)
    fu, fr, fg = cirq.transformers.analytical_decompositions.single_qubit_decompositions.single_qubit_op_to_framed_phase_form(u)
    _check_unitary("single_qubit_op_to_framed_phase_form U", fu, 2, 1e-8)
    _cmp("single_qubit_op_to_framed_phase_form U^-1 diag(1,r) U g", fu.conj().T @ np.diag([1, fr]) @ fu * fg, u, 1e-8, False)
    sp = G.oneq_is_special(r["u"])
    return {"nontrivial": bool(sp or atol > 0), "special": bool(sp), "kind": r["u"]["k"], "n_rot": len(rots), "phxz_none": g is None,
            "atol": str(atol)}


# ----------------------------------------------------------------------------- linalg helpers


@st.composite
def _linalg_case(draw):
    fn = draw(st.sampled_from(["so4", "kron", "bidiag_u", "bidiag_pair", "diag_sym", "diag_pair", "eig", "eig"]))
    r = {"fn": fn}
    if fn == "so4":
        r["a"], r["b"] = draw(G.oneq()), draw(G.oneq())
        r["bad"] = draw(st.integers(0, 5)) == 0
    elif fn == "kron":
        r["a"], r["b"] = draw(G.oneq()), draw(G.oneq())
        r["ph"] = draw(G.phases())
        r["bad"] = draw(st.integers(0, 5)) == 0
        r["u"] = draw(G.twoq())
    elif fn == "bidiag_u":
        r["d"] = draw(st.sampled_from([4, 4, 4, 2, 3, 5, 8]))
        if r["d"] == 4 and draw(st.booleans()):
            r["u"] = draw(G.twoq())
            r["magic"] = draw(st.booleans())
        else:
            r["m"] = draw(_mat(r["d"]))
    elif fn in ("bidiag_pair", "diag_sym", "diag_pair"):
        d = draw(st.integers(1, 5))
        r["d"] = d
        r["l"] = draw(st.lists(G.unit_floats(), min_size=d * d, max_size=d * d))
        r["r"] = draw(st.lists(G.unit_floats(), min_size=d * d, max_size=d * d))
        vals = st.sampled_from([0.0, 0.0, 1.0, 1.0, 0.5, 2.0, -1.0, 1.0 + 1e-12, 1e-12, 0.3])
        r["d1"] = draw(st.lists(vals, min_size=d, max_size=d))
        r["d2"] = draw(st.lists(st.one_of(vals, G.unit_floats()), min_size=d, max_size=d))
        r["bad"] = draw(st.integers(0, 7)) == 0
    else:
        r["d"] = draw(st.sampled_from([2, 2, 4, 4, 3, 8]))
        r["m"] = draw(_mat(r["d"]))
        n = r["d"]
        # eigenvalue classes with forced degeneracy and near-degeneracy
        r["ev"] = [draw(st.integers(0, 3)) for _ in range(n)]
        r["eveps"] = [draw(st.sampled_from([0.0, 0.0, 1e-12, 1e-9])) for _ in range(n)]
        r["herm"] = draw(st.booleans())
        r["p"] = draw(st.sampled_from([2.0, -1.0, 0.5, 0.0, 3.0, 0.25]))
    return r


@st.composite
def _mat(draw, d):
    k = draw(st.sampled_from(["qr", "qr", "ident", "perm", "diag", "orth", "kron" if d in (4, 8) else "qr"]))
    if k == "qr":
        return {"k": "qr", "v": draw(st.lists(G.unit_floats(), min_size=2 * d * d, max_size=2 * d * d))}
    if k == "perm":
        return {"k": "perm", "p": list(draw(st.permutations(list(range(d)))))}
    if k == "diag":
        return {"k": "diag", "phs": [draw(G.phases()) for _ in range(d)]}
    if k == "orth":
        return {"k": "orth", "v": draw(st.lists(G.unit_floats(), min_size=d * d, max_size=d * d)), "flip": draw(st.booleans())}
    if k == "kron":
        return {"k": "kron", "f": [draw(G.oneq()) for _ in range(int(math.log2(d)))]}
    return {"k": "ident"}


def _build_mat(r, d):
    k = r.get("k")
    if k == "qr":
        m = L.random_unitary_from_floats(G._pad(r.get("v"), 2 * d * d), d)
    elif k == "perm":
        p = list(r.get("p") or [])
        if sorted(p) != list(range(d)):
            p = list(range(d))
        m = np.zeros((d, d), dtype=complex)
        for i in range(d):
            m[p[i], i] = 1
    elif k == "diag":
        m = np.diag(np.exp(1j * np.array(G._pad(r.get("phs"), d)))).astype(complex)
    elif k == "orth":
        m = G.real_orthogonal_from_floats(r.get("v"), d, bool(r.get("flip"))).astype(complex)
    elif k == "kron":
        f = [G.build_1q(x) for x in (r.get("f") or [])]
        m = L.kron_all(f)
        if m.shape != (d, d):
            m = np.eye(d, dtype=complex)
    else:
        m = np.eye(d, dtype=complex)
    return R.polar_unitary(m)


EVS = [0.0, PI / 2, PI, 0.7]
HEVS = [1.0, -1.0, 0.0, 0.5]


def _is_orth(what, m, d, special):
    m = np.asarray(m)
    if m.shape != (d, d):
        raise Violation(f"{what}: shape {m.shape}")
    if np.max(np.abs(np.imag(m))) > 0:
        raise Violation(f"{what}: not real")
    if np.max(np.abs(m.T @ m - np.eye(d))) > 1e-7:
        raise Violation(f"{what}: not orthogonal (defect {np.max(np.abs(m.T @ m - np.eye(d))):.3g})")
    if special and d > 0 and abs(np.linalg.det(m) - 1) > 1e-7:
        raise Violation(f"{what}: determinant {np.linalg.det(m):.6g}, documented +1")


def _offdiag(m):
    m = np.asarray(m)
    return float(np.max(np.abs(m - np.diag(np.diag(m))))) if m.size else 0.0


def oracle_linalg(r):
    fn = r["fn"]
    lab = {"fn": fn, "nontrivial": True}
    mg = G.NAMED_2Q["MAGIC"]
    if fn == "so4":
        a, b = G.su2(G.build_1q(r["a"])), G.su2(G.build_1q(r["b"]))
        m = np.real(mg.conj().T @ np.kron(a, b) @ mg)
        if r.get("bad"):
            m = m.copy()
            m[:, 0] *= -1  # orthogonal with det -1: documented ValueError
            try:
                cirq.so4_to_magic_su2s(m)
            except ValueError:
                return dict(lab, negative=True)
            raise Violation("so4_to_magic_su2s accepted an orthogonal matrix with determinant -1")
        ra, rb = cirq.so4_to_magic_su2s(m)
        for nm, x in (("A", ra), ("B", rb)):
            _check_unitary(f"so4_to_magic_su2s {nm}", x, 2)
            if abs(np.linalg.det(x) - 1) > 1e-7:
                raise Violation(f"so4_to_magic_su2s {nm}: det {np.linalg.det(x):.6g}, documented special unitary")
        _cmp("so4_to_magic_su2s Mag.H kron(A,B) Mag", mg.conj().T @ np.kron(ra, rb) @ mg, m, 1e-7, False)
        return lab
    if fn == "kron":
        if r.get("bad"):
            u, info = _input_2q(r["u"])
            try:
                g, f1, f2 = cirq.kron_factor_4x4_to_2x2s(u)
            except ValueError:
                return dict(lab, negative=True, nontrivial=R.cz_class(info["v"], 1e-6) != 0)
            if R.cz_class(info["v"], 1e-4) != 0:
                raise Violation(f"kron_factor_4x4_to_2x2s factored a non-local matrix of class {info['v']}")
            m = u
        else:
            m = np.exp(1j * float(r.get("ph", 0.0))) * np.kron(G.build_1q(r["a"]), G.build_1q(r["b"]))
            g, f1, f2 = cirq.kron_factor_4x4_to_2x2s(m)
        for nm, x in (("f1", f1), ("f2", f2)):
            if np.asarray(x).shape != (2, 2) or abs(np.linalg.det(x) - 1) > 1e-7:
                raise Violation(f"kron_factor_4x4_to_2x2s {nm}: not a unit-determinant 2x2 matrix")
        _cmp("kron_factor_4x4_to_2x2s g*kron(f1,f2)", g * np.kron(f1, f2), m, 1e-7, False)
        return lab
    if fn == "bidiag_u":
        d = int(r["d"])
        if "u" in r:
            m, _ = _input_2q(r["u"])
            if r.get("magic"):
                m = mg.conj().T @ m @ mg
        else:
            m = _build_mat(r["m"], d)
        lft, dg, rgt = cirq.bidiagonalize_unitary_with_special_orthogonals(m)
        _is_orth("bidiagonalize_unitary_with_special_orthogonals L", lft, d, True)
        _is_orth("bidiagonalize_unitary_with_special_orthogonals R", rgt, d, True)
        prod = lft @ m @ rgt
        if _offdiag(prod) > 1e-7:
            raise Violation(f"bidiagonalize_unitary_with_special_orthogonals: L@mat@R has off-diagonal {_offdiag(prod):.3g}")
        if L.max_abs_diff(np.diag(prod), np.asarray(dg)) > 1e-7:
            raise Violation("bidiagonalize_unitary_with_special_orthogonals: returned d is not diag(L@mat@R)")
        return dict(lab, dim=d)
    if fn in ("bidiag_pair", "diag_sym", "diag_pair"):
        d = int(r["d"])
        lo = G.real_orthogonal_from_floats(r.get("l"), d)
        ro = G.real_orthogonal_from_floats(r.get("r"), d)
        d1 = np.array(G._pad(r.get("d1"), d))
        d2 = np.array(G._pad(r.get("d2"), d))
        if fn == "bidiag_pair":
            m1, m2 = lo @ np.diag(d1) @ ro, lo @ np.diag(d2) @ ro
            if r.get("bad"):
                try:
                    cirq.bidiagonalize_real_matrix_pair_with_symmetric_products(m1 + 1e-3j, m2)
                except ValueError:
                    return dict(lab, negative=True)
                raise Violation("bidiagonalize_real_matrix_pair_with_symmetric_products accepted a complex mat1")
            lft, rgt = cirq.bidiagonalize_real_matrix_pair_with_symmetric_products(m1, m2)
            _is_orth("bidiagonalize_real_matrix_pair L", lft, d, False)
            _is_orth("bidiagonalize_real_matrix_pair R", rgt, d, False)
            for nm, m in (("mat1", m1), ("mat2", m2)):
                if _offdiag(lft @ m @ rgt) > 1e-7:
                    raise Violation(f"bidiagonalize_real_matrix_pair_with_symmetric_products: L@{nm}@R off-diagonal {_offdiag(lft @ m @ rgt):.3g}")
            return dict(lab, dim=d, rank_deficient=bool(np.any(np.abs(d1) < 1e-9)))
        if fn == "diag_sym":
            m = lo @ np.diag(d2) @ lo.T
            m = (m + m.T) / 2
            if r.get("bad") and d >= 2:
                bad = m.copy()
                bad[0, 1] += 0.5
                try:
                    cirq.diagonalize_real_symmetric_matrix(bad)
                except ValueError:
                    return dict(lab, negative=True)
                raise Violation("diagonalize_real_symmetric_matrix accepted a non-symmetric matrix")
            p = cirq.diagonalize_real_symmetric_matrix(m)
            _is_orth("diagonalize_real_symmetric_matrix P", p, d, False)
            if _offdiag(p.T @ m @ p) > 1e-7:
                raise Violation(f"diagonalize_real_symmetric_matrix: P.T@M@P off-diagonal {_offdiag(p.T @ m @ p):.3g}")
            return dict(lab, dim=d)
        # diag_pair: sorted descending diagonal with degenerate blocks + commuting symmetric matrix
        dd = np.sort(d1)[::-1]
        sym = np.zeros((d, d))
        i = 0
        blocks = 0
        while i < d:
            j = i + 1
            while j < d and dd[j] == dd[i]:
                j += 1
            k = j - i
            o = G.real_orthogonal_from_floats(G._pad(r.get("l"), d * d)[i * k: i * k + k * k], k)
            sym[i:j, i:j] = o @ np.diag(d2[i:j]) @ o.T
            blocks += 1
            i = j
        sym = (sym + sym.T) / 2
        if r.get("bad") and d >= 2 and dd[0] != dd[-1]:
            try:
                cirq.diagonalize_real_symmetric_and_sorted_diagonal_matrices(sym, np.diag(dd[::-1]))
            except ValueError:
                return dict(lab, negative=True)
            raise Violation("diagonalize_real_symmetric_and_sorted_diagonal_matrices accepted an ascending diagonal")
        p = cirq.diagonalize_real_symmetric_and_sorted_diagonal_matrices(sym, np.diag(dd))
        _is_orth("diagonalize_real_symmetric_and_sorted_diagonal_matrices P", p, d, False)
        if _offdiag(p.T @ sym @ p) > 1e-7:
            raise Violation(f"diagonalize_real_symmetric_and_sorted_diagonal_matrices: P.T@S@P off-diagonal {_offdiag(p.T @ sym @ p):.3g}")
        if L.max_abs_diff(p.T @ np.diag(dd) @ p, np.diag(dd)) > 1e-7:
            raise Violation("diagonalize_real_symmetric_and_sorted_diagonal_matrices: P.T@D@P != D")
        return dict(lab, dim=d, blocks=min(blocks, 3))
    # eig: M = V diag(ev) V^dagger with forced (near-)degenerate eigenvalues
    d = int(r["d"])
    v0 = _build_mat(r["m"], d)
    idx = [int(x) % 4 for x in G._pad(r.get("ev"), d)]
    eps = G._pad(r.get("eveps"), d)
    if r.get("herm"):
        ev = np.array([HEVS[i] + e for i, e in zip(idx, eps)], dtype=complex)
    else:
        ev = np.exp(1j * np.array([EVS[i] + e for i, e in zip(idx, eps)]))
    m = v0 @ np.diag(ev) @ v0.conj().T
    vals, vecs = cirq.unitary_eig(m)
    _check_unitary("unitary_eig V", vecs, d, 1e-8)
    _cmp("unitary_eig V diag(vals) V^dagger", vecs @ np.diag(vals) @ vecs.conj().T, m, 1e-8, False)
    p = float(r.get("p", 2.0))
    if r.get("herm"):
        f = lambda e: (e.real + 2.0) ** p if p != 0.0 else 1.0  # noqa: E731
    else:
        f = lambda e: e ** p if abs(np.angle(e)) < PI - 1e-6 or p == int(p) else (e * np.exp(-1j * PI)) ** p * np.exp(1j * PI * p)  # noqa: E731
    want = v0 @ np.diag([f(e) for e in ev]) @ v0.conj().T
    got = cirq.map_eigenvalues(m, f)
    _cmp(f"map_eigenvalues(lambda e: e**{p})", got, want, 1e-7, False)
    return dict(lab, dim=d, degenerate=len(set(idx)) < d, herm=bool(r.get("herm")))


# ----------------------------------------------------------------------------- two-qubit synthesis: CZ / MS / isometry


def _two_qubit_ops(ops):
    return [op for op in ops if len(op.qubits) == 2]


def _check_arity(what, ops, maxq=2):
    for op in ops:
        if len(op.qubits) > maxq:
            raise Violation(f"{what}: returned an operation on {len(op.qubits)} qubits: {op!r}")


@st.composite
def _cz_case(draw):
    return {"u": draw(G.twoq()), "fn": draw(st.sampled_from(["cz", "cz", "cz", "diag", "iso", "ion"])), "partial": draw(st.booleans()),
            "clean": draw(st.booleans()), "atol": draw(G.atols()), "swapq": draw(st.booleans())}


def oracle_cz(r):
    u, info = _input_2q(r["u"])
    v = info["v"]
    atol = _atol(r, G.ATOLS + [1e-10])  # 1e-10 is not generated, only used by the regression input of f3190e3
    partial, clean, fn = bool(r.get("partial")), bool(r.get("clean", True)), r.get("fn", "cz")
    tol = _tol_clean(atol, clean)
    a, b = _qs(2)[::-1] if r.get("swapq") else _qs(2)
    lab = _labels2q(info, fn=fn, partial=partial, clean=clean, atol=str(atol))
    lab["nontrivial"] = bool(info["special"] or partial or not clean or atol != 1e-8)
    if fn == "cz":
        ops = cirq.two_qubit_matrix_to_cz_operations(a, b, u, partial, atol, clean)
        what = f"two_qubit_matrix_to_cz_operations(allow_partial_czs={partial}, atol={atol}, clean_operations={clean})"
        _cmp(what, _product(ops, [a, b]), u, tol, True)
    elif fn == "diag":
        dg, ops = cirq.two_qubit_matrix_to_diagonal_and_cz_operations(a, b, u, partial, atol, clean)
        what = f"two_qubit_matrix_to_diagonal_and_cz_operations(allow_partial_czs={partial}, atol={atol}, clean_operations={clean})"
        _check_unitary(what + " D", dg, 4)
        if _offdiag(dg) > atol:
            raise Violation(what + ": D is not diagonal")
        _cmp(what + " Circuit(ops) @ D", _product(ops, [a, b]) @ dg, u, tol, True)
    elif fn == "iso":
        ops = cirq.two_qubit_matrix_to_cz_isometry(a, b, u, partial, atol, clean)
        what = f"two_qubit_matrix_to_cz_isometry(allow_partial_czs={partial}, atol={atol}, clean_operations={clean})"
        _cmp(what + " action on |0>(x)|psi>", _product(ops, [a, b])[:, :2], u[:, :2], tol, True)
    else:
        ops = cirq.two_qubit_matrix_to_ion_operations(a, b, u, atol, clean)
        what = f"two_qubit_matrix_to_ion_operations(atol={atol}, clean_operations={clean})"
        _cmp(what, _product(ops, [a, b]), u, tol, True)
    ops = list(ops)
    _check_arity(what, ops)
    two = _two_qubit_ops(ops)
    if fn == "ion":
        if any(not isinstance(op.gate, cirq.XXPowGate) for op in two):
            raise Violation(what + f": two-qubit gates {[str(op.gate) for op in two]} are not MS/XX gates")
        if len(two) > 3:
            raise Violation(what + f": {len(two)} MS gates (> 3)")
        return dict(lab, n2q=len(two))
    if any(not isinstance(op.gate, cirq.CZPowGate) for op in two):
        raise Violation(what + f": two-qubit gates {[str(op.gate) for op in two]} are not CZ powers")
    if len(two) > 3:
        raise Violation(what + f": {len(two)} CZ gates (> 3)")
    decided = None
    if not partial:
        if any(op.gate != cirq.CZ for op in two):
            raise Violation(what + f": partial CZ {[str(op.gate) for op in two]} although allow_partial_czs=False")
        if fn == "cz":
            adm = _admissible(R.cz_class, v, atol)
            decided = len(adm) == 1
            if len(two) not in adm:
                raise Violation(what + f": {len(two)} CZ gates; class {v} needs {sorted(adm)}")
    if fn == "iso":
        # documented: at most 2 CZs.  Only undecidable when the matrix sits in the near-tolerance band of the 3-CNOT class.
        adm = _admissible(R.cz_class, v, 1e-8) | _admissible(R.cz_class, v, atol)
        decided = len(adm) == 1
        if len(two) > 2 and decided:
            raise Violation(what + f": {len(two)} CZ gates, documented at most 2 (class of the input {v})")
    return dict(lab, n2q=len(two), count_decided=bool(decided))


# ----------------------------------------------------------------------------- sqrt-iSWAP


@st.composite
def _sqisw_case(draw):
    return {"u": draw(G.twoq()), "req": draw(st.sampled_from([None, None, None, 0, 1, 2, 3, 3, -1, 4])), "inv": draw(st.booleans()),
            "clean": draw(st.booleans()), "atol": draw(G.atols())}


def oracle_sqrt_iswap(r):
    u, info = _input_2q(r["u"])
    v = info["v"]
    atol = _atol(r)
    req = r.get("req")
    inv, clean = bool(r.get("inv")), bool(r.get("clean"))
    a, b = _qs(2)
    what = f"two_qubit_matrix_to_sqrt_iswap_operations(required_sqrt_iswap_count={req}, use_sqrt_iswap_inv={inv}, atol={atol}, clean_operations={clean})"
    lab = _labels2q(info, req=str(req), inv=inv, clean=clean, atol=str(atol))
    lab["nontrivial"] = bool(info["special"] or req is not None or inv or clean)
    adm = _admissible(R.sqrt_iswap_class, v, atol / 10)
    regions = {0: lambda t: R.sqrt_iswap_class(v, t) == 0, 1: lambda t: R.sqrt_iswap_class(v, t) == 1,
               2: lambda t: v[0] + t >= v[1] + abs(v[2]), 3: lambda t: True}
    try:
        ops = cirq.two_qubit_matrix_to_sqrt_iswap_operations(a, b, u, required_sqrt_iswap_count=req, use_sqrt_iswap_inv=inv,
                                                             atol=atol, clean_operations=clean)
    except ValueError as e:
        if req is None:
            raise
        if req not in (0, 1, 2, 3):
            return dict(lab, outcome="bad_req_rejected")
        feas = {regions[req](atol / 10 * k) for k in SWEEP}
        if feas == {True}:
            raise Violation(what + f": documented-feasible request rejected for class {v}: {e}")
        return dict(lab, outcome="infeasible_rejected", count_decided=feas == {False})
    if req is not None and req not in (0, 1, 2, 3):
        raise Violation(what + ": accepted a required count outside 0..3 (documented ValueError)")
    ops = list(ops)
    _cmp(what, _product(ops, [a, b]), u, _tol(atol), True)
    _check_arity(what, ops)
    two = _two_qubit_ops(ops)
    want_gate = cirq.SQRT_ISWAP_INV if inv else cirq.SQRT_ISWAP
    if any(op.gate != want_gate for op in two):
        raise Violation(what + f": two-qubit gates {[str(op.gate) for op in two]}, expected only {want_gate}")
    n = len(two)
    if n > 3:
        raise Violation(what + f": {n} sqrt-iSWAP gates (> 3)")
    if req is not None:
        if n != req:
            raise Violation(what + f": used {n} sqrt-iSWAP gates")
        feas = {regions[req](atol / 10 * k) for k in SWEEP}
        if feas == {False}:
            raise Violation(what + f": claims to build class {v} from exactly {req} sqrt-iSWAP (documented ValueError)")
        return dict(lab, outcome="ok", n2q=n, count_decided=len(feas) == 1)
    if n not in adm:
        raise Violation(what + f": used {n} sqrt-iSWAP gates; fewest possible for class {v} is {sorted(adm)}")
    return dict(lab, outcome="ok", n2q=n, count_decided=len(adm) == 1)


# ----------------------------------------------------------------------------- FSim


THETAS = [PI / 2, 3 * PI / 8 + 1e-6, 5 * PI / 8 - 1e-6, -PI / 2, 0.45 * PI, 0.55 * PI, -0.4 * PI]
PHIS = [0.0, PI / 4 - 1e-6, -PI / 4 + 1e-6, PI / 6, -PI / 6, 0.1]


@st.composite
def _fsim_case(draw):
    if draw(st.integers(0, 3)) == 0:
        gate = {"t": "iswap", "e": draw(st.one_of(st.sampled_from([1.0, -1.0, 0.76, 1.24, -0.8]), st.floats(0.751, 1.249)))}
    else:
        gate = {"t": "fsim", "theta": draw(st.one_of(st.sampled_from(THETAS), st.floats(3 * PI / 8 + 1e-6, 5 * PI / 8 - 1e-6))),
                "phi": draw(st.one_of(st.sampled_from(PHIS), st.floats(-PI / 4 + 1e-6, PI / 4 - 1e-6)))}
    return {"u": draw(G.twoq()), "gate": gate, "how": draw(st.sampled_from(["matrix", "matrix", "gate", "op"]))}


def oracle_fsim4(r):
    u, info = _input_2q(r["u"])
    g = r["gate"]
    gate = cirq.ISwapPowGate(exponent=float(g["e"])) if g["t"] == "iswap" else cirq.FSimGate(float(g["theta"]), float(g["phi"]))
    a, b = _qs(2)
    how = r.get("how", "matrix")
    if how == "matrix":
        c = cirq.decompose_two_qubit_interaction_into_four_fsim_gates(u, fsim_gate=gate)
    elif how == "gate":
        c = cirq.decompose_two_qubit_interaction_into_four_fsim_gates(cirq.MatrixGate(u), fsim_gate=gate, qubits=[a, b])
    else:
        c = cirq.decompose_two_qubit_interaction_into_four_fsim_gates(cirq.MatrixGate(u).on(a, b), fsim_gate=gate)
    ops = list(c.all_operations())
    what = f"decompose_two_qubit_interaction_into_four_fsim_gates(fsim_gate={gate!r})"
    _cmp(what, _product(ops, [a, b]), u, 1e-7, False)
    _check_arity(what, ops)
    two = _two_qubit_ops(ops)
    if len(two) != 4 or any(op.gate != gate for op in two):
        raise Violation(what + f": two-qubit gates {[str(op.gate) for op in two]}, documented exactly four of the given gate")
    return _labels2q(info, gate=g["t"], how=how)


CZ_EXPS = [0.0, 1.0, 0.5, -0.5, 2.0, 1.5, 0.25, -1.0, 0.1, 1.9, 1e-7, 1.0 + 1e-7, -1.5, 3.0, -2.0, -3.0, 1.0 - 1e-9, -1.0 + 1e-9, 2.0 - 1e-9]
FS_THETAS = [PI / 2, 0.0, PI / 4, PI / 3, -PI / 2, PI / 8, 3 * PI / 4, 1.0]
FS_PHIS = [0.0, PI, PI / 6, -PI / 6, PI / 2, PI / 3, -PI, 2.0]


@st.composite
def _cphase_case(draw):
    return {"e": draw(st.one_of(st.sampled_from(CZ_EXPS), st.floats(-2, 4, allow_nan=False))),
            "theta": draw(st.one_of(st.sampled_from(FS_THETAS), st.floats(-PI, PI, allow_nan=False))),
            "phi": draw(st.one_of(st.sampled_from(FS_PHIS), st.floats(-PI, PI, allow_nan=False))),
            "atol": draw(st.sampled_from([1e-8, 1e-8, 1e-6]))}


def oracle_cphase(r):
    e, theta, phi, atol = float(r["e"]), float(r["theta"]), float(r["phi"]), _atol(r, [1e-8, 1e-6])
    a, b = _qs(2)
    fs = cirq.FSimGate(theta, phi)
    cz = cirq.CZPowGate(exponent=e)
    st_, sp = abs(math.sin(theta)), abs(math.sin(phi / 2))
    lo, hi = min(st_, sp), max(st_, sp)
    delta = -PI * (e % 2.0)
    cands = [abs(math.sin(delta / 4)), abs(math.cos(delta / 4))]

    def feasible(m):  # m > 0: feasible with margin, m < 0: feasible when relaxed by |m|
        return any(lo + m <= s <= hi - m for s in cands)

    gap = abs(st_ ** 2 - sp ** 2)
    what = f"decompose_cphase_into_two_fsim(CZ**{e}, fsim_gate=FSimGate({theta}, {phi}), atol={atol})"
    margin = 1e-6
    try:
        ops = list(cirq.decompose_cphase_into_two_fsim(cz, fsim_gate=fs, qubits=[a, b], atol=atol))
    except ValueError as ex:
        if gap > 10 * atol and feasible(margin):
            raise Violation(what + f": documented-feasible decomposition rejected: {ex}")
        return {"nontrivial": True, "outcome": "rejected", "decided": bool(gap < atol / 10 or not feasible(-margin))}
    if gap < atol / 10:
        raise Violation(what + f": sin(theta)^2 - sin(phi/2)^2 = {gap:.3g} < atol but no ValueError")
    if not feasible(-margin):
        raise Violation(what + ": infeasible per the documented inequalities but a decomposition was returned")
    want = np.diag([1, 1, 1, np.exp(1j * PI * e)])
    _cmp(what, _product(ops, [a, b]), want, 1e-7, False)
    _check_arity(what, ops)
    two = _two_qubit_ops(ops)
    if len(two) != 2 or any(op.gate != fs for op in two):
        raise Violation(what + f": two-qubit gates {[str(op.gate) for op in two]}, documented exactly two copies of fsim_gate")
    # interval helper must agree with feasibility (away from the interval ends)
    iv = cirq.compute_cphase_exponents_for_fsim_decomposition(fs)
    em = e % 2.0
    if not any(lo_ - 1e-5 <= em <= hi_ + 1e-5 for lo_, hi_ in iv) and feasible(1e-4):
        raise Violation(f"compute_cphase_exponents_for_fsim_decomposition({fs!r}) = {iv} excludes feasible exponent {em}")
    return {"nontrivial": True, "outcome": "ok", "decided": bool(feasible(margin))}


# ----------------------------------------------------------------------------- 3 qubits / Shannon


QSD_BOUND = {1: 0, 2: 3, 3: 20, 4: 100}  # Shende et al. with optimisations A.1 + A.2
QSD_LOOSE = {1: 0, 2: 3, 3: 23, 4: 115}  # A.2 (diagonal extraction, one CZ per later block) not applied


@st.composite
def _threeq_case(draw):
    return {"u": draw(G.nq(3)), "order": list(draw(st.permutations([0, 1, 2])))}


def oracle_threeq(r):
    u = G.build_nq(r["u"])
    assert u.shape == (8, 8) and R.unitarity_defect(u) < 1e-13
    qs = [cirq.LineQubit(i) for i in (r.get("order") or [0, 1, 2])]
    ops = cirq.three_qubit_matrix_to_operations(qs[0], qs[1], qs[2], u)
    what = "three_qubit_matrix_to_operations"
    _cmp(what, _product(ops, qs), u, 1e-7, True)
    _check_arity(what, ops)
    two = _two_qubit_ops(ops)
    if any(op.gate not in (cirq.CZ, cirq.CNOT) for op in two):
        raise Violation(what + f": two-qubit gates {sorted({str(op.gate) for op in two})}, documented CZ / CNOT only")
    # 20 = paper's count; 23 when the diagonal-extraction step (A.2) finds nothing to extract in the near-tolerance band
    if len(two) > 23:
        raise Violation(what + f": {len(two)} two-qubit gates (> 23)")
    k = r["u"]["k"]
    return {"nontrivial": k != "qr", "special": k != "qr", "kind": k, "n2q_bucket": min(len(two) // 5, 4), "within_20": len(two) <= 20}


@st.composite
def _qsd_case(draw, ns=(1, 2, 2, 3, 3, 3, 4)):
    n = draw(st.sampled_from(list(ns)))
    u = draw(G.oneq()) if n == 1 else draw(G.twoq()) if n == 2 else draw(G.nq(n))
    return {"n": n, "u": u}


def oracle_qsd(r):
    n = int(r["n"])
    u = G.build_1q(r["u"]) if n == 1 else G.build_nq(r["u"])
    assert u.shape == (2 ** n, 2 ** n) and R.unitarity_defect(u) < 1e-13
    qs = _qs(n)
    ops = list(cirq.quantum_shannon_decomposition(qs, u))
    what = f"quantum_shannon_decomposition(n={n})"
    _cmp(what, _product(ops, qs), u, 1e-6, False)
    _check_arity(what, ops)
    two = _two_qubit_ops(ops)
    if len(two) > QSD_LOOSE[n]:
        raise Violation(what + f": {len(two)} two-qubit gates (> {QSD_LOOSE[n]})")
    k = r["u"]["k"]
    sp = k != "qr"
    return {"nontrivial": sp, "special": sp, "kind": k, "n": n, "within_paper_bound": len(two) <= QSD_BOUND[n]}


# ----------------------------------------------------------------------------- multi-controlled gates


MC_FULL_DIM = 512  # full-matrix comparison up to 9 wires; above that basis + product test states


@st.composite
def _mc_case(draw):
    fn = draw(st.sampled_from(["x", "x", "rot"]))
    if fn == "x":
        # the three branches of the routine: free >= m-2 (Lemma 7.2, linear), 1 <= free < m-2 (Lemma 7.3), free == 0
        m = draw(st.sampled_from([0, 1, 2, 3, 4, 4, 5, 5, 5, 6, 6, 7]))
        free = draw(st.integers(0, 5))
    else:
        m = draw(st.sampled_from([0, 1, 2, 3, 4, 4, 5]))
        free = 0
    n = m + 1 + free
    r = {"fn": fn, "m": m, "free": free, "names": list(draw(st.permutations(list(range(n))))),
         "st": draw(st.lists(G.unit_floats(), min_size=8 * n, max_size=8 * n))}
    if fn == "rot":
        r["u"] = draw(G.oneq())
        r["su"] = draw(st.booleans())
        r["real"] = draw(st.integers(0, 5)) == 0
    return r


def _mc_grid(tier):
    """Deterministic grid over (controls, free qubits) so that every branch / recursion depth is hit in every run."""
    out = []
    fl = [((7 * i * i + 3 * i + 1) % 19 - 9) / 10.0 for i in range(8 * 13)]
    for m in range(3, 8):
        for free in range(0, 6):
            n = m + 1 + free
            for names in (list(range(n)), [(5 * i + 3) % n if math.gcd(5, n) == 1 else n - 1 - i for i in range(n)]):
                out.append({"fn": "x", "m": m, "free": free, "names": names, "st": fl[: 8 * n]})
    for m in range(5, 9):  # multi-controlled rotation reaches the multi-controlled-X ladders through its recursion
        for su in (False, True):
            out.append({"fn": "rot", "m": m, "free": 0, "names": list(range(m + 1)), "su": su, "real": False, "st": fl[: 8 * (m + 1)],
                        "u": {"k": "rot", "axis": [1, 1, 0], "ang": 0.7, "e": 0.0, "tilt": 0.0, "ph": 0.0 if su else 0.4}})
    return out


def _mc_test_states(r, n, cpos, tpos, fpos):
    """Columns: basis states (all controls on with every target value and several borrowed-qubit patterns, one control
    off, all zero) and two product states with generic amplitudes built from the drawn floats."""
    D = 2 ** n

    def index(bits):
        v = 0
        for b in bits:
            v = 2 * v + b
        return v

    cols = []
    pats = [[0] * len(fpos), [1] * len(fpos), [i % 2 for i in range(len(fpos))], [(i + 1) % 2 for i in range(len(fpos))]]
    for pat in pats:
        for tv in (0, 1):
            for off in (None, 0, len(cpos) - 1):
                bits = [0] * n
                for c in cpos:
                    bits[c] = 1
                if off is not None and cpos:
                    bits[cpos[off]] = 0
                bits[tpos] = tv
                for f, b in zip(fpos, pat):
                    bits[f] = b
                cols.append(L.basis_vector(index(bits), D))
    fl = G._pad(r.get("st"), 8 * n)
    for s in range(2):
        kets = [L.state_from_floats([fl[8 * q + 4 * s + j] + (0.37 if j == 0 else 0.0) for j in range(4)], 2) for q in range(n)]
        cols.append(L.kron_all([k.reshape(2, 1) for k in kets]).reshape(-1))
    return np.stack(cols, axis=1)


def oracle_mc(r):
    m, free, fn = int(r["m"]), int(r.get("free", 0)), r["fn"]
    if not (0 <= m <= 8 and 0 <= free <= 5):
        raise Reject("size outside the generated domain")
    n = m + 1 + free
    names = list(r.get("names") or range(n))
    if sorted(names) != list(range(n)):
        names = list(range(n))
    qs = [cirq.LineQubit(i) for i in names]
    controls, target, fr = qs[:m], qs[m], qs[m + 1:]
    order = sorted(qs)
    if fn == "x":
        ops = cirq.decompose_multi_controlled_x(controls, target, fr)
        base = L.PX
        what = f"decompose_multi_controlled_x(controls={m}, free_qubits={free})"
    else:
        base = G.build_1q(r["u"])
        if r.get("su"):
            base = R.polar_unitary(G.su2(base))
        if r.get("real") and np.max(np.abs(base.imag)) < 1e-12:
            base = base.real.copy()
        ops = cirq.decompose_multi_controlled_rotation(base, controls, target)
        what = f"decompose_multi_controlled_rotation(controls={m}, special={bool(r.get('su'))})"
    for op in ops:
        if not (len(op.qubits) == 1 or op.gate == cirq.CNOT or op.gate == cirq.CCNOT):
            raise Violation(what + f": operation {op!r} is not a 1-qubit gate, CNOT or CCNOT")
    cpos, tpos, fpos = [order.index(q) for q in controls], order.index(target), [order.index(q) for q in fr]
    D = 2 ** n
    full = D <= MC_FULL_DIM
    cols = np.eye(D, dtype=complex) if full else _mc_test_states(r, n, cpos, tpos, fpos)
    # reference action of the controlled gate on the columns: rows with all controls set are mixed pairwise by ``base``
    i = np.arange(D)
    on = np.ones(D, dtype=bool)
    for c in cpos:
        on &= ((i >> (n - 1 - c)) & 1) == 1
    tbit = 1 << (n - 1 - tpos)
    tv = (i & tbit) != 0
    b = np.asarray(base, dtype=complex)
    partner = cols[i ^ tbit]
    want = np.where(on[:, None], np.where(tv[:, None], b[1, 1] * cols + b[1, 0] * partner, b[0, 0] * cols + b[0, 1] * partner), cols)
    got = _apply_ops(ops, order, cols)
    d = L.max_abs_diff(got, want)
    if not d <= 1e-7:
        raise Violation(what + f": action on {'the full basis' if full else 'basis and product test states'} differs from the controlled "
                        f"matrix (borrowed qubits must return to their state) by {d:.3g} (tol 1e-07, exact)")
    branch = "none" if m < 3 or fn != "x" else "lemma7.2" if free >= m - 2 else "lemma7.3" if free >= 1 else "no_free"
    return {"nontrivial": m >= 2, "fn": fn, "m": m, "free": free, "su": bool(r.get("su")), "branch": branch, "full_matrix": bool(full)}


# ----------------------------------------------------------------------------- two-qubit state preparation


@st.composite
def _state_case(draw):
    return {"s": draw(G.state2()), "fn": draw(st.sampled_from(["cz", "sqrt_iswap", "iswap"])), "inv": draw(st.booleans())}


def oracle_state(r):
    psi = G.build_state2(r["s"])
    a, b = _qs(2)
    fn, inv = r["fn"], bool(r.get("inv"))
    if fn == "cz":
        ops = cirq.prepare_two_qubit_state_using_cz(a, b, psi)
        ent = cirq.CZ
    elif fn == "sqrt_iswap":
        ops = cirq.prepare_two_qubit_state_using_sqrt_iswap(a, b, psi, use_sqrt_iswap_inv=inv)
        ent = cirq.SQRT_ISWAP_INV if inv else cirq.SQRT_ISWAP
    else:
        ops = cirq.prepare_two_qubit_state_using_iswap(a, b, psi, use_iswap_inv=inv)
        ent = cirq.ISWAP_INV if inv else cirq.ISWAP
    what = f"prepare_two_qubit_state_using_{fn}({'inv' if inv else ''})"
    got = _product(ops, [a, b])[:, 0]
    d = L.diff_up_to_phase(got, psi)
    if not d <= 1e-6:
        raise Violation(what + f": prepared state differs from the requested one by {d:.3g} (tol 1e-6, up to phase)")
    _check_arity(what, ops)
    two = _two_qubit_ops(ops)
    if len(two) > 1 or any(op.gate != ent for op in two):
        raise Violation(what + f": entanglers {[str(op.gate) for op in two]}, documented at most one {ent}")
    sv = np.linalg.svd(psi.reshape(2, 2), compute_uv=False)
    schmidt = float(sv[1])
    if schmidt < 1e-12 and len(two) != 0:
        raise Violation(what + f": product state (Schmidt coefficient {schmidt:.3g}) prepared with an entangling gate")
    if schmidt > 1e-2 and len(two) != 1:
        raise Violation(what + f": entangled state (Schmidt coefficient {schmidt:.3g}) prepared without entangling gate")
    k = r["s"]["k"]
    return {"nontrivial": k != "generic", "special": k != "generic", "kind": k, "fn": fn, "n2q": len(two)}


# ----------------------------------------------------------------------------- Clifford tableau synthesis


CLIFF_1 = ["H", "S", "X", "Y", "Z", "Sdg", "sqrtX", "sqrtY"]
CLIFF_2 = ["CNOT", "CZ", "SWAP", "ISWAP"]


@st.composite
def _cliff_case(draw):
    n = draw(st.integers(1, 4))
    gates = []
    for _ in range(draw(st.integers(0, 14))):
        if n >= 2 and draw(st.booleans()):
            w = list(draw(st.permutations(list(range(n)))))[:2]
            gates.append([draw(st.sampled_from(CLIFF_2))] + w)
        else:
            gates.append([draw(st.sampled_from(CLIFF_1)), draw(st.integers(0, n - 1))])
    return {"n": n, "gates": gates, "names": list(draw(st.permutations(list(range(n)))))}


def _cliff_op(g, qs):
    name = g[0]
    w = [qs[int(i) % len(qs)] for i in g[1:]]
    one = {"H": cirq.H, "S": cirq.S, "X": cirq.X, "Y": cirq.Y, "Z": cirq.Z, "Sdg": cirq.S ** -1, "sqrtX": cirq.X ** 0.5, "sqrtY": cirq.Y ** 0.5}
    two = {"CNOT": cirq.CNOT, "CZ": cirq.CZ, "SWAP": cirq.SWAP, "ISWAP": cirq.ISWAP}
    if name in one:
        return one[name].on(w[0])
    if len(w) < 2 or w[0] == w[1]:
        raise ValueError("bad wires")
    return two[name].on(*w[:2])


def oracle_clifford(r):
    n = int(r["n"])
    names = list(r.get("names") or range(n))
    if sorted(names) != list(range(n)):
        names = list(range(n))
    qs = [cirq.LineQubit(i) for i in names]
    ops_in = [_cliff_op(g, qs) for g in r.get("gates") or []]
    tab = cirq.CliffordGate.from_op_list(ops_in, qs).clifford_tableau
    ops = cirq.decompose_clifford_tableau_to_operations(qs, tab)
    what = "decompose_clifford_tableau_to_operations"
    _check_arity(what, ops)
    _cmp(what, _product(ops, qs), _product(ops_in, qs), 1e-8, True)
    tab2 = cirq.CliffordGate.from_op_list(ops, qs).clifford_tableau
    if tab2 != tab:
        raise Violation(what + ": tableau of the returned operations differs from the input tableau")
    try:
        cirq.decompose_clifford_tableau_to_operations(qs + [cirq.LineQubit(99)], tab)
    except ValueError:
        pass
    else:
        raise Violation(what + ": accepted a qubit list longer than the tableau (documented ValueError)")
    n2 = sum(1 for g in r.get("gates") or [] if len(g) == 3)
    return {"nontrivial": n >= 2 and n2 >= 1 and len(ops_in) >= 3, "n": n, "has_2q": n2 > 0}


# ----------------------------------------------------------------------------- Sycamore (cirq-google)


@st.composite
def _syc_case(draw):
    if draw(st.integers(0, 2)) == 0:
        return {"fn": "matrix", "u": draw(G.twoq()), "atol": draw(G.atols()), "clean": draw(st.booleans())}
    exps = st.one_of(st.sampled_from([1.0, 0.5, -0.5, 0.25, 0.0, 2.0, 1e-9, 1.0 - 1e-10, -1.0, 1.5, 0.1]), st.floats(-2, 2, allow_nan=False))
    g = draw(st.sampled_from(["CZPow", "CNotPow", "ZZPow", "SWAP", "ISWAP", "PhISwap1", "PhISwapQ", "SwapZZ", "ZZSwap", "unknown"]))
    return {"fn": "known", "g": g, "e": draw(exps), "p": draw(st.one_of(st.sampled_from([0.25, 0.0, 0.5, -0.25, 1.0]), st.floats(-1, 1, allow_nan=False))),
            "rev": draw(st.booleans())}


def oracle_sycamore(r):
    a, b = _qs(2)
    if r["fn"] == "matrix":
        u, info = _input_2q(r["u"])
        atol, clean = _atol(r), bool(r.get("clean", True))
        ops = _ops_list(cirq_google.two_qubit_matrix_to_sycamore_operations(a, b, u, atol=atol, clean_operations=clean))
        what = f"two_qubit_matrix_to_sycamore_operations(atol={atol}, clean_operations={clean})"
        _cmp(what, _product(ops, [a, b]), u, max(_tol(atol), 1e-6), True)
        _check_arity(what, ops)
        two = _two_qubit_ops(ops)
        if any(op.gate != cirq_google.SYC for op in two):
            raise Violation(what + f": two-qubit gates {sorted({str(op.gate) for op in two})}, documented only SYC")
        if len(two) > 6:
            raise Violation(what + f": {len(two)} SYC gates (> 6)")
        lab = _labels2q(info, fn="matrix", n2q=len(two))
        lab["nontrivial"] = bool(info["special"] or not clean or atol != 1e-8)
        return lab
    e, p, g = float(r.get("e", 1.0)), float(r.get("p", 0.25)), r["g"]
    q0, q1 = (b, a) if r.get("rev") else (a, b)
    known = True
    if g == "CZPow":
        op = cirq.CZPowGate(exponent=e).on(q0, q1)
    elif g == "CNotPow":
        op = cirq.CNotPowGate(exponent=e).on(q0, q1)
    elif g == "ZZPow":
        op = cirq.ZZPowGate(exponent=e).on(q0, q1)
    elif g == "SWAP":
        op = cirq.SWAP(q0, q1)
    elif g == "ISWAP":
        op = cirq.ISWAP(q0, q1)
    elif g == "PhISwap1":
        op = cirq.PhasedISwapPowGate(exponent=1.0, phase_exponent=p).on(q0, q1)
    elif g == "PhISwapQ":
        op = cirq.PhasedISwapPowGate(exponent=e, phase_exponent=0.25).on(q0, q1)
    elif g == "SwapZZ":
        op = cirq.CircuitOperation(cirq.FrozenCircuit(cirq.SWAP(q0, q1), cirq.ZZPowGate(exponent=e).on(q0, q1)))
    elif g == "ZZSwap":
        op = cirq.CircuitOperation(cirq.FrozenCircuit(cirq.ZZPowGate(exponent=e).on(q0, q1), cirq.SWAP(q0, q1)))
    else:
        op = [cirq.FSimGate(0.3, 0.2), cirq.SWAP ** 0.5, cirq.ISWAP ** 0.5, cirq.XXPowGate(exponent=0.3), cirq.PhasedISwapPowGate(phase_exponent=0.1, exponent=0.3)][int(abs(e) * 10) % 5].on(q0, q1)
        known = False
    res = cirq_google.known_2q_op_to_sycamore_operations(op)
    what = f"known_2q_op_to_sycamore_operations({g}, e={e}, p={p})"
    if res is None:
        if known:
            raise Violation(what + ": returned None for a gate documented as known")
        return {"nontrivial": False, "fn": "known", "g": g, "outcome": "none"}
    if not known:
        raise Violation(what + ": returned a decomposition for a gate that is not in the documented list")
    ops = _ops_list(res)
    _cmp(what, _product(ops, [a, b]), _product([op] if not isinstance(op.untagged, cirq.CircuitOperation) else list(op.untagged.circuit.all_operations()), [a, b]),
         1e-6, True)
    _check_arity(what, ops)
    two = _two_qubit_ops(ops)
    if any(o.gate != cirq_google.SYC for o in two):
        raise Violation(what + f": two-qubit gates {sorted({str(o.gate) for o in two})}, documented only SYC")
    return {"nontrivial": True, "fn": "known", "g": g, "n2q": len(two), "outcome": "ok"}


# ----------------------------------------------------------------------------- named gates through every fast path


NG_BASE = [1.0, -1.0, 0.5, -0.5, 1.5, -1.5, 2.0, 3.0, -2.0, -3.0, 0.0, 0.25, -0.25]
NG_EXPS = sorted(set(NG_BASE) | {b + d for b in (1.0, -1.0, 2.0, 0.0, 0.5, -1.5, 3.0) for d in (1e-9, -1e-9)} | {b + d for b in (1.0, -1.0) for d in (1e-12, -1e-7)})
NG_SHIFTS = [0.0, -0.5, 0.5, 0.25]
NG_PS = [0.25, 0.0, 0.5, -0.25, 1.0, -1.0, 1.0 / 6, 0.25 + 1e-9, 0.25 - 1e-9]
NG_FAMS = ["CZPow", "CNotPow", "SwapPow", "ISwapPow", "ZZPow", "XXPow", "YYPow", "PhISwap", "FSim", "Givens", "MS", "PhISwap1"]


def _ng_gate(fam, e, sh, p, sym=False):
    """(gate, resolver): the named gate; with sym its numeric parameters are sympy symbols resolved by ``resolver``."""
    import sympy

    res = {}
    if sym:
        res = {"t": e, "w": p}
        e, p = sympy.Symbol("t"), sympy.Symbol("w")
    eig = {"CZPow": cirq.CZPowGate, "CNotPow": cirq.CNotPowGate, "SwapPow": cirq.SwapPowGate, "ISwapPow": cirq.ISwapPowGate,
           "ZZPow": cirq.ZZPowGate, "XXPow": cirq.XXPowGate, "YYPow": cirq.YYPowGate}
    if fam in eig:
        return eig[fam](exponent=e, global_shift=sh), res
    if fam == "PhISwap":
        return cirq.PhasedISwapPowGate(phase_exponent=p, exponent=e), res
    if fam == "PhISwap1":
        return cirq.PhasedISwapPowGate(phase_exponent=p if sym else p, exponent=1.0), res
    if fam == "FSim":
        return cirq.FSimGate(theta=e * (PI / 2), phi=p * PI), res
    if fam == "Givens":
        return cirq.PhasedISwapPowGate(phase_exponent=0.25, exponent=e * 0.5), res
    if fam == "MS":
        return cirq.XXPowGate(exponent=e * 0.5, global_shift=-0.5), res
    raise KeyError(fam)


@st.composite
def _ng_case(draw):
    return {"fam": draw(st.sampled_from(NG_FAMS)), "e": draw(st.one_of(st.sampled_from(NG_EXPS), st.sampled_from(NG_BASE), st.floats(-4, 4, allow_nan=False))),
            "sh": draw(st.sampled_from(NG_SHIFTS)), "p": draw(st.one_of(st.sampled_from(NG_PS), st.floats(-1, 1, allow_nan=False))),
            "inv": draw(st.booleans()), "partial": draw(st.booleans()), "sym": draw(st.booleans()), "rev": draw(st.booleans())}


def _ng_grid(tier):
    out = []
    i = 0
    for fam in NG_FAMS:
        for e in NG_EXPS:
            i += 1
            out.append({"fam": fam, "e": e, "sh": NG_SHIFTS[i % 4], "p": NG_PS[i % len(NG_PS)], "inv": bool(i % 2), "partial": bool((i // 2) % 2),
                        "sym": bool((i // 4) % 2), "rev": bool((i // 3) % 2)})
    return out


def _ng_input(r):
    fam, e, sh, p = r["fam"], float(r.get("e", 1.0)), float(r.get("sh", 0.0)), float(r.get("p", 0.25))
    if fam not in NG_FAMS or sh not in NG_SHIFTS or not abs(e) <= 4 or not abs(p) <= 1:
        raise Reject("parameters outside the generated domain")
    a, b = _qs(2)
    q0, q1 = (b, a) if r.get("rev") else (a, b)
    gate, _ = _ng_gate(fam, e, sh, p)
    op = gate.on(q0, q1)
    u = _product([op], [a, b])
    return fam, e, sh, p, a, b, q0, q1, gate, op, u


def oracle_named_gates(r):
    """A named gate at a special exponent goes through every entry point that has a known-gate / special-case fast path;
    whatever comes back (None / NotImplemented = 'no known decomposition' is fine) must rebuild the gate's own matrix."""
    fam, e, sh, p, a, b, q0, q1, gate, op, u = _ng_input(r)
    assert R.unitarity_defect(u) < 1e-9
    tag = f"{fam}(e={e!r}, shift={sh}, p={p!r}{', reversed qubits' if r.get('rev') else ''})"
    inv, partial = bool(r.get("inv")), bool(r.get("partial"))
    lab = {"fam": fam, "nontrivial": True}

    def two_only(what, ops, allowed, maxn=None):
        _check_arity(what, ops)
        two = _two_qubit_ops(ops)
        if any(o.gate not in allowed for o in two):
            raise Violation(what + f": two-qubit gates {sorted({str(o.gate) for o in two})}, documented only {[str(g) for g in allowed]}")
        if maxn is not None and len(two) > maxn:
            raise Violation(what + f": {len(two)} two-qubit gates (> {maxn})")
        return len(two)

    # A. known-gate dispatch of the Sycamore synthesis
    res = cirq_google.known_2q_op_to_sycamore_operations(op)
    lab["syc_known"] = res is not None
    if res is not None:
        ops = _ops_list(res)
        what = f"known_2q_op_to_sycamore_operations({tag})"
        _cmp(what, _product(ops, [a, b]), u, 1e-6, True)
        two_only(what, ops, [cirq_google.SYC])
    # B. matrix entry point of the Sycamore synthesis
    what = f"two_qubit_matrix_to_sycamore_operations(unitary of {tag})"
    ops = _ops_list(cirq_google.two_qubit_matrix_to_sycamore_operations(q0, q1, cirq.unitary(gate)))
    _cmp(what, _product(ops, [a, b]), u, 1e-6, True)
    two_only(what, ops, [cirq_google.SYC], 6)
    # D. sqrt-iSWAP, E. CZ, F. MS matrix entry points
    what = f"two_qubit_matrix_to_sqrt_iswap_operations(unitary of {tag}, use_sqrt_iswap_inv={inv})"
    ops = list(cirq.two_qubit_matrix_to_sqrt_iswap_operations(q0, q1, cirq.unitary(gate), use_sqrt_iswap_inv=inv))
    _cmp(what, _product(ops, [a, b]), u, 1e-7, True)
    lab["n_sqisw"] = two_only(what, ops, [cirq.SQRT_ISWAP_INV if inv else cirq.SQRT_ISWAP], 3)
    what = f"two_qubit_matrix_to_cz_operations(unitary of {tag}, allow_partial_czs={partial})"
    ops = cirq.two_qubit_matrix_to_cz_operations(q0, q1, cirq.unitary(gate), partial)
    _cmp(what, _product(ops, [a, b]), u, _tol_clean(1e-8), True)
    _check_arity(what, ops)
    two = _two_qubit_ops(ops)
    if len(two) > 3 or any(not isinstance(o.gate, cirq.CZPowGate) or (not partial and o.gate != cirq.CZ) for o in two):
        raise Violation(what + f": two-qubit gates {[str(o.gate) for o in two]}")
    lab["n_cz"] = len(two)
    what = f"two_qubit_matrix_to_ion_operations(unitary of {tag})"
    ops = cirq.two_qubit_matrix_to_ion_operations(q0, q1, cirq.unitary(gate))
    _cmp(what, _product(ops, [a, b]), u, _tol_clean(1e-8), True)
    # G. objects with a unitary handed over directly
    kd = cirq.kak_decomposition(gate)
    _cmp(f"cirq.unitary(kak_decomposition({tag}))", cirq.unitary(kd), cirq.unitary(gate), 1e-7, False)
    _in_region(f"kak_decomposition({tag})", kd.interaction_coefficients)
    what = f"decompose_two_qubit_interaction_into_four_fsim_gates({tag} as operation)"
    fs = cirq.FSimGate(PI / 2, 0.1)
    c = cirq.decompose_two_qubit_interaction_into_four_fsim_gates(op, fsim_gate=fs)
    ops = list(c.all_operations())
    _cmp(what, _product(ops, [a, b]), u, 1e-7, False)
    if two_only(what, ops, [fs]) != 4:
        raise Violation(what + ": not exactly four FSim gates")
    lab["e_kind"] = "table" if e in NG_EXPS else "continuous"
    lab["neg"] = e < 0
    lab["big"] = abs(e) > 1
    return lab


NGP_FAMS = ["CZPow", "SwapPow", "ISwapPow", "FSim", "ZZPow"]


@st.composite
def _ngp_case(draw):
    r = draw(_ng_case())
    r["fam"] = draw(st.sampled_from(NGP_FAMS))
    return r


def _ngp_grid(tier):
    return [dict(r, fam=f) for f in NGP_FAMS[:4] for r in _ng_grid(tier) if r["fam"] == "CZPow"]


def oracle_named_gates_param(r):
    """parameterized_2q_op_to_sqrt_iswap_operations: the gate is handed over with symbolic parameters (documented use),
    the returned operations are resolved at the special value and must rebuild the gate's matrix at that value."""
    fam, e, sh, p, a, b, q0, q1, gate, op, u = _ng_input(r)
    inv = bool(r.get("inv"))
    g2, resolver = _ng_gate(fam, e, sh, p, sym=True)
    res = cirq.parameterized_2q_op_to_sqrt_iswap_operations(g2.on(q0, q1), use_sqrt_iswap_inv=inv)
    lab = {"fam": fam, "nontrivial": True, "neg": e < 0, "big": abs(e) > 1, "e_kind": "table" if e in NG_EXPS else "continuous"}
    if res is None or res is NotImplemented:
        if fam in NGP_FAMS[:4]:
            raise Violation(f"parameterized_2q_op_to_sqrt_iswap_operations({fam}): no decomposition for a gate type documented as supported")
        return dict(lab, outcome="not_implemented")
    what = (f"parameterized_2q_op_to_sqrt_iswap_operations({fam} with symbols, use_sqrt_iswap_inv={inv}) resolved at "
            f"e={e!r}, shift={sh}, p={p!r}")
    ops = [cirq.resolve_parameters(o, cirq.ParamResolver(resolver)) for o in _ops_list(res)]
    _cmp(what, _product(ops, [a, b]), u, 1e-7, True)
    _check_arity(what, ops)
    want = cirq.SQRT_ISWAP_INV if inv else cirq.SQRT_ISWAP
    two = _two_qubit_ops(ops)
    if any(o.gate != want for o in two):
        raise Violation(what + f": two-qubit gates {sorted({str(o.gate) for o in two})}, documented only {want}")
    return dict(lab, outcome="ok", n2q=len(two))


# ----------------------------------------------------------------------------- gate tabulation (thorough only)


@st.composite
def _tab_case(draw):
    return {"seed": draw(st.integers(0, 2 ** 20)), "theta": draw(st.sampled_from([PI / 2, PI / 4, 0.9])), "phi": draw(st.sampled_from([PI / 6, 0.0, 0.4])),
            "infid": draw(st.sampled_from([0.1, 0.05, 0.02])), "targets": [draw(G.twoq()) for _ in range(6)]}


def oracle_tabulation(r):
    base = cirq.unitary(cirq.FSimGate(float(r["theta"]), float(r["phi"])))
    infid = float(r["infid"])
    tab = cirq.two_qubit_gate_product_tabulation(base, infid, random_state=int(r["seed"]))
    nsucc = 0
    for t in r["targets"]:
        u, _ = _input_2q(t)
        res = tab.compile_two_qubit_gate(u)
        m = np.eye(4, dtype=complex)
        loc = res.local_unitaries
        for i, (ka, kb) in enumerate(loc):
            m = np.kron(ka, kb) @ m
            if i != len(loc) - 1:
                m = base @ m
        # "U_target ~ k_N U_base ... k_0": the routine rescales actual_gate by the conjugate KAK phase of the target,
        # so only equality up to a global phase is demanded
        _cmp("TwoQubitGateTabulationResult: product of local_unitaries and base gate vs actual_gate", m, res.actual_gate, 1e-7, True)
        if res.success:
            nsucc += 1
            fid = abs(np.trace(u.conj().T @ res.actual_gate)) ** 2
            fid = (fid + 4) / 20  # average gate fidelity
            if fid < 1 - infid - 1e-9:
                raise Violation(f"two_qubit_gate_product_tabulation(max_infidelity={infid}): success reported with fidelity {fid:.6f}")
    return {"nontrivial": nsucc > 0, "succ": nsucc}


# ----------------------------------------------------------------------------- known-finding features (README rule 1)


def _feature_matrix(sub, r):
    """(U, canonical class) of the two-qubit matrix a case feeds to the KAK-based routines."""
    if sub == "named_gates":
        u = _ng_input(r)[-1]
        return u, R.weyl_from_matrix(u)
    u, info = G.build_2q(r["u"])
    return u, info["v"]


def _f_fsim4_face_threshold(sub, r):
    """Canonical x sits (to rounding) on pi/4 - 1e-9, kak_canonicalize_vector's own face threshold, with z != 0."""
    if sub not in ("fsim4", "named_gates"):
        return False
    _, v = _feature_matrix(sub, r)
    return abs((Q - v[0]) - 1e-9) < 2e-11 and abs(v[2]) > 1e-7


def _f_kak_rank_threshold(sub, r):
    """A singular value of the real part of the magic-basis matrix lies within a factor 2 of the atol that
    kak_decomposition is called with (rank detection of the bidiagonalisation splits a degenerate cluster)."""
    if sub == "kak":
        atol = float(r.get("atol", 1e-8))
    elif sub == "cz" or (sub == "sycamore" and r.get("fn") == "matrix"):
        atol = float(r.get("atol", 1e-8))
    elif sub == "sqrt_iswap":
        atol = float(r.get("atol", 1e-8)) / 10
    elif sub == "fsim4":
        atol = 1e-8
    elif sub == "named_gates":
        atol = None  # entry points use 1e-8 and 1e-9 (sqrt-iSWAP: atol / 10)
    else:
        return False
    u, _ = _feature_matrix(sub, r)
    mg = G.NAMED_2Q["MAGIC"]
    sv = np.linalg.svd(np.real(mg.conj().T @ u @ mg), compute_uv=False)
    return any(bool(np.any((sv > 0.5 * t) & (sv < 2 * t))) for t in ((1e-8, 1e-9) if atol is None else (atol,)))


def _f_isometry_illconditioned_diag(sub, r):
    """|z| >= atol (three CZs by the linear reading) while the trace invariants of Shende et al. are within 1e-7 of a
    <= 2-CNOT class: the diagonal extraction solves a condition that is quadratic in the coordinates there, its result
    keeps a residual z ~ sqrt(eps) > atol and the isometry synthesis still emits a third CZ."""
    if sub != "cz" or r.get("fn") != "iso":
        return False
    _, info = G.build_2q(r["u"])
    v = info["v"]
    return R.cz_class(v, float(r.get("atol", 1e-8)) / 100) == 3 and R.shende_count(v, 1e-7) < 3


def _f_fsim4_drops_small_z(sub, r):
    """(sin y cos z)^2 > 0.5 - 1e-12 (hard-coded branch) although y, z are not exactly (pi/4, 0)."""
    if sub not in ("fsim4", "named_gates"):
        return False
    _, v = _feature_matrix(sub, r)
    return (math.sin(v[1]) * math.cos(v[2])) ** 2 > 0.499999999999 and (abs(v[2]) > 3e-8 or abs(v[1] - Q) > 3e-8)


KNOWN_FEATURES = {
    "C15_isometry_illconditioned_diag": _f_isometry_illconditioned_diag,
    "C15_kak_rank_threshold": _f_kak_rank_threshold,
    "C15_fsim4_face_threshold": _f_fsim4_face_threshold,
    "C15_fsim4_drops_small_z": _f_fsim4_drops_small_z,
}

# regression inputs of defects found by this check and repaired in /repo (fix: commits f29c081 632d107 92fe2d5 d845bb0
# 633a791 d35532d 39ad951); always evaluated first
REGRESSION = {
    "named_gates_param": [
        # C15_sqisw_param_cphase_pi (6025b96, 3d8e8e9): symbolic sqrt-iSWAP decomposition resolved at a full controlled phase
        {"fam": "CZPow", "e": 1.0, "sh": 0.0, "p": 0.25, "inv": False, "partial": False, "sym": True, "rev": False},
        {"fam": "SwapPow", "e": -1.0, "sh": 0.0, "p": 0.25, "inv": True, "partial": False, "sym": True, "rev": False},
        {"fam": "FSim", "e": 0.0, "sh": 0.0, "p": -0.9999999999999999, "inv": False, "partial": False, "sym": False, "rev": False},
    ],
    "kak_vector": [
        # C15_kak_vector_face_rtol
        {"u": {"k": "kak", "base": "face_x", "eps": 1e-07, "dir": [-1, 0, 0], "loc": [], "ph": 0.0}},
    ],
    "cz": [
        # C15_isometry_third_cz
        {"u": {"k": "kak", "base": "yz0", "eps": 1e-05, "dir": [0, 1, 1], "loc": [], "ph": 0.0}, "fn": "iso", "partial": False, "clean": True, "atol": 1e-08, "swapq": False},
    ],
    "threeq": [
        # C15_three_qubit_allclose_rtol
        {"u": {"k": "diag", "n": 3, "phs": [0.0, 0.0, 0.0, 0.0, 1e-05, 1e-05, 1e-05, 1e-05]}, "order": [0, 1, 2]},
        # C15_three_qubit_allclose_rtol (first sighting)
        {"order": [1, 0, 2], "u": {"f": [{"ang": 9.42477796076938, "axis": [-1], "e": 0.0, "k": "rot", "ph": 0.0, "tilt": 1e-05}], "g": {"base": "interior", "dir": [], "eps": 0.0, "k": "kak", "loc": [], "ph": 0.0, "u": []}, "k": "kron2", "n": 3, "pos": 1}},
    ],
    "qsd": [
        # C15_qsd_near_degenerate
        {"n": 3, "u": {"k": "block", "n": 3, "a": {"k": "named", "name": "I4", "ph": 0.0}, "b": {"k": "block", "a": {"k": "rot", "axis": [1, 0, 0], "ang": 0.0, "e": 1e-09, "tilt": 0.0, "ph": 0.0}, "b": {"k": "named", "name": "Y", "ph": 0.5}, "ctl": 0, "first_id": False}}},
        # C15_qsd_phase_fix_single_qubit_block
        {"n": 2, "u": {"k": "kron", "a": {"k": "named", "name": "X", "ph": 0.0}, "b": {"k": "named", "name": "I", "ph": 0.0}}},
        # C15_qsd_near_degenerate (eigh shortcut)
        {"n": 3, "u": {"f": [{"k": "qr", "ph": 1.0, "v": [4.294618220922838e-208, 0.0, -0.16467665692137357, -0.3740603869909148, 2.2250738585072014e-308, 0.44650378384076217, -1.192092896e-07]}, {"ang": 0.7853981633974483, "axis": [], "e": 0.0, "k": "rot", "ph": -2.99576307497489, "tilt": 1e-05}], "k": "kron1", "n": 3}},
        # C15_qsd_near_degenerate (non-unitary block amplified)
        {"n": 3, "u": {"k": "ctrl", "n": 3, "sub": {"base": "I", "dir": [0, 1], "eps": 1e-07, "k": "kak", "loc": [{"ang": 1.0, "axis": [1], "e": 0.0, "k": "rot", "ph": 0.0, "tilt": 0.0}, {"ang": 2.0, "axis": [], "e": 1e-05, "k": "rot", "ph": -1.5707963267948966, "tilt": 0.0}, {"ang": 0.0031868597369656415, "axis": [0, 1], "e": 0.0, "k": "rot", "ph": -1.5707963267948966, "tilt": 0.0}], "ph": 0.0}, "val": 1, "wire": 1}},
        # C15_qsd_phase_fix_single_qubit_block (silent wrong phase)
        {"n": 3, "u": {"f": [{"k": "qr", "ph": 0.0, "v": [0.0, 0.0, -0.2, 0.0, 0.0, 1.0]}], "k": "kron1", "n": 3}},
        # paper bound exceeded before 39ad951
        {"n": 3, "u": {"f": [{"k": "qr", "ph": 0.0, "v": [0.0, 0.0, 0.5, -0.3740603869909148, 2.2250738585072014e-308, 0.45, -1.192092896e-07]}, {"ang": 0.7853981633974483, "axis": [], "e": 0.0, "k": "rot", "ph": -2.99576307497489, "tilt": 1e-05}], "k": "kron1", "n": 3}},
    ],
    "multi_controlled": [
        # C15_mc_rotation_drops_small_gates
        {"fn": "rot", "m": 1, "free": 0, "names": [0, 1], "su": False, "real": False, "u": {"k": "rot", "axis": [0, 0, 1], "ang": 0.0, "e": 1e-05, "tilt": 0.0, "ph": 0.0}},
        # C15_mc_rotation_drops_small_gates (|m00| snapped to 1)
        {"fn": "rot", "free": 0, "m": 1, "names": [0, 1], "real": False, "su": False, "u": {"k": "qr", "ph": 0.0, "v": [0.25, 0.30126712394095123, -9.897403760495584e-08]}},
    ],
    "state_prep": [
        # C15_state_prep_isclose_product
        {"s": {"k": "near_product", "a": {"k": "named", "name": "I", "ph": 0.0}, "b": {"k": "named", "name": "I", "ph": 0.0}, "eps": 0.001}, "fn": "cz", "inv": False},
    ],
}


def uncovered():
    return [
        "two_qubit_gate_product_tabulation is only exercised in the thorough tier (seconds per tabulation)",
        "n-qubit routines are exercised up to n = 4 (QSD) / 8 wires (multi-controlled X); larger n only by structure",
        "inputs that trigger the listed KNOWN_FEATURES are skipped while those findings are open",
        "gate-count minimality is asserted against the class of the input only outside the near-tolerance band",
    ]


# ----------------------------------------------------------------------------- registry

_u2 = st.fixed_dictionaries({"u": G.twoq()})
_u2k = st.fixed_dictionaries({"u": G.twoq(), "atol": st.sampled_from([1e-8, 1e-8] + KAK_ATOLS), "explicit": st.booleans()})
_u1 = st.fixed_dictionaries({"u": G.oneq(), "atol": st.sampled_from([0.0] + ONEQ_ATOLS)})

SUBCHECKS = [
    SubCheck("kak", _u2k, oracle_kak, quick=3000, thorough=100000, shards_quick=4, essential={"special": 0.5}),
    SubCheck("kak_vector", _u2, oracle_kak_vector, quick=2000, thorough=60000, shards_quick=4, essential={"special": 0.5}),
    SubCheck("oneq", _u1, oracle_oneq, quick=2000, thorough=60000, shards_quick=2, essential={"special": 0.5}),
    SubCheck("linalg", _linalg_case(), oracle_linalg, quick=2000, thorough=60000, shards_quick=4),
    SubCheck("cz", _cz_case(), oracle_cz, quick=3000, thorough=80000, shards_quick=6, essential={"special": 0.5}),
    SubCheck("sqrt_iswap", _sqisw_case(), oracle_sqrt_iswap, quick=2500, thorough=80000, shards_quick=4, essential={"special": 0.5}),
    SubCheck("fsim4", _fsim_case(), oracle_fsim4, quick=800, thorough=30000, shards_quick=4, essential={"special": 0.5}),
    SubCheck("cphase_fsim", _cphase_case(), oracle_cphase, quick=1500, thorough=40000, shards_quick=1),
    SubCheck("threeq", _threeq_case(), oracle_threeq, quick=500, thorough=15000, shards_quick=4, essential={"special": 0.5}),
    SubCheck("qsd", _qsd_case(), oracle_qsd, quick=500, thorough=15000, shards_quick=6, essential={"special": 0.5}),
    SubCheck("multi_controlled", _mc_case(), oracle_mc, quick=400, thorough=10000, shards_quick=4, enumerate=_mc_grid,
             essential={"branch=lemma7.2": 0.1, "branch=lemma7.3": 0.03}),
    SubCheck("state_prep", _state_case(), oracle_state, quick=1500, thorough=40000, shards_quick=2, essential={"special": 0.5}),
    SubCheck("clifford", _cliff_case(), oracle_clifford, quick=600, thorough=20000, shards_quick=2),
    SubCheck("sycamore", _syc_case(), oracle_sycamore, quick=900, thorough=30000, shards_quick=3),
    SubCheck("named_gates", _ng_case(), oracle_named_gates, quick=250, thorough=20000, shards_quick=4, enumerate=_ng_grid,
             essential={"neg": 0.3, "big": 0.3, "syc_known": 0.2}),
    SubCheck("named_gates_param", _ngp_case(), oracle_named_gates_param, quick=150, thorough=8000, shards_quick=2, enumerate=_ngp_grid,
             essential={"neg": 0.3, "big": 0.3}),
    SubCheck("tabulation", _tab_case(), oracle_tabulation, quick=0, thorough=24, shards_quick=1, shards_thorough=8),
]
for _s in SUBCHECKS:
    _s.examples = list(REGRESSION.get(_s.name, []))
