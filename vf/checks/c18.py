"""C18 — all views of measurement results tell the same story."""
from __future__ import annotations

import collections
import functools
import io
import json
import os
import re

import duet
import numpy as np
import pandas as pd
from hypothesis import strategies as st

import cirq
import cirq_google as cg
from vf.core import Reject, SubCheck, Violation
from vf.gen import c18_samplers as HS
from vf.gen import c18_sweeps as SW
from vf.ref import records as RR

RULE = (
    "records: Hypothesis draws 0-6 distinct keys, 0-20 repetitions, 1-3 instances per key, width 1-70 (classes: small, "
    "medium, 62-65 boundary, 65-70), per-column radix 2-5 for qudit keys, dtype bool/uint8/int8/int64, rows = mixed-radix "
    "digits of integers drawn from a small per-key pool (so histograms have repeated and distinct outcomes), the "
    "construction route (records= / measurements= / EngineResult / a minimal cirq.Result subclass), params, a key order "
    "for the multi-key histogram, a fold function, two split points for concatenation, an error variant for +. One pure "
    "Python decoding of records[key][rep][inst][q] is the oracle for every view. digits: drawn mixed-radix bases, values "
    "up to 5^70 / 2^80, padding and all documented error forms. samplers: 1-3 programs (measurement shapes up to 70 wide, "
    "qudits, repeated keys, symbols), a sweepable per program in every accepted form, int / per-program repetitions; "
    "harness samplers implementing only run_sweep or only run_sweep_async return digits that are a hash of (program, key, "
    "params, repetitions, rep, instance) so any mis-routing changes the data; simulators run deterministic circuits "
    "(X^k / +k mod d between measurements) whose records are computed by a classical interpreter. Non-trivial = "
    ">=2 repetitions with different rows, or width>=2 with a non-palindromic row, or width>64, or a qudit column "
    "(samplers: >=2 resolvers or >=2 programs with differing shapes/repetitions). Sweepables are drawn as trees (Points, "
    "Linspace, Zip, ZipLongest, Product, Concat, ListSweep, dict, ParamResolver, dict-of-lists, nested lists/tuples) in which "
    "every element draws its own key ORDER, values mix int/float, and a list may hold an element over a subset of the symbols "
    "(sample must then raise its documented ValueError); an independent expansion gives the assignments. long: repetition "
    "counts from a fixed table (0 .. 131073, around 2^12, 50000, 2^16, 10^5; not read from the code), 1-2 keys of 1-3 "
    "digits, every aggregate view of the whole result, of a prefix, of the sum of parts cut at table points and of the JSON "
    "round trip, plus a ZerosSampler / Simulator run of that length."
)
ASSUMPTIONS = [
    "numpy array construction / comparison and pandas indexing are trusted; all integer arithmetic of the oracle is "
    "exact Python int arithmetic",
    "default (base-2) data frame / default histogram values are only demanded for keys whose digits are all 0/1 (the "
    "docstrings speak of bits; a Result does not know qid shapes); qudit keys are checked through fold_base / fold_func",
    "flattened views of a single-instance key inside a result that also holds a repeated key may either raise the "
    "documented ValueError or must be right",
    "str(result) is compared on digit content per key/instance/qubit for >=1 repetition only (format of empty results "
    "is not documented)",
    "cirq.to_resolvers / cirq.measurement_key_name / cirq.qid_shape are used inside the harness samplers to read the "
    "arguments they receive; the expected resolver lists come from an independent expansion of the drawn sweepable",
    "no numeric tolerances: every comparison is exact",
]
SENSITIVITY = [
    "unpack_bits wrong reshape for instances>1",
    "data little-endian",
    "multi histogram ignores key order",
    "add stacks on instance axis",
    "add compares shapes of common keys only",
    "vectorized histogram mixed-radix weights",
    "pack_digits bit-packs qudit digits",
    "str lists repetitions in reverse",
    "Result equality ignores params",
    "records from measurements on wrong axis",
    "int_to_digits radix order reversed",
    "digits_to_int range check off by one",
    "int_to_bits little-endian",
    "int_to_digits binary fast path ignores overflow",
    "get_int ignores qudit dimensions",
    "get_digits returns first record for default index",
    "run_batch zips params reversed",
    "normalize_batch_args broadcasts int repetitions to first program only",
    "sample pairs results with reversed resolvers",
    "default run_sweep_async drops repetitions",
    "ZerosSampler swaps instance and qubit axes",
    "run_sweep_iter yields results in reversed resolver order",
    "ProcessorSampler reassembles batches in reversed order",
    "ValidatingSampler batch forwards first repetition count only",
    "digits_to_int accumulates numpy scalars (reverts fix 3e9aa07)",
    "zero-repetition records shaped (0,1,1) (reverts fix bec16e6)",
    "measurements caches a partial mapping (reverts fix 78ab3f1)",
    "measurements view takes the last instance of a repeated key",
    "sample reads parameter values in resolver order under sorted column names",
    "vectorized histogram batches overwrite earlier counts",
]

DTYPES = {"bool": np.bool_, "uint8": np.uint8, "int8": np.int8, "int64": np.int64}
NAMES = ["a", "b", "k0", "m_1", "q(0),q(1)", "q(3)", "out", "Z", "0", "q(1, 2)"]
QID_KEYS = {
    "q(0),q(1)": lambda: [cirq.LineQubit(0), cirq.LineQubit(1)],
    "q(3)": lambda: cirq.LineQubit(3),
    "q(1, 2)": lambda: cirq.GridQubit(1, 2),
}
FOLDS = {
    "sum": lambda bits: int(sum(int(b) for b in bits)),
    "first": lambda bits: int(bits[0]),
    "last_two": lambda bits: tuple(int(b) for b in bits[-2:]),
    "str": lambda bits: "".join(str(int(b)) for b in bits),
    "weighted": lambda bits: int(sum((i + 1) * int(b) for i, b in enumerate(bits))),
}


_RES = re.compile(r"(ResultDict|EngineResult|_CustomResult)\((records|measurements)=\.\.\.\)")


def _bucketed(fn):
    """First line of a Violation (= bucket) without key names / result class; the specific text follows on line 2."""

    @functools.wraps(fn)
    def wrapped(r):
        try:
            return fn(r)
        except Violation as v:
            first, _, rest = str(v).partition("\n")
            head = _RES.sub("Result", re.sub(r"'[^']*'", "'*'", first))
            raise Violation(head + "\n  " + first + ("\n" + rest if rest else "")) from None

    return wrapped


# ======================================================================================= records


@st.composite
def _width(draw):
    c = draw(st.integers(0, 19))
    if c < 11:
        return draw(st.integers(1, 8))
    if c < 14:
        return draw(st.integers(9, 61))
    if c < 16:
        return draw(st.sampled_from([62, 63, 64, 65]))
    return draw(st.integers(65, 70))


@st.composite
def _key_spec(draw, name, inst, reps):
    w = draw(_width())
    qudit = draw(st.integers(0, 9)) < 4
    radix = draw(st.lists(st.integers(2, 5), min_size=w, max_size=w)) if qudit else [2] * w
    P = RR.prod(radix)
    pool = draw(st.lists(st.one_of(st.integers(0, P - 1), st.sampled_from([0, 1, P - 1, P // 2, P // 3])), min_size=1, max_size=4))
    idx = draw(st.lists(st.integers(0, 3), min_size=1, max_size=max(1, min(12, reps * inst))))
    binary = all(r == 2 for r in radix)
    dtype = draw(st.sampled_from(["bool", "uint8", "int8", "int64"] if binary else ["uint8", "int8", "int64"]))
    return {"name": name, "radix": radix, "inst": inst, "dtype": dtype, "pool": pool, "idx": idx}


@st.composite
def _records_case(draw):
    via = draw(st.sampled_from(["records", "records", "records", "measurements", "measurements", "custom", "engine"]))
    c = draw(st.integers(0, 9))
    reps = 0 if c == 0 else 1 if c == 1 else draw(st.integers(2, 20))
    nkeys = draw(st.sampled_from([0, 1, 1, 2, 2, 3, 3, 4, 5, 6]))
    multi = via != "measurements" and draw(st.integers(0, 9)) < 3
    names = list(draw(st.permutations(NAMES)))[:nkeys]
    keys = []
    for nm in names:
        inst = draw(st.integers(1, 3)) if multi else 1
        keys.append(draw(_key_spec(nm, inst, reps)))
    params = draw(st.sampled_from([{}, {}, {"t": 0.5}, {"a": 1, "b": 2}]))
    return {
        "via": via, "reps": reps, "keys": keys, "params": params,
        "split": [draw(st.integers(0, 20)), draw(st.integers(0, 20))],
        "mm": list(draw(st.permutations(list(range(nkeys)))))[: draw(st.integers(0, nkeys))] if nkeys else [],
        "qid_keys": draw(st.booleans()),
        "fold": draw(st.sampled_from(sorted(FOLDS))),
        "base_extra": draw(st.sampled_from([0, 0, 1, 5])),
        "add_err": draw(st.sampled_from(["none", "params", "extra_key", "missing_key", "width", "inst"])),
        "mutate": [draw(st.integers(0, 5)), draw(st.integers(0, 19)), draw(st.integers(0, 2)), draw(st.integers(0, 69))],
        "legacy_type": draw(st.sampled_from(["ResultDict", "TrialResult", "Result"])),
        "probe": draw(st.integers(0, 9)), "probe_again": draw(st.booleans()),
    }


class _CustomResult(cirq.Result):
    """Minimal Result subclass: exercises the defaults of the abstract base class."""

    def __init__(self, params, records):
        self._p = params
        self._r = records

    @property
    def params(self):
        return self._p

    @property
    def records(self):
        return self._r

    @property
    def measurements(self):
        out = {}
        for k, v in self._r.items():
            if v.shape[1] != 1:
                raise ValueError("Cannot extract 2D measurements for repeated keys")
            out[k] = v[:, 0, :]
        return out

    @property
    def data(self):
        return cirq.Result.dataframe_from_measurements(self.measurements)


def _arr(rows3, shape, dtype):
    if shape[0] == 0:
        return np.zeros(shape, dtype=DTYPES[dtype])
    return np.array(rows3, dtype=DTYPES[dtype]).reshape(shape)


def _build(via, params, specs, recs, dtype_override=None, job_id="job-7"):
    arrays = {}
    for s in specs:
        r3 = recs[s["name"]]
        arrays[s["name"]] = _arr(r3, (len(r3), s["inst"], len(s["radix"])), dtype_override or s["dtype"])
    pr = cirq.ParamResolver(dict(params))
    if via == "measurements":
        return cirq.ResultDict(params=pr, measurements={k: v[:, 0, :].copy() for k, v in arrays.items()})
    if via == "custom":
        return _CustomResult(pr, arrays)
    if via == "engine":
        return cg.EngineResult(job_id=job_id, params=pr, records=arrays)
    return cirq.ResultDict(params=pr, records=arrays)


def _same_array(what, got, want3, shape):
    got = np.asarray(got)
    if tuple(got.shape) != tuple(shape):
        raise Violation(f"{what}: shape {tuple(got.shape)} != expected {tuple(shape)}")
    want = np.array(want3, dtype=np.int64).reshape(shape) if shape[0] else np.zeros(shape, dtype=np.int64)
    if got.dtype == object or not np.array_equal(got.astype(np.int64), want):
        bad = np.argwhere(got.astype(np.int64) != want)
        where = bad[0].tolist() if len(bad) else None
        raise Violation(f"{what}: digits differ from the reference decoding (first difference at index {where})")


def _check_records(what, res, specs, recs):
    got = res.records
    names = [s["name"] for s in specs]
    if sorted(got.keys()) != sorted(names):
        raise Violation(f"{what}: record keys {sorted(got.keys())} != {sorted(names)}")
    for s in specs:
        r3 = recs[s["name"]]
        _same_array(f"{what}.records[{s['name']!r}]", got[s["name"]], r3, (len(r3), s["inst"], len(s["radix"])))


def _is_exact_int(x):
    return isinstance(x, (int, np.integer)) and not isinstance(x, (bool, np.bool_))


def _check_counter(what, got, want):
    if not isinstance(got, dict):
        raise Violation(f"{what}: returned {type(got).__name__}, not a Counter")
    if dict(got) != dict(want):
        missing = [k for k in want if got.get(k) != want[k]][:2]
        extra = [k for k in got if k not in want][:2]
        raise Violation(f"{what}: counts differ from the reference\n  expected entries wrong/missing {missing}, unexpected {extra}")


def _qkey(r, name):
    if r.get("qid_keys") and name in QID_KEYS:
        return QID_KEYS[name]()
    return name


def _normalise(r):
    """Canonical, shrink-tolerant view of a recipe."""
    reps = max(0, min(20, int(r["reps"])))
    specs = []
    seen = set()
    for k in r["keys"]:
        if not isinstance(k, dict) or k.get("name") in seen or not k.get("radix"):
            continue
        seen.add(k["name"])
        s = dict(k)
        s["radix"] = RR.clean_radix(k["radix"])
        s["inst"] = max(1, min(3, int(k.get("inst", 1))))
        binary = all(x == 2 for x in s["radix"])
        s["binary"] = binary
        if s.get("dtype") not in DTYPES or (s["dtype"] == "bool" and not binary):
            s["dtype"] = "int64"
        specs.append(s)
    via = r["via"]
    if via == "measurements":
        for s in specs:
            s["inst"] = 1
    return reps, specs, via


@_bucketed
def oracle_records(r):
    reps, specs, via = _normalise(r)
    params = dict(r.get("params") or {})
    recs = {s["name"]: RR.rows(s, reps) for s in specs}
    vals = {s["name"]: RR.values(s, reps) for s in specs}
    for s in specs:  # harness self-check of the reference
        for rep in range(reps):
            for i in range(s["inst"]):
                assert RR.digits_to_int(recs[s["name"]][rep][i], s["radix"]) == vals[s["name"]][rep][i]
    names = [s["name"] for s in specs]
    res = _build(via, params, specs, recs)
    any_multi = any(s["inst"] > 1 for s in specs)
    eff_reps = reps if specs else 0
    W = f"{type(res).__name__}({'measurements' if via == 'measurements' else 'records'}=...)"

    # ---- records / repetitions / params
    _check_records(W, res, specs, recs)
    if res.repetitions != eff_reps:
        raise Violation(f"{W}.repetitions = {res.repetitions}, records hold {eff_reps} repetitions")
    if res.params != cirq.ParamResolver(params):
        raise Violation(f"{W}.params = {res.params!r} != {params}")

    # ---- flattened views (measurements, data frame, histograms): only when every key is measured once per repetition
    fold_name = r.get("fold") if r.get("fold") in FOLDS else "sum"
    fold = FOLDS[fold_name]
    tup = lambda t: tuple(tuple(int(b) for b in bits) for bits in t)  # noqa
    by = {s["name"]: s for s in specs}
    mm = []
    for i in r.get("mm", []):
        if specs and specs[int(i) % len(specs)]["name"] not in mm:
            mm.append(specs[int(i) % len(specs)]["name"])

    def hist_calls(s):
        nm = s["name"]
        key = _qkey(r, nm)
        rows2 = [row[0] for row in recs[nm]]
        v2 = [v[0] for v in vals[nm]]
        b_int = max(s["radix"]) + int(r.get("base_extra", 0) or 0)
        calls = []
        if s["binary"]:
            calls.append(("histogram(key)", dict(key=key), RR.counter(v2), True))
        calls.append(("histogram(key, fold_base=[per-digit])", dict(key=key, fold_base=list(s["radix"])), RR.counter(v2), True))
        calls.append((f"histogram(key, fold_base={b_int})", dict(key=key, fold_base=b_int),
                      RR.counter(RR.digits_to_int_uniform(d, b_int) for d in rows2), True))
        calls.append(("histogram(key, fold_func=tuple)", dict(key=key, fold_func=lambda bits: tuple(int(b) for b in bits)),
                      RR.counter(tuple(d) for d in rows2), False))
        calls.append((f"histogram(key, fold_func={fold_name})", dict(key=key, fold_func=fold), RR.counter(fold(d) for d in rows2), False))
        return calls

    if not any_multi:
        m = res.measurements
        if list(m.keys()) != names:
            raise Violation(f"{W}.measurements keys {list(m.keys())} != {names}")
        for s in specs:
            r2 = [row[0] for row in recs[s["name"]]]
            _same_array(f"{W}.measurements[{s['name']!r}]", m[s["name"]], r2, (reps, len(s["radix"])))
        for label, df in (("data", res.data), ("dataframe_from_measurements", cirq.Result.dataframe_from_measurements(res.measurements))):
            if list(df.columns) != names:
                raise Violation(f"{W}.{label} columns {list(df.columns)} != keys {names}")
            if len(df) != eff_reps or list(df.index) != list(range(eff_reps)):
                raise Violation(f"{W}.{label} has {len(df)} rows / index {list(df.index)[:4]}.. for {eff_reps} repetitions")
            for s in specs:
                if not s["binary"]:
                    continue
                col = df[s["name"]]
                for rep in range(reps):
                    x = col.iloc[rep]
                    want = vals[s["name"]][rep][0]
                    if not _is_exact_int(x) or int(x) != want:
                        raise Violation(f"{W}.{label}[{s['name']!r}][{rep}] = {x!r} ({type(x).__name__}), big-endian integer of the "
                                        f"{len(s['radix'])} recorded bits is {want}")
        for s in specs:
            for label, kw, want, ints in hist_calls(s):
                got = res.histogram(**kw)
                _check_counter(f"{W}.{label} [width {len(s['radix'])}, {'bits' if s['binary'] else 'qudit digits'}]", got, want)
                if ints and not all(_is_exact_int(k) for k in got):
                    t = sorted({type(k).__name__ for k in got})
                    raise Violation(f"{W}.{label}: histogram keys are {t}, not integers (width {len(s['radix'])})")
            try:
                res.histogram(key=_qkey(r, s["name"]), fold_func=fold, fold_base=2)
            except ValueError:
                pass
            else:
                raise Violation(f"{W}.histogram accepted fold_func together with fold_base")
        # multi-key histogram, keys in the given order
        want = RR.counter(tuple(tuple(recs[k][rep][0]) for k in mm) for rep in range(eff_reps))
        _check_counter(f"{W}.multi_measurement_histogram(keys={mm}, fold_func=tuples)",
                       res.multi_measurement_histogram(keys=[_qkey(r, k) for k in mm], fold_func=tup), want)
        if all(by[k]["binary"] for k in mm):
            want = RR.counter(tuple(vals[k][rep][0] for k in mm) for rep in range(eff_reps))
            _check_counter(f"{W}.multi_measurement_histogram(keys={mm})",
                           res.multi_measurement_histogram(keys=[_qkey(r, k) for k in mm]), want)

    # ---- str
    if reps >= 1 and via != "custom":
        got_lines = [ln.replace(" ", "") for ln in str(res).split("\n")] if str(res) else []
        want_lines = [ln.replace(" ", "") for ln in RR.expected_str(specs, recs)]
        if got_lines != want_lines:
            k = next((i for i, (a, b) in enumerate(zip(got_lines, want_lines)) if a != b), min(len(got_lines), len(want_lines)))
            raise Violation(f"str({W}) line {k} does not list the recorded digits per key/instance/qubit in repetition order "
                            f"({len(got_lines)} lines, expected {len(want_lines)})")

    # ---- concatenation
    s1, s2 = sorted(max(0, min(reps, int(x))) for x in (list(r.get("split", [0, 0])) + [0, 0])[:2])
    parts = []
    for lo, hi in ((0, s1), (s1, s2), (s2, reps)):
        parts.append(_build(via, params, specs, {k: v[lo:hi] for k, v in recs.items()}))
    left = (parts[0] + parts[1]) + parts[2]
    right = parts[0] + (parts[1] + parts[2])
    for label, tot in (("(r1 + r2) + r3", left), ("r1 + (r2 + r3)", right)):
        _check_records(f"{label} [{W}, split at {s1},{s2} of {reps}]", tot, specs, recs)
        if tot.params != cirq.ParamResolver(params):
            raise Violation(f"{label}: params {tot.params!r} != {params}")
        if via != "engine" and specs and not (tot == res):
            raise Violation(f"{label} != the result holding all repetitions")
    err = r.get("add_err", "none")
    other = None
    if err == "params":
        other = _build(via, dict(params, zz=3), specs, recs)
    elif err == "extra_key":
        extra = {"name": "extra", "radix": [2, 2], "inst": 1, "dtype": "int64", "pool": [1], "idx": [0], "binary": True}
        other = _build(via, params, specs + [extra], dict(recs, extra=RR.rows(extra, reps)))
    elif err == "missing_key" and specs:
        other = _build(via, params, specs[1:], recs)
    elif err == "width" and specs:
        s0 = dict(specs[0], radix=specs[0]["radix"] + [2])
        other = _build(via, params, [s0] + specs[1:], dict(recs, **{s0["name"]: RR.rows(s0, reps)}))
    elif err == "inst" and specs and via != "measurements":
        s0 = dict(specs[0], inst=specs[0]["inst"] + 1)
        other = _build(via, params, [s0] + specs[1:], dict(recs, **{s0["name"]: RR.rows(s0, reps)}))
    if other is not None:
        for a, b, lab in ((res, other, "r + other"), (other, res, "other + r")):
            try:
                a + b
            except ValueError:
                continue
            raise Violation(f"{lab} with mismatched {err} did not raise ValueError")

    # ---- equality
    if via != "custom":
        alt_via = {"records": "measurements" if not any_multi else "records", "measurements": "records", "engine": "engine"}[via]
        alt = _build(alt_via, params, specs, recs, dtype_override="int64")
        if not (res == alt) or (res != alt):
            raise Violation(f"{W} != equal result built through {alt_via}= with dtype int64")
        if not (res == res):
            raise Violation(f"{W} != itself")
        if res == _build(via, dict(params, zz=3), specs, recs):
            raise Violation(f"{W} == result with different params")
        mk, mrep, mi, mq = [int(x) for x in (list(r.get("mutate", [])) + [0, 0, 0, 0])[:4]]
        if specs and reps:
            s = specs[mk % len(specs)]
            rec2 = json.loads(json.dumps(recs))
            row = rec2[s["name"]][mrep % reps][mi % s["inst"]]
            q = mq % len(row)
            row[q] = (row[q] + 1) % s["radix"][q]
            if res == _build(via, params, specs, rec2):
                raise Violation(f"{W} == result differing in digit [{mrep % reps}][{mi % s['inst']}][{q}] of key {s['name']!r}")
        if via == "engine":
            if res == _build(via, params, specs, recs, job_id="other-job"):
                raise Violation("EngineResult == EngineResult with a different job_id")

    # ---- JSON (packed digits) round trip
    if via != "custom":
        text = cirq.to_json(res)
        back = cirq.read_json(json_text=text)
        if type(back) is not type(res):
            raise Violation(f"JSON round trip of {W} gives {type(back).__name__}")
        _check_records(f"JSON round trip of {W}", back, specs, recs)
        if not (back == res):
            raise Violation(f"JSON round trip of {W} is not == the original")
        for s in specs:
            if back.records[s["name"]].dtype != res.records[s["name"]].dtype:
                raise Violation(f"JSON round trip of {W} changes dtype of key {s['name']!r} from {res.records[s['name']].dtype} "
                                f"to {back.records[s['name']].dtype}")
        doc = json.loads(text)
        for s in specs:
            ent = doc["records"][s["name"]]
            flat = RR.flatten(recs[s["name"]])
            is_bits = all(d in (0, 1) for d in flat)
            if bool(ent["binary"]) != is_bits and is_bits:
                pass  # packing choice is an optimisation, not a promise
            if ent["binary"]:
                if list(ent["shape"]) != [reps, s["inst"], len(s["radix"])]:
                    raise Violation(f"JSON of {W}: stored shape {ent['shape']} != {[reps, s['inst'], len(s['radix'])]}")
                if ent["packed_digits"] != RR.pack_bits_hex(flat):
                    raise Violation(f"JSON of {W}: bit-packed digits of key {s['name']!r} are not the records in "
                                    "repetition/instance/qubit order, 8 per byte, most significant bit first")
        # legacy form: 2D 'measurements', bit-packed or npy-hex
        if not any_multi:
            legacy = {"cirq_type": r.get("legacy_type") if r.get("legacy_type") in ("ResultDict", "TrialResult", "Result") else "ResultDict",
                      "params": {"cirq_type": "ParamResolver", "param_dict": [[k, v] for k, v in params.items()]},
                      "measurements": {}}
            for s in specs:
                flat = RR.flatten(recs[s["name"]])
                if s["binary"]:
                    ent = {"packed_digits": RR.pack_bits_hex(flat), "binary": True, "dtype": s["dtype"], "shape": [reps, len(s["radix"])]}
                else:
                    buf = io.BytesIO()
                    np.save(buf, _arr(recs[s["name"]], (reps, len(s["radix"])), s["dtype"]), allow_pickle=False)
                    ent = {"packed_digits": buf.getvalue().hex(), "binary": False, "dtype": None, "shape": None}
                legacy["measurements"][s["name"]] = ent
            old = cirq.read_json(json_text=json.dumps(legacy))
            if not isinstance(old, cirq.ResultDict):
                raise Violation(f"legacy JSON ({legacy['cirq_type']}, measurements=) reads as {type(old).__name__}")
            _check_records(f"legacy JSON ({legacy['cirq_type']}, packed 2D measurements)", old, [dict(s, inst=1) for s in specs], recs)
            if old.params != cirq.ParamResolver(params):
                raise Violation("legacy JSON: params differ")

    # ---- state histogram (vis): all keys concatenated big-endian in key order
    tw = sum(len(s["radix"]) for s in specs)
    if specs and not any_multi and all(s["binary"] for s in specs) and tw <= 10:
        hist = cirq.vis.get_state_histogram(res)
        want = [0] * 2 ** tw
        for rep in range(reps):
            bits = [b for s in specs for b in recs[s["name"]][rep][0]]
            want[RR.digits_to_int(bits, [2] * tw)] += 1
        if [int(x) for x in hist] != want:
            raise Violation(f"cirq.vis.get_state_histogram({W}) differs from counting the concatenated big-endian bitstrings")

    # ---- a result holding a repeated key has no flattened views: documented ValueError, also when asked again
    if any_multi and via != "custom":
        probes = [("measurements", lambda: res.measurements, None), ("data", lambda: res.data, None)]
        for s in specs:
            for label, kw, want, _ in hist_calls(s)[:2]:
                probes.append((f"{label} of a key with {s['inst']} instance(s)", (lambda kw=kw: res.histogram(**kw)), want if s["inst"] == 1 else None))
        first = int(r.get("probe", 0)) % len(probes)
        todo = [probes[first]] + (probes if r.get("probe_again") else [])
        for n_try, (label, fn, may_equal) in enumerate(todo):
            again = " (asked again after an earlier ValueError)" if n_try else ""
            try:
                got = fn()
            except ValueError:
                continue
            if may_equal is not None:
                _check_counter(f"{W}.{label} next to a repeated key{again}", got, may_equal)
                continue
            raise Violation(f"{W}.{label}{again} answered although a key has several instances per repetition")

    distinct_rows = any(len({tuple(RR.flatten(x)) for x in recs[s["name"]]}) >= 2 for s in specs)
    nonpal = any(len(s["radix"]) >= 2 and any(row != row[::-1] for x in recs[s["name"]] for row in x) for s in specs)
    wide = any(len(s["radix"]) > 64 for s in specs)
    qudit = any(not s["binary"] for s in specs)
    return {
        "nontrivial": bool(specs and (distinct_rows or nonpal or wide or qudit) and reps >= 1),
        "wide_gt64": wide, "width_63_64": any(len(s["radix"]) in (63, 64) for s in specs), "qudit": qudit, "zero_reps": reps == 0,
        "multi_instance": any_multi, "no_keys": not specs, "via": via, "distinct_rows": distinct_rows, "nonpalindromic": nonpal,
        "int_overflows_int64": any(v[0] >= 2 ** 63 for s in specs for v in vals[s["name"]]),
        "add_err": err if other is not None else "none", "nkeys": len(specs),
    }


# ======================================================================================= long results

# (Hypothesis favours the first entries of a sampled_from list, so the interesting sizes come first)
REPS_TABLE = [50001, 65537, 100003, 50000, 65536, 100000, 49999, 65535, 99999, 100001, 131073, 32768, 4097, 4096, 1000, 65, 64, 63,
              2, 1, 0]


@st.composite
def _long_case(draw):
    via = draw(st.sampled_from(["records", "records", "measurements", "custom", "engine"]))
    reps = draw(st.sampled_from(REPS_TABLE))
    nkeys = draw(st.integers(1, 2))
    names = list(draw(st.permutations(["a", "b", "q(3)", "m_1"])))[:nkeys]
    multi = via != "measurements" and draw(st.integers(0, 5)) == 0
    keys = []
    for nm in names:
        w = draw(st.integers(1, 3))
        qudit = draw(st.integers(0, 2)) == 0
        radix = draw(st.lists(st.integers(2, 4), min_size=w, max_size=w)) if qudit else [2] * w
        binary = all(x == 2 for x in radix)
        keys.append({"name": nm, "radix": radix, "inst": draw(st.integers(1, 2)) if multi else 1,
                     "dtype": draw(st.sampled_from(["bool", "uint8", "int8", "int64"] if binary else ["uint8", "int8", "int64"])),
                     "mult": draw(st.integers(1, 999983)), "add": draw(st.integers(0, 10 ** 6))})
    return {"via": via, "reps": reps, "keys": keys, "splits": [draw(st.sampled_from(REPS_TABLE)), draw(st.sampled_from(REPS_TABLE))],
            "mm": list(draw(st.permutations(list(range(nkeys))))), "base_extra": draw(st.sampled_from([0, 0, 1, 5])),
            "qid_keys": draw(st.booleans()), "sampler": draw(st.sampled_from(["none", "none", "zeros", "sim"]))}


@_bucketed
def oracle_long(r):
    """Aggregate views of results whose repetition count crosses whatever chunking the implementation uses."""
    _, specs, via = _normalise(dict(r, reps=0))
    reps = max(0, min(140000, int(r["reps"])))
    if not specs:
        raise Reject("no keys")
    recs, vals, full = {}, {}, {}
    for s in specs:
        nm = s["name"]
        recs[nm], vals[nm] = RR.long_rows(s, reps)
        full[nm] = _arr(recs[nm], (reps, s["inst"], len(s["radix"])), s["dtype"])  # numpy is only a container here
    names = [s["name"] for s in specs]
    any_multi = any(s["inst"] > 1 for s in specs)

    def build(lo, hi):
        arrays = {k: v[lo:hi].copy() for k, v in full.items()}
        if via == "measurements":
            return cirq.ResultDict(measurements={k: v[:, 0, :].copy() for k, v in arrays.items()})
        if via == "custom":
            return _CustomResult(cirq.ParamResolver({}), arrays)
        if via == "engine":
            return cg.EngineResult(job_id="job-7", records=arrays)
        return cirq.ResultDict(records=arrays)

    def same_records(what, obj, n):
        got = obj.records
        if sorted(got.keys()) != sorted(names):
            raise Violation(f"{what}: record keys {sorted(got.keys())} != {sorted(names)}")
        for s in specs:
            g = np.asarray(got[s["name"]])
            shape = (n, s["inst"], len(s["radix"]))
            if tuple(g.shape) != shape:
                raise Violation(f"{what}.records[{s['name']!r}]: shape {tuple(g.shape)} != expected {shape}")
            if not np.array_equal(g.astype(np.int64), full[s["name"]][:n].astype(np.int64)):
                raise Violation(f"{what}.records[{s['name']!r}]: digits differ from the reference decoding")
        if obj.repetitions != n:
            raise Violation(f"{what}: repetitions = {obj.repetitions}, records hold {n}")

    res = build(0, reps)
    W = f"{type(res).__name__}({'measurements' if via == 'measurements' else 'records'}=...) with {reps} repetitions"
    same_records(W, res, reps)
    b_extra = int(r.get("base_extra", 0) or 0)
    tup1 = lambda bits: tuple(int(b) for b in bits)  # noqa
    tupn = lambda t: tuple(tuple(int(b) for b in bits) for bits in t)  # noqa
    mm = []
    for i in r.get("mm", []):
        if specs[int(i) % len(specs)]["name"] not in mm:
            mm.append(specs[int(i) % len(specs)]["name"])
    by = {s["name"]: s for s in specs}
    ref_cache = {}

    def ref(n):
        """Reference counters over rows [0, n), from the pure-Python decoding."""
        if n not in ref_cache:
            d = {}
            for s in specs:
                nm = s["name"]
                b_int = max(s["radix"]) + b_extra
                per_value = {}
                for v, row in zip((x[0] for x in vals[nm][:n]), (x[0] for x in recs[nm][:n])):
                    if v not in per_value:
                        per_value[v] = [0, tuple(row)]
                    per_value[v][0] += 1
                d[nm] = {
                    "mixed": collections.Counter({v: c for v, (c, _) in per_value.items()}),
                    "uniform": collections.Counter(),
                    "tuple": collections.Counter({row: c for _, (c, row) in per_value.items()}),
                    "first": collections.Counter(),
                }
                for v, (c, row) in per_value.items():
                    d[nm]["uniform"][RR.digits_to_int_uniform(row, b_int)] += c
                    d[nm]["first"][row[0]] += c
            ref_cache[n] = d
        return ref_cache[n]

    def aggregate_views(what, obj, n, full_set):
        """Aggregate views of `obj` against the reference rows [0, n)."""
        want_all = ref(n)
        for s in specs:
            nm = s["name"]
            key = _qkey(r, nm)
            w = want_all[nm]
            b_int = max(s["radix"]) + b_extra
            calls = [("histogram(key, fold_base=[per-digit])", dict(key=key, fold_base=list(s["radix"])), w["mixed"]),
                     (f"histogram(key, fold_base={b_int})", dict(key=key, fold_base=b_int), w["uniform"])]
            if s["binary"]:
                calls.insert(0, ("histogram(key)", dict(key=key), w["mixed"]))
            if full_set:
                calls += [("histogram(key, fold_func=tuple)", dict(key=key, fold_func=tup1), w["tuple"]),
                          ("histogram(key, fold_func=first)", dict(key=key, fold_func=FOLDS["first"]), w["first"])]
            for label, kw, want in calls:
                got = obj.histogram(**kw)
                if sum(got.values()) != n:
                    raise Violation(f"{what}.{label}: counts sum to {sum(got.values())}, the result holds {n} repetitions")
                _check_counter(f"{what}.{label}", got, want)
        if full_set:
            want = RR.counter(tuple(tuple(recs[k][rep][0]) for k in mm) for rep in range(n))
            _check_counter(f"{what}.multi_measurement_histogram(keys={mm}, fold_func=tuples)",
                           obj.multi_measurement_histogram(keys=[_qkey(r, k) for k in mm], fold_func=tupn), want)
        if all(by[k]["binary"] for k in mm) and (full_set or len(mm) == 1):
            want = RR.counter(tuple(vals[k][rep][0] for k in mm) for rep in range(n))
            _check_counter(f"{what}.multi_measurement_histogram(keys={mm})",
                           obj.multi_measurement_histogram(keys=[_qkey(r, k) for k in mm]), want)
        df = obj.data
        if list(df.columns) != names or len(df) != n:
            raise Violation(f"{what}.data: columns {list(df.columns)} x {len(df)} rows, expected {names} x {n}")
        for s in specs:
            if not s["binary"]:
                continue
            col = df[s["name"]].tolist()
            want_col = [v[0] for v in vals[s["name"]][:n]]
            if col != want_col or not all(_is_exact_int(x) for x in col[:50]):
                k = next((i for i, (a, b) in enumerate(zip(col, want_col)) if a != b), None)
                raise Violation(f"{what}.data[{s['name']!r}] differs from the big-endian integers of the records (first at row {k})")
            vc = {int(k): int(v) for k, v in df[s["name"]].value_counts().items()}
            if vc != dict(want_all[s["name"]]["mixed"]):
                raise Violation(f"{what}.data[{s['name']!r}].value_counts() differs from the reference counts")

    if not any_multi:
        m = res.measurements
        for s in specs:
            if not np.array_equal(np.asarray(m[s["name"]]).astype(np.int64), full[s["name"]][:, 0, :].astype(np.int64)):
                raise Violation(f"{W}.measurements[{s['name']!r}] differs from records[:, 0, :]")
        aggregate_views(W, res, reps, True)

    # ---- str
    if reps >= 1 and via != "custom":
        got_lines = [ln.replace(" ", "") for ln in str(res).split("\n")]
        if got_lines != [ln.replace(" ", "") for ln in RR.expected_str(specs, recs)]:
            raise Violation(f"str({W}) does not list the recorded digits per key/instance/qubit in repetition order")

    # ---- concatenation at table points, then the aggregate views of the sum and of a prefix
    cuts = sorted({max(0, min(reps, int(x))) for x in (list(r.get("splits", [])) + [0])[:2]})
    bounds = [0] + cuts + [reps]
    total = None
    for lo, hi in zip(bounds, bounds[1:]):
        part = build(lo, hi)
        total = part if total is None else total + part
    WS = f"sum of parts cut at {cuts} of {W}"
    same_records(WS, total, reps)
    if not any_multi:
        aggregate_views(WS, total, reps, False)
        half = bounds[1]
        if 0 < half < reps:
            aggregate_views(f"first part ({half} repetitions) of {W}", build(0, half), half, False)

    # ---- JSON (packed) round trip
    if via != "custom":
        text = cirq.to_json(res)
        back = cirq.read_json(json_text=text)
        same_records(f"JSON round trip of {W}", back, reps)
        if not (back == res):
            raise Violation(f"JSON round trip of {W} is not == the original")
        doc = json.loads(text)
        for s in specs:
            ent = doc["records"][s["name"]]
            if ent["binary"] and ent["packed_digits"] != RR.pack_bits_hex(RR.flatten(recs[s["name"]])):
                raise Violation(f"JSON of {W}: bit-packed digits are not the records in repetition/instance/qubit order")
        if not any_multi:
            aggregate_views(f"JSON round trip of {W}", back, reps, False)

    # ---- a sampler run of the same length
    smp = r.get("sampler", "none")
    if smp in ("zeros", "sim") and reps >= 1:
        qs = cirq.LineQubit.range(2)
        circuit = cirq.Circuit(cirq.X(qs[0]), cirq.measure(*qs, key="m"))
        out = (cirq.ZerosSampler() if smp == "zeros" else cirq.Simulator(seed=1)).run(circuit, repetitions=reps)
        val = 0 if smp == "zeros" else 2
        SWH = f"{smp} sampler run with {reps} repetitions"
        if out.repetitions != reps or tuple(out.records["m"].shape) != (reps, 1, 2):
            raise Violation(f"{SWH}: records shape {tuple(out.records['m'].shape)}")
        for label, got in (("histogram(key)", out.histogram(key="m")), ("histogram(key, fold_base=2)", out.histogram(key="m", fold_base=2)),
                           ("histogram(key, fold_func)", out.histogram(key="m", fold_func=lambda b: int(b[0]) * 2 + int(b[1]))),
                           ("multi_measurement_histogram", collections.Counter({k[0]: v for k, v in out.multi_measurement_histogram(keys=["m"]).items()}))):
            _check_counter(f"{SWH}.{label}", got, collections.Counter({val: reps}))
        if {int(k): int(v) for k, v in out.data["m"].value_counts().items()} != {val: reps}:
            raise Violation(f"{SWH}.data value counts differ from {{{val}: {reps}}}")
    distinct = any(len(ref(reps)[s["name"]]["tuple"]) >= 2 for s in specs) if reps else False
    return {"nontrivial": reps >= 2 and distinct, "reps_gt_50000": reps > 50000, "reps_gt_65536": reps > 65536, "reps_ge_100000": reps >= 100000,
            "reps": reps, "qudit": any(not s["binary"] for s in specs), "multi_instance": any_multi, "via": via, "sampler": smp,
            "sum_of_parts": len(bounds) > 2}


# ======================================================================================= digits


@st.composite
def _digits_case(draw):
    mode = draw(st.sampled_from(["bits", "bits", "mixed", "mixed", "mixed", "uniform", "uniform", "errors"]))
    c = draw(st.integers(0, 9))
    n = draw(st.sampled_from([0, 1, 1, 2, 2, 3, 3, 4, 4, 5, 5, 6, 7, 8])) if c < 6 else draw(st.integers(9, 80))
    if mode == "bits":
        base = [2] * n
    elif mode == "uniform":
        base = [draw(st.sampled_from([2, 2, 3, 4, 5, 7, 10, 16]))] * n
    else:
        base = draw(st.lists(st.integers(1 if draw(st.integers(0, 9)) == 0 else 2, 7), min_size=n, max_size=n))
    P = RR.prod(base)
    val = draw(st.one_of(st.integers(0, max(0, P - 1)), st.sampled_from([0, max(0, P - 1), P // 2])))
    return {
        "mode": mode, "base": base, "val": val, "pad": draw(st.integers(0, 5)), "over": draw(st.integers(0, 3)),
        "neg": draw(st.integers(1, 2 ** 70)), "bad_pos": draw(st.integers(0, 80)), "bad_delta": draw(st.sampled_from([0, 1, 5, -1])),
        "len_delta": draw(st.sampled_from([-1, 1, 2])), "as": draw(st.sampled_from(["list", "tuple", "numpy", "iter", "bool"])),
    }


def _expect_value_error(what, fn):
    try:
        out = fn()
    except ValueError:
        return
    raise Violation(f"{what}: no ValueError (returned {str(out)[:60]})")


@_bucketed
def oracle_digits(r):
    base = [max(1, min(16, int(b))) for b in r["base"]]
    n = len(base)
    P = RR.prod(base)
    val = abs(int(r["val"])) % P
    digs = RR.int_to_digits(val, base)
    assert RR.digits_to_int(digs, base) == val
    mode = r["mode"]
    form = r.get("as", "list")
    if form == "numpy" and P > 2 ** 62:
        form = "list"  # the functions are typed Iterable[int]; numpy scalars beyond int64 are not ints

    def shaped(seq):
        if form == "tuple":
            return tuple(seq)
        if form == "numpy":
            return np.array(seq, dtype=np.int64)
        if form == "iter":
            return iter(list(seq))
        return list(seq)

    uniform = len(set(base)) <= 1 and n > 0
    if all(b == 2 for b in base):
        bits_in = [bool(d) for d in digs] if form == "bool" else shaped(digs)
        got = cirq.big_endian_bits_to_int(bits_in)
        if got != val or not isinstance(got, int):
            raise Violation(f"big_endian_bits_to_int of {n} bits = {got!r}, expected {val}")
        got = cirq.big_endian_int_to_bits(val, bit_count=n)
        if list(got) != digs:
            raise Violation(f"big_endian_int_to_bits({val}, bit_count={n}) is not the inverse of big_endian_bits_to_int")
        pad = int(r.get("pad", 0))
        got = cirq.big_endian_int_to_bits(val, bit_count=n + pad)
        if list(got) != [0] * pad + digs:
            raise Violation(f"big_endian_int_to_bits with bit_count {n}+{pad} does not left-pad with zeros")
        # documented: larger values drop high bits; negative values use two's complement
        big = val + int(r.get("over", 0)) * 2 ** n
        if list(cirq.big_endian_int_to_bits(big, bit_count=n)) != digs:
            raise Violation(f"big_endian_int_to_bits({big}, bit_count={n}) does not drop the high bits")
        neg = -abs(int(r.get("neg", 1)))
        want = RR.int_to_digits(neg % 2 ** n, [2] * n)
        if list(cirq.big_endian_int_to_bits(neg, bit_count=n)) != want:
            raise Violation(f"big_endian_int_to_bits({neg}, bit_count={n}) is not the two's complement representation")
    # digits <-> int with per-digit bases
    if all(b >= 2 for b in base) or mode != "errors":
        got = cirq.big_endian_digits_to_int(shaped(digs), base=shaped(base) if form != "iter" else list(base))
        if got != val:
            raise Violation(f"big_endian_digits_to_int(base per digit, {n} digits) = {got}, expected {val}")
        got = cirq.big_endian_int_to_digits(val, base=shaped(base))
        if [int(x) for x in got] != digs:
            raise Violation(f"big_endian_int_to_digits({val}, base=per-digit list of {n}) is not the inverse of big_endian_digits_to_int")
        got = cirq.big_endian_int_to_digits(val, digit_count=n, base=list(base))
        if [int(x) for x in got] != digs:
            raise Violation(f"big_endian_int_to_digits({val}, digit_count={n}, base=list) differs from the form without digit_count")
    if uniform:
        b = base[0]
        got = cirq.big_endian_digits_to_int(shaped(digs), base=b)
        if got != val:
            raise Violation(f"big_endian_digits_to_int(base={b}, {n} digits) = {got}, expected {val}")
        pad = int(r.get("pad", 0))
        got = cirq.big_endian_int_to_digits(val, digit_count=n + pad, base=b)
        if [int(x) for x in got] != [0] * pad + digs:
            raise Violation(f"big_endian_int_to_digits({val}, digit_count={n}+{pad}, base={b}) != zero-padded digits")
        if cirq.big_endian_digits_to_int([0] * pad + digs, base=b) != val:
            raise Violation(f"big_endian_digits_to_int ignores leading zeros wrongly (base={b})")
    # documented errors
    if n > 0 and all(b >= 1 for b in base):
        pos = int(r.get("bad_pos", 0)) % n
        bad = list(digs)
        bad[pos] = base[pos] + max(0, int(r.get("bad_delta", 0))) if int(r.get("bad_delta", 0)) >= 0 else -1
        _expect_value_error(f"big_endian_digits_to_int with digit {bad[pos]} for base {base[pos]}",
                            lambda: cirq.big_endian_digits_to_int(bad, base=list(base)))
        if uniform:
            _expect_value_error(f"big_endian_digits_to_int with digit {bad[pos]} for base={base[0]}",
                                lambda: cirq.big_endian_digits_to_int(bad, base=base[0]))
    ld = int(r.get("len_delta", 1)) or 1
    if n + ld >= 0:
        other = (list(base) + [2, 2])[: n + ld]
        _expect_value_error("big_endian_digits_to_int with len(digits) != len(base)",
                            lambda: cirq.big_endian_digits_to_int(digs, base=other))
        _expect_value_error("big_endian_int_to_digits with digit_count != len(base)",
                            lambda: cirq.big_endian_int_to_digits(val, digit_count=n + ld, base=list(base)))
    _expect_value_error("big_endian_int_to_digits(base=int) without digit_count",
                        lambda: cirq.big_endian_int_to_digits(val, base=base[0] if base else 3))
    # out of range value ("must be less than the maximum representable value"): the long division leaves a rest
    over = P * (1 + int(r.get("over", 0))) + val
    _expect_value_error(f"big_endian_int_to_digits of a value >= the product of {n} bases",
                        lambda: cirq.big_endian_int_to_digits(over, base=list(base)))
    if uniform:
        _expect_value_error(f"big_endian_int_to_digits of a value >= {base[0]}**{n}",
                            lambda: cirq.big_endian_int_to_digits(over, digit_count=n, base=base[0]))
    return {"nontrivial": n >= 2 and digs != digs[::-1], "mixed": len(set(base)) > 1, "gt64bits": P > 2 ** 64, "mode": mode,
            "empty": n == 0, "has_base1": any(b == 1 for b in base)}


# ======================================================================================= classical data store


@st.composite
def _store_case(draw):
    nk = draw(st.integers(1, 3))
    shapes = [draw(st.lists(st.integers(2, 5), min_size=1, max_size=draw(st.sampled_from([1, 2, 3, 8, 40, 66])))) for _ in range(nk)]
    acts = []
    for _ in range(draw(st.integers(1, 8))):
        k = draw(st.integers(0, nk - 1))
        kind = draw(st.sampled_from(["rec", "rec", "rec", "chan", "copy", "bad_shape", "bad_len", "oob"]))
        acts.append([kind, k, draw(st.integers(0, RR.prod(shapes[k]) - 1)), draw(st.integers(-4, 4))])
    return {"shapes": shapes, "acts": acts, "channel_keys": draw(st.integers(0, 1))}


@_bucketed
def oracle_store(r):
    shapes = [RR.clean_radix(s) for s in r["shapes"] if s]
    if not shapes:
        raise Reject("no keys")
    nk = len(shapes)
    keys = [cirq.MeasurementKey(f"k{i}") for i in range(nk)] + [cirq.MeasurementKey("ch")]
    qids = [[cirq.LineQid(10 * i + j, d) for j, d in enumerate(s)] for i, s in enumerate(shapes)]
    store = cirq.ClassicalDataDictionaryStore()
    model = {}  # key index -> list of digit tuples ; 'ch' -> list of ints
    order = []
    snapshots = []
    n_rec = 0

    def check(store, model, order, what):
        if list(store.keys()) != [keys[i] for i in order]:
            raise Violation(f"{what}: keys() {store.keys()} not in first-use order {[str(keys[i]) for i in order]}")
        for i in order:
            recs = model[i]
            if i == nk:
                if list(store.channel_records[keys[i]]) != recs:
                    raise Violation(f"{what}: channel_records differ from what was recorded")
                for idx in (-1, 0):
                    if store.get_int(keys[i], idx) != recs[idx] or tuple(store.get_digits(keys[i], idx)) != (recs[idx],):
                        raise Violation(f"{what}: get_int/get_digits of channel record [{idx}] differ from what was recorded")
                continue
            if [tuple(x) for x in store.records[keys[i]]] != recs:
                raise Violation(f"{what}: records differ from what was recorded (key k{i}: {len(store.records[keys[i]])} vs {len(recs)} entries)")
            for idx in sorted({-1, 0, len(recs) - 1, -len(recs)}):
                if tuple(store.get_digits(keys[i], idx)) != recs[idx]:
                    raise Violation(f"{what}: get_digits(k{i}, {idx}) differs from record")
                got = store.get_int(keys[i], idx)
                want = RR.digits_to_int(recs[idx], shapes[i])
                if got != want:
                    raise Violation(f"{what}: get_int(k{i}, {idx}) = {got}, big-endian mixed-radix value of digits over dims is {want}")

    for a in r["acts"]:
        kind, k, v, idx = a[0], int(a[1]) % nk, abs(int(a[2])), int(a[3])
        if kind == "rec":
            d = tuple(RR.int_to_digits(v % RR.prod(shapes[k]), shapes[k]))
            store.record_measurement(keys[k], d, qids[k])
            if k not in model:
                model[k] = []
                order.append(k)
            model[k].append(d)
            n_rec += 1
        elif kind == "chan":
            store.record_channel_measurement(keys[nk], v)
            if nk not in model:
                model[nk] = []
                order.append(nk)
            model[nk].append(v)
        elif kind == "copy":
            snapshots.append(1)
            check(store.copy(), model, order, "copy()")
        elif kind == "bad_shape" and k in model:
            other = [cirq.LineQid(900 + j, d + 1) for j, d in enumerate(shapes[k])]
            _expect_value_error("record_measurement with a different qid shape for a used key",
                                lambda: store.record_measurement(keys[k], (0,) * len(shapes[k]), other))
        elif kind == "bad_len":
            _expect_value_error("record_measurement with len(measurement) != len(qubits)",
                                lambda: store.record_measurement(keys[k], (0,) * (len(shapes[k]) + 1), qids[k]))
        elif kind == "oob" and k in model:
            bad = len(model[k]) + abs(idx)
            for fn, nm in ((store.get_int, "get_int"), (store.get_digits, "get_digits")):
                try:
                    fn(keys[k], bad)
                except LookupError:
                    pass
                else:
                    raise Violation(f"ClassicalDataDictionaryStore.{nm} with an out-of-bounds index answered")
        check(store, model, order, f"after {kind}")
    try:
        store.get_int(cirq.MeasurementKey("unused"))
    except KeyError:
        pass
    else:
        raise Violation("get_int of an unused key answered")
    back = cirq.read_json(json_text=cirq.to_json(store))
    check(back, model, order, "JSON round trip")
    return {"nontrivial": n_rec >= 2 and any(len(set(s)) > 1 for s in shapes), "copied": bool(snapshots),
            "wide": any(RR.prod(s) > 2 ** 64 for s in shapes)}


# ======================================================================================= samplers

SAMPLERS = ["sweep", "sweep", "sweep_async", "sweep_async", "zeros", "sim", "sim", "dm", "dm", "validating", "validating_async", "processor", "processor"]


@st.composite
def _program(draw, sim, syms, idx):
    nk = draw(st.integers(1, 3))
    names = list(draw(st.permutations(["m", "k", "out", "z9"])))[:nk]
    keys = []
    for nm in names:
        if sim:
            w = draw(st.integers(1, 2))
        else:
            w = draw(st.sampled_from([1, 2, 3, 3, 5, 9, 40, 64, 66, 70]))
        qudit = draw(st.integers(0, 3)) == 0
        radix = draw(st.lists(st.integers(2, 4), min_size=w, max_size=w)) if qudit else [2] * w
        keys.append({"name": nm, "radix": radix})
    steps = []
    for _ in range(draw(st.integers(nk, nk + 4))):
        k = draw(st.integers(0, nk - 1))
        if draw(st.integers(0, 2)) == 0:
            steps.append(["m", k])
        else:
            amt = draw(st.sampled_from([0, 1, 1, 2] + list(syms)))
            steps.append(["x", k, draw(st.integers(0, 69)), amt])
    for k in draw(st.permutations(list(range(nk)))):  # every key measured at least once
        if not any(s[0] == "m" and s[1] == k for s in steps):
            steps.append(["m", k])
    if draw(st.integers(0, 1)) == 0:  # keep most programs single-instance so that flattened views apply
        seen = set()
        out = []
        for s in reversed(steps):
            if s[0] == "m":
                if s[1] in seen:
                    continue
                seen.add(s[1])
            out.append(s)
        steps = out[::-1]
    return {"keys": keys, "steps": steps}


@st.composite
def _sampler_case(draw):
    kind = draw(st.sampled_from(SAMPLERS))
    sim = kind in ("sim", "dm")
    syms = draw(st.sampled_from([[], ["a"], ["a", "b"], ["a", "b"], ["b", "a"], ["a", "b", "c"], ["c", "a", "b"]]))
    values = [0, 1] if sim else [0, 1, 1, 0.5, 2, -1, 1.0, 3.25]
    nprog = draw(st.integers(1, 3))
    progs = [draw(_program(sim, syms, i)) for i in range(nprog)]
    sweeps = [draw(SW.sweepables(syms, values, allow_subset=not sim)) for _ in range(nprog)]
    if draw(st.integers(0, 3)) <= (1 if kind == "processor" else 0):
        sweeps = [sweeps[0]] * nprog  # lets ProcessorSampler batch
    reps_kind = draw(st.sampled_from(["int", "list", "list"]))
    reps = [draw(st.sampled_from([0, 1, 2, 3, 5])) for _ in range(nprog)]
    if reps_kind == "int" or draw(st.integers(0, 5)) <= (2 if kind == "processor" else 0):
        reps = [reps[0]] * nprog
    return {
        "kind": kind, "syms": syms, "progs": progs, "sweeps": sweeps, "reps": reps, "reps_kind": reps_kind,
        "params_none": draw(st.integers(0, 3)) == 0, "jobs_per_batch": draw(st.sampled_from([1, 2, 2, 3])),
        "bad_batch": draw(st.sampled_from(["none", "none", "params", "reps"])), "mapping_programs": draw(st.booleans()),
    }


def _orders(node):
    """Key orders of the elements of a sweepable tree (as written by the user)."""
    k = node["k"]
    if k == "list":
        return [o for s in node["subs"] for o in _orders(s)]
    if k in ("dict", "res", "dol"):
        return [[it[0] for it in node.get("items") or []]]
    if k == "ls":
        return [[it[0] for it in p] for p in node["pts"]]
    if k in ("none", "unit", "empty"):
        return [[]]
    return [SW.keys_of(node)]


def _norm_prog(p):
    keys = []
    for k in p["keys"]:
        if k.get("radix"):
            keys.append({"name": k["name"], "radix": [min(4, max(2, int(x))) for x in k["radix"]]})
    if not keys or len({k["name"] for k in keys}) != len(keys):
        raise Reject("malformed program")
    steps = [s for s in p["steps"] if len(s) >= 2 and 0 <= int(s[1]) < len(keys) and (s[0] == "m" or len(s) == 4)]
    for i in range(len(keys)):
        if not any(s[0] == "m" and int(s[1]) == i for s in steps):
            steps.append(["m", i])
    return keys, steps


def _interpret(keys, steps, params):
    """Classical interpreter of a deterministic program -> per key list of instance digit lists."""
    state = [[0] * len(k["radix"]) for k in keys]
    out = {k["name"]: [] for k in keys}
    for s in steps:
        k = int(s[1])
        if s[0] == "m":
            out[keys[k]["name"]].append(list(state[k]))
        else:
            q = int(s[2]) % len(keys[k]["radix"])
            amt = params[s[3]] if isinstance(s[3], str) else int(s[3])
            if amt != int(amt):
                raise Reject("non-integer exponent in a deterministic program")
            state[k][q] = (state[k][q] + int(amt)) % keys[k]["radix"][q]
    return out


def _df_rows(df):
    return [[df.iloc[i][c] for c in df.columns] for i in range(len(df))]


@_bucketed
def oracle_samplers(r):
    kind = r["kind"]
    sim = kind in ("sim", "dm")
    syms = [s for s in r.get("syms", []) if s in ("a", "b", "c")]
    syms = list(dict.fromkeys(syms))
    progs = [_norm_prog(p) for p in r["progs"]]
    if not progs:
        raise Reject("no programs")
    n = len(progs)
    sweeps = (list(r["sweeps"]) + [r["sweeps"][-1]] * n)[:n] if r.get("sweeps") else [{"k": "none"}] * n
    sweeps = [SW.upgrade(sw, syms) for sw in sweeps]
    for sw in sweeps:
        SW.validate(sw)
    reps = ([max(0, min(5, int(x))) for x in r["reps"]] + [1] * n)[:n]
    if r.get("reps_kind") == "int":
        reps = [reps[0]] * n
    if sim and any(isinstance(s[3], str) and s[3] not in syms for _, st_ in progs for s in st_ if s[0] == "x"):
        raise Reject("unresolved symbol")
    if sim and sum(len(k["radix"]) for ks, _ in progs for k in ks) > 14:
        raise Reject("too large for a simulator")
    circuits = [HS.build_circuit(keys, steps, syms) for keys, steps in progs]
    shapes = []
    for keys, steps in progs:
        cnt = {}
        for s in steps:
            if s[0] == "m":
                cnt[int(s[1])] = cnt.get(int(s[1]), 0) + 1
        shapes.append([(keys[i]["name"], cnt[i], keys[i]["radix"]) for i in sorted(cnt, key=lambda i: next(j for j, s in enumerate(steps) if s[0] == "m" and int(s[1]) == i))])
    expected_resolvers = [SW.expand(sw) for sw in sweeps]
    units = [SW.sweep_units(sw) for sw in sweeps]
    no_params = all(not p for ps in expected_resolvers for p in ps)
    for i, ps in enumerate(expected_resolvers):
        used = {s[3] for s in progs[i][1] if s[0] == "x" and isinstance(s[3], str)}
        for p in ps:
            if sim and (any(v not in (0, 1) for v in p.values()) or not used <= set(p)):
                raise Reject("simulator programs take 0/1 parameters for every symbol they use")

    log = HS.Log({id(c): i for i, c in enumerate(circuits)})
    sampler, inner = HS.make_sampler(kind, log, int(r.get("jobs_per_batch", 1)))

    def expected(i, params, nreps):
        if kind == "zeros":
            return {key: [[[0] * len(radix) for _ in range(ninst)] for _ in range(nreps)] for key, ninst, radix in shapes[i]}
        if sim:
            inst = _interpret(progs[i][0], progs[i][1], params)
            if nreps == 0:
                return {key: [] for key, _, _ in shapes[i]}
            return {key: [inst[key] for _ in range(nreps)] for key, _, _ in shapes[i]}
        return RR.fake_records(i, shapes[i], params, nreps)

    def check_result(what, res, i, params, nreps):
        if not isinstance(res, cirq.Result):
            raise Violation(f"{what}: returned {type(res).__name__}, not a cirq.Result")
        if res.params != cirq.ParamResolver(params):
            raise Violation(f"{what}: result carries params {dict(res.params.param_dict)} expected {params}")
        exp = expected(i, params, nreps)
        if sorted(res.records.keys()) != sorted(exp):
            raise Violation(f"{what}: record keys {sorted(res.records.keys())} != {sorted(exp)}")
        for key, ninst, radix in shapes[i]:
            shape = (nreps, ninst, len(radix))
            if sim and nreps == 0 and tuple(res.records[key].shape) != shape:
                raise Violation(f"{what}: records[{key!r}].shape = {tuple(res.records[key].shape)} for 0 repetitions of a key measured "
                                f"{ninst}x on {len(radix)} qubits; documented layout (repetitions, instances, qubits) = {shape}")
            _same_array(f"{what}: records[{key!r}]", res.records[key], exp[key], shape)
        if res.repetitions != nreps:
            raise Violation(f"{what}: result.repetitions = {res.repetitions}, asked for {nreps}")

    def check_sweep(what, results, i, nreps, resolvers=None):
        resolvers = expected_resolvers[i] if resolvers is None else resolvers
        results = list(results)
        if len(results) != len(resolvers):
            raise Violation(f"{what}: {len(results)} results for {len(resolvers)} parameter assignments")
        for j, (res, p) in enumerate(zip(results, resolvers)):
            check_result(f"{what}[{j}]", res, i, p, nreps)

    def check_log(what, want):
        got = log.take()
        if inner is None:
            return
        if kind.startswith("validating"):  # every delegated run is preceded by one validation of exactly its arguments
            want = [y for x in want for y in (("validate", x[1], [x[2]], x[3]), x)]
        if got != want:
            raise Violation(f"{what}: underlying runs observed by the harness sampler {HS.fmt(got)} != documented {HS.fmt(want)}")

    labels = {"kind": kind, "nprog": n}
    flat_ok = [all(ninst == 1 for _, ninst, _ in sh) for sh in shapes]
    und = HS.UNDERLYING[kind]

    # ---- run_sweep / run_sweep_async / run / run_async per program
    for i, c in enumerate(circuits):
        sw = SW.build(sweeps[i])
        log.take()
        check_sweep(f"{kind}.run_sweep(program {i})", sampler.run_sweep(c, sw, reps[i]), i, reps[i])
        check_log(f"{kind}.run_sweep(program {i})", [(und, [i], expected_resolvers[i], reps[i])])
        check_sweep(f"{kind}.run_sweep_async(program {i})", duet.run(sampler.run_sweep_async, c, sw, reps[i]), i, reps[i])
        check_log(f"{kind}.run_sweep_async(program {i})", [(und, [i], expected_resolvers[i], reps[i])])
        p0 = expected_resolvers[i][0]
        for form, arg in (("dict", dict(p0)), ("ParamResolver", cirq.ParamResolver(dict(p0)))) + ((("None", None),) if no_params else ()):
            check_result(f"{kind}.run(program {i}, {form})", sampler.run(c, arg, reps[i]), i, p0, reps[i])
            check_log(f"{kind}.run(program {i}, {form})", [(und, [i], [p0], reps[i])])
        check_result(f"{kind}.run_async(program {i})", duet.run(sampler.run_async, c, cirq.ParamResolver(dict(p0)), reps[i]), i, p0, reps[i])
        check_log(f"{kind}.run_async(program {i})", [(und, [i], [p0], reps[i])])
        if no_params:
            check_result(f"{kind}.run(program {i}) default repetitions", sampler.run(c), i, {}, 1)
            log.take()

    # ---- sample
    n_sample = 0
    for i, c in enumerate(circuits):
        sw = SW.build(sweeps[i])
        if not flat_ok[i]:
            if kind in ("sweep", "sweep_async", "zeros") and reps[i] > 0:
                try:
                    sampler.sample(c, repetitions=reps[i], params=sw)
                except ValueError:
                    pass
                else:
                    raise Violation(f"{kind}.sample of a program with a repeated key returned a frame")
            log.take()
            continue
        keysets = [set(p) for u in units[i] for p in u]
        if any(ks != keysets[0] for ks in keysets):
            # documented: "ValueError: If a supplied sweep is invalid" (sweeps of one call must assign the same parameters)
            _expect_value_error(f"{kind}.sample(program {i}) with sweeps assigning different parameter sets",
                                lambda: sampler.sample(c, repetitions=reps[i], params=sw))
            labels["sample_inconsistent_keys"] = True
            log.take()
            continue
        log.take()
        df = sampler.sample(c, repetitions=reps[i], params=sw)
        got_log = log.take()
        n_sample += 1
        keys_in_order = [key for key, _, _ in shapes[i]]
        pcols = sorted(keysets[0])
        if sorted(df.columns) != sorted(pcols + keys_in_order) or list(df.columns)[: len(pcols)] != pcols:
            raise Violation(f"{kind}.sample(program {i}): columns {list(df.columns)} != parameters {pcols} then keys {keys_in_order}")
        want_rows = []
        want_index = []
        for p in expected_resolvers[i]:
            exp = expected(i, p, reps[i])
            for rep in range(reps[i]):
                want_rows.append((p, {key: exp[key][rep][0] for key in keys_in_order}))
                want_index.append(rep)
        if len(df) != len(want_rows):
            raise Violation(f"{kind}.sample(program {i}): {len(df)} rows for {len(expected_resolvers[i])} assignments x {reps[i]} repetitions")
        if [int(x) for x in df.index] != want_index:
            raise Violation(f"{kind}.sample(program {i}): index {list(df.index)[:8]} is not the repetition number per assignment")
        radix_of = {key: radix for key, _, radix in shapes[i]}
        for row_i, (p, digs) in enumerate(want_rows):
            for s in pcols:
                if df[s].iloc[row_i] != p[s]:
                    raise Violation(f"{kind}.sample(program {i}) row {row_i}: parameter column {s} = {df[s].iloc[row_i]!r}, the run that produced "
                                    f"the row used {s}={p[s]!r}\n  params={SW.describe(sweeps[i])} assignments={expected_resolvers[i]}")
            for key in keys_in_order:
                if any(x != 2 for x in radix_of[key]):
                    continue
                want = RR.digits_to_int(digs[key], radix_of[key])
                x = df[key].iloc[row_i]
                if not _is_exact_int(x) or int(x) != want:
                    raise Violation(f"{kind}.sample(program {i}) row {row_i} key {key!r} = {x!r}; run_sweep result of that assignment/"
                                    f"repetition holds big-endian {want} ({len(digs[key])} bits)")
        if inner is not None:
            runs = [x for x in got_log if x[0] == und]
            flat = [p for x in runs for p in x[2]]
            if flat != expected_resolvers[i] or any(x[1] != [i] or x[3] != reps[i] for x in runs):
                raise Violation(f"{kind}.sample(program {i}): underlying runs {HS.fmt(got_log)} do not sample each assignment "
                                f"{reps[i]} times in sweep order")

    # ---- run_batch / run_batch_async
    params_list = [SW.build(sw) for sw in sweeps]
    use_none = bool(r.get("params_none")) and no_params
    exp_res = [[{}] for _ in range(n)] if use_none else expected_resolvers
    reps_arg = reps[0] if r.get("reps_kind") == "int" else list(reps)
    for label, call in (("run_batch", lambda *a: sampler.run_batch(*a)), ("run_batch_async", lambda *a: duet.run(sampler.run_batch_async, *a))):
        log.take()
        out = call(circuits, None if use_none else params_list, reps_arg)
        got_log = log.take()
        if len(out) != n:
            raise Violation(f"{kind}.{label}: {len(out)} result lists for {n} programs")
        for i in range(n):
            check_sweep(f"{kind}.{label}[{i}] (repetitions={reps_arg})", out[i], i, reps[i], exp_res[i])
        if inner is not None:
            want = [(und, [i], exp_res[i], reps[i]) for i in range(n)]
            runs = [x for x in got_log if x[0] == und]
            if kind.startswith("processor") and int(r.get("jobs_per_batch", 1)) > 1:
                # batching allowed: every program exactly once, in order, with its own sweep and repetitions
                flat = [(und, [pi], x[2], x[3]) for x in runs for pi in x[1]]
                if flat != want:
                    raise Violation(f"{kind}.{label}: processor saw {HS.fmt(runs)}; expected each program once with its sweep: {HS.fmt(want)}")
                labels["batched"] = any(len(x[1]) > 1 for x in runs)
            elif runs != want:
                raise Violation(f"{kind}.{label}: underlying runs {HS.fmt(runs)} != documented {HS.fmt(want)}")
            if kind.startswith("validating"):
                v = [x for x in got_log if x[0] == "validate"]
                wantv = [("validate", list(range(n)), exp_res, list(reps))]
                if v != wantv:
                    raise Violation(f"{kind}.{label}: validator saw {HS.fmt(v)}, expected one call with all programs, sweeps and "
                                    f"per-program repetitions {HS.fmt(wantv)}")
    if kind == "processor" and r.get("mapping_programs"):
        out = sampler.run_batch({f"p{i}": c for i, c in enumerate(circuits)}, None if use_none else params_list, reps_arg)
        log.take()
        if len(out) != n:
            raise Violation(f"processor.run_batch(mapping): {len(out)} result lists for {n} programs")
        for i in range(n):
            check_sweep(f"processor.run_batch(mapping)[{i}]", out[i], i, reps[i], exp_res[i])
    # documented ValueErrors of run_batch
    bad = r.get("bad_batch", "none")
    if bad == "params":
        _expect_value_error(f"{kind}.run_batch with len(params_list) != len(programs)",
                            lambda: sampler.run_batch(circuits, params_list + [params_list[0]], reps[0]))
    elif bad == "reps":
        _expect_value_error(f"{kind}.run_batch with len(repetitions) != len(programs)",
                            lambda: sampler.run_batch(circuits, params_list, list(reps) + [1]))
    log.take()

    total_res = sum(len(x) for x in expected_resolvers)
    labels.update({
        "nontrivial": bool(total_res >= 2 and (n >= 2 or any(len(x) >= 2 for x in expected_resolvers)) and any(reps)),
        "wide_gt64": any(len(radix) > 64 for sh in shapes for _, _, radix in sh),
        "qudit": any(x != 2 for sh in shapes for _, _, radix in sh for x in radix),
        "zero_reps": any(x == 0 for x in reps), "multi_instance": any(not f for f in flat_ok),
        "per_program_reps": len(set(reps)) > 1, "multi_resolver": any(len(x) >= 2 for x in expected_resolvers),
        "sampled": n_sample > 0, "symbols": len(syms),
        "multi_sweep": any(len(u) >= 2 for u in units),
        "key_order_varies": any(len({tuple(o) for o in _orders(sw)}) >= 2 for sw in sweeps),
        "order_varies_multi_sweep_2params": any(
            len(u) >= 2 and len({tuple(o) for o in _orders(sw) if len(o) >= 2}) >= 2 for u, sw in zip(units, sweeps)),
        "mixed_value_types": any(len({type(v).__name__ for p in ps for v in p.values()}) >= 2 for ps in expected_resolvers),
    })
    return labels


def oracle_abstract(r):
    """A Sampler subclass that implements only run_async (or nothing) cannot be instantiated; one of run_sweep /
    run_sweep_async is required (ABCMetaImplementAnyOneOf)."""
    for cls in (HS.RunAsyncOnly, HS.Nothing):
        try:
            cls()
        except TypeError:
            continue
        raise Violation(f"cirq.Sampler subclass {cls.__name__} implementing neither run_sweep nor run_sweep_async was instantiated")
    return {"nontrivial": False}


KNOWN_FEATURES = {}  # F18a/b/e/f were repaired by fix: commits; their recipes are replayed from known_findings.json


def uncovered():
    return [
        "default (base-2) data frame / default histogram of qudit digits: a Result does not know qid shapes, docstrings speak of bits",
        "Simulator / DensityMatrixSimulator only with deterministic circuits (outcome statistics belong to C02)",
        "ProcessorSampler only over a duck-typed fake processor (no EngineJob / streaming; C16/C17 cover the engine side)",
        "a Sampler implementing only run_async cannot exist (ABCMetaImplementAnyOneOf): instantiation is checked to fail instead",
        "google bit-packed result protos (C16) and repr() round trips (C11) are left to their owners",
    ]


SUBCHECKS = [
    SubCheck("records", _records_case(), oracle_records, quick=4600, thorough=240000, shards_quick=8, shards_thorough=16,
             essential={"wide_gt64": 0.1, "qudit": 0.2, "zero_reps": 0.04, "multi_instance": 0.08, "int_overflows_int64": 0.05}),
    SubCheck("long", _long_case(), oracle_long, quick=24, thorough=1500, shards_quick=3, shards_thorough=16,
             essential={"reps_gt_50000": 0.2, "reps_ge_100000": 0.05}),
    SubCheck("digits", _digits_case(), oracle_digits, quick=4000, thorough=300000, shards_quick=4, shards_thorough=8,
             essential={"mixed": 0.2, "gt64bits": 0.1}),
    SubCheck("store", _store_case(), oracle_store, quick=1200, thorough=80000, shards_quick=2, shards_thorough=8),
    SubCheck("samplers", _sampler_case(), oracle_samplers, quick=1440, thorough=100000, shards_quick=6, shards_thorough=16,
             essential={"multi_resolver": 0.2, "per_program_reps": 0.1, "qudit": 0.1}),
    SubCheck("abstract", None, oracle_abstract, enumerate=lambda tier: [{}], exhaustive_in=("quick", "thorough"), shards_quick=1,
             shards_thorough=1),
]
