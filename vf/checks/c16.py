"""C16 — Google wire formats round-trip programs, sweeps, results and devices."""
from __future__ import annotations

import gzip
import itertools
import math

import numpy as np
import sympy
import tunits
from hypothesis import strategies as st

import cirq
import cirq_google as cg
from cirq_google.api import v1, v2
from cirq_google.api.v2 import device_pb2, program_pb2, result_pb2, run_context_pb2
from cirq_google.experimental.ops import CouplerPulse
from cirq_google.ops import DynamicalDecouplingTag
from cirq_google.serialization import arg_func_langs as AFL
from vf.core import Reject, SubCheck, Violation
from vf.gen import c16_gen as G
from vf.ref import c16_ref as R

RULE = (
    "programs: Hypothesis draws a qubit pool (Grid/Line/Named), an operation pool over the vocabulary of "
    "CircuitSerializer._serialize_gate_op (numeric, symbolic and expression arguments, tags, classical controls, "
    "InternalGate args), variants of pool ops that differ only in a tag or in the qubits, sub-circuits + CircuitOperations "
    "with every field of the proto, a moment pool (incl. moments equal up to tags) and a circuit as a *sequence of pool "
    "indices*, so equal ops / tags / moments recur; constants collide ACROSS KINDS: raw string tags spelling qubit proto ids "
    "(tag serialized before and after the qubit, on ops / moments / circuits), measurement keys, symbol, gate and tag names, "
    "NamedQubits named like symbols/keys/tags, tags equal across types (1 / 1.0 / True / '1'). Non-trivial program: >=1 constant referenced twice and >=1 symbolic "
    "argument. sweeps: nested Zip/Product/Concat/ZipLongest/ListSweep/Linspace/Points/const/FiniteRandomVariable over "
    "disjoint keys with metadata and tunits values whose start/stop/points use DIFFERENT units of one dimension (ns/us/ms, "
    "kHz/MHz/GHz, mV/V; reference enumerates in the start's / first point's unit), float32 and float64; non-trivial: nesting depth>=2. results: drawn records for 1-12 keys, "
    "repetitions 0..70, instances 1-3, permuted qubit order; non-trivial: repetitions*instances % 8 != 0. devices: drawn "
    "DeviceSpecification (valid and each documented invalid form) + probe operations. Distinct = distinct recipe hash."
)
ASSUMPTIONS = [
    "protobuf itself (field storage, float32 narrowing by numpy) is trusted; np.float32(x) is the reference rounding",
    "real arguments are compared exactly after float32 rounding; expressions by free symbols + value at 3 generic points "
    "(own evaluator with float32 constants, rel. tol 1e-9)",
    "tag order on an operation and operation order inside a moment are not part of the comparison (DESIGN trap list)",
    "InternalGate.gate_module None and '' are treated as the same 'unspecified' value; empty dict == None for AnalogDetuneQubit dicts",
    "byte idempotence is demanded from the 2nd serialization on (the first deserialization may move circuit ops to the front of a moment)",
]
SENSITIVITY = [
    "constants lookup keyed without tags",
    "multi-program forgets shared constants between circuits (duplicate table entries)",
    "sub-circuit constant looked up without its tags",
    "only the first tag of a moment is read back",
    "RandomGateChannel probability written as its complement",
    "WaitGate on more than two qubits loses a qubit count",
    "use_repetition_ids forced on when repetition ids are given",
    "CircuitOperation parameter values above 1 truncated to integers",
    "negative number inside an expression loses its sign",
    "bitmask condition index not written",
    "key condition path dropped",
    "measurement key path reversed",
    "set read back as frozenset",
    "list mixing ints and floats no longer a double list",
    "results_from_proto ignores the requested qubit order",
    "find_measurements ignores differing invert masks of a repeated key",
    "Zip drops sweeps beyond the second",
    "float64 request ignored when repetitions is a sequence",
    "non-symmetric two-element targets become qubit pairs",
    "qubit pair check skipped for one qubit order",
    "v1 product factors written in reverse order when there are three",
    "v1 unpack_results uses the wrong key offset",
    "[also caught by repo tests] tag constant index off by one when a tag is reused",
    "[also caught by repo tests] pack_bits pads at the front",
    "[also caught by repo tests] Product factors read back in reverse order when there are three",
]

S = cg.CIRCUIT_SERIALIZER

# Defects found on the unchanged tree (see /verif/findings/C16.json).  F16b/c/d/e/g/j/k/l were repaired in /repo (fix: commits
# cf9bfbb 1e72958 cd616b4 828c1fe e402856 3cdea5d 5716225 3b660c6 297749d) and are generated and checked like everything else.
# F16a/f/h/i were classified KNOWN: the framework excludes cases matching the KNOWN_FEATURES predicates below from generation
# and reports the stored recipes as KNOWN-FINDING lines.


def _bytes(p):
    return p.SerializeToString(deterministic=True)


# ========================================================================================== comparison helpers


def _is_num(x):
    return isinstance(x, (int, float, np.integer, np.floating, sympy.Number)) and not isinstance(x, bool)


def _cmp_farg(what, got, orig):
    """A FloatArg-like value: number (float32 rounded) or sympy expression."""
    if _is_num(orig):
        if not _is_num(got):
            raise Violation(f"{what}: number {orig!r} came back as {type(got).__name__} {got!r}")
        if not R.same_real(got, orig):
            raise Violation(f"{what}: {float(orig)!r} came back as {float(got)!r}, float32 rounding gives {R.f32(orig)!r}")
        return
    if isinstance(orig, sympy.Basic):
        if not isinstance(got, sympy.Basic):
            raise Violation(f"{what}: expression {orig} came back as {type(got).__name__} {got!r}")
        _cmp_expr(what, got, orig)
        return
    raise Violation(f"{what}: cannot compare {orig!r} with {got!r}")


def _cmp_expr(what, got, orig):
    fo = sorted(s.name for s in orig.free_symbols)
    fg = sorted(s.name for s in got.free_symbols)
    if fo != fg:
        raise Violation(f"{what}: expression {orig} came back with symbols {fg} instead of {fo}: {got}")
    if isinstance(orig, (sympy.Rel, sympy.logic.boolalg.BooleanFunction)) or isinstance(got, (sympy.Rel, sympy.logic.boolalg.BooleanFunction)):
        for vals in itertools.product([0, 1, 2, 3], repeat=min(len(fo), 3)):
            sub = {sympy.Symbol(n): v for n, v in zip(fo, vals)}
            a, b = bool(orig.subs(sub)), bool(got.subs(sub))
            if a != b:
                raise Violation(f"{what}: condition {orig} came back as {got} (differs at {dict(zip(fo, vals))})")
        return
    if isinstance(orig, sympy.Symbol):
        if got != orig:
            raise Violation(f"{what}: symbol {orig} came back as {got}")
        return
    for pt in R.POINTS:
        if any(n not in pt for n in fo):
            raise Reject("expression over a symbol without evaluation point")
        want = R.eval_sympy(orig, pt)
        g = complex(got.subs({sympy.Symbol(n): pt[n] for n in fo}).evalf())
        if not abs(g - want) <= 1e-9 * (1 + abs(want)):
            raise Violation(f"{what}: expression {orig} came back as {got} (value {g} vs {want} at a generic point)")


def _cmp_arg(what, got, orig):
    """Generic Arg value (gate_args of InternalGate, tag args, raw tags...)."""
    if orig is None:
        if got is not None:
            raise Violation(f"{what}: None came back as {got!r}")
        return
    if isinstance(orig, (bool, np.bool_)):
        if not (isinstance(got, (bool, int)) and bool(got) == bool(orig) and got == orig):
            raise Violation(f"{what}: bool {orig!r} came back as {got!r}")
        return
    if _is_num(orig):
        return _cmp_farg(what, got, orig)
    if isinstance(orig, complex):
        if not (isinstance(got, complex) and got == orig):
            raise Violation(f"{what}: complex {orig!r} came back as {got!r}")
        return
    if isinstance(orig, (str, bytes, cirq.MeasurementKey)):
        if type(got) is not type(orig) or got != orig:
            raise Violation(f"{what}: {orig!r} came back as {got!r}")
        return
    if isinstance(orig, tunits.Value):
        if not isinstance(got, tunits.Value) or got != orig or got.unit != orig.unit:
            raise Violation(f"{what}: {orig!r} came back as {got!r}")
        return
    if isinstance(orig, sympy.Basic):
        if not isinstance(got, sympy.Basic):
            raise Violation(f"{what}: expression {orig} came back as {got!r}")
        return _cmp_expr(what, got, orig)
    if isinstance(orig, np.ndarray):
        if not isinstance(got, np.ndarray) or got.dtype != orig.dtype or got.shape != orig.shape or not np.array_equal(got, orig):
            raise Violation(f"{what}: ndarray {orig.dtype}{orig.shape} came back as {getattr(got, 'dtype', type(got))}{getattr(got, 'shape', '')} / different values")
        return
    if isinstance(orig, (list, tuple)):
        if len(orig) > 0 and all(_is_num(x) or isinstance(x, bool) for x in orig):
            # uniform numeric sequences use the repeated bool/int64/double fields (a list on return; doubles are exact)
            if not isinstance(got, (list, tuple)) or len(got) != len(orig) or any(float(a) != float(b) for a, b in zip(got, orig)):
                raise Violation(f"{what}: numeric sequence {orig!r} came back as {got!r}")
            if type(got) is not type(orig):
                raise Violation(f"{what}: {type(orig).__name__} {orig!r} came back as {type(got).__name__} {got!r}")
            return
        if type(got) is not type(orig) or len(got) != len(orig):
            raise Violation(f"{what}: {type(orig).__name__} {orig!r} came back as {got!r}")
        for i, (a, b) in enumerate(zip(got, orig)):
            _cmp_arg(f"{what}[{i}]", a, b)
        return
    if isinstance(orig, (set, frozenset)):
        if type(got) is not type(orig) or len(got) != len(orig):
            raise Violation(f"{what}: {orig!r} came back as {got!r}")
        _cmp_multiset(what, list(got), list(orig), _cmp_arg)
        return
    if got != orig:
        raise Violation(f"{what}: {orig!r} came back as {got!r}")


def _cmp_multiset(what, got, orig, cmp):
    """Order-insensitive comparison with a pairwise comparator that raises Violation on mismatch."""
    if len(got) != len(orig):
        raise Violation(f"{what}: {len(orig)} entries came back as {len(got)}: {orig!r} -> {got!r}")
    rest = list(got)
    for o in orig:
        hit = None
        for i, g in enumerate(rest):
            try:
                cmp(what, g, o)
                hit = i
                break
            except Violation:
                continue
        if hit is None:
            raise Violation(f"{what}: {o!r} has no counterpart in {got!r}")
        rest.pop(hit)


def _cmp_tag(what, got, orig):
    if isinstance(orig, cg.InternalTag):
        if not isinstance(got, cg.InternalTag) or (got.name, got.package) != (orig.name, orig.package) or set(got.tag_args) != set(orig.tag_args):
            raise Violation(f"{what}: tag {orig!r} came back as {got!r}")
        for k in orig.tag_args:
            _cmp_arg(f"{what} InternalTag.{k}", got.tag_args[k], orig.tag_args[k])
        return
    if isinstance(orig, (cg.PhysicalZTag, cg.CalibrationTag, DynamicalDecouplingTag, cg.CompressDurationTag, cg.FSimViaModelTag, cg.TwoPulseFSimTag)):
        if type(got) is not type(orig) or got != orig:
            raise Violation(f"{what}: tag {orig!r} came back as {got!r}")
        return
    if isinstance(orig, (bool, int, float)) and isinstance(got, (bool, int, float)):
        # the constants table is keyed by Python equality: the tags 0.0 / 0 / False (1.0 / 1 / True) share one entry by design
        if float(got) != R.f32(orig):
            raise Violation(f"{what}: raw tag {orig!r} came back as {got!r}")
        return
    _cmp_arg(f"{what} raw tag", got, orig)


def _cmp_tags(what, got, orig):
    _cmp_multiset(f"{what} tags", list(got), list(orig), _cmp_tag)


def _cmp_condition(what, got, orig):
    if type(got) is not type(orig):
        raise Violation(f"{what}: condition {orig!r} came back as {got!r}")
    if isinstance(orig, cirq.KeyCondition):
        if (got.key, got.index) != (orig.key, orig.index):
            raise Violation(f"{what}: condition {orig!r} came back as {got!r}")
    elif isinstance(orig, cirq.BitMaskKeyCondition):
        a = (got.key, got.index, got.target_value, got.equal_target, got.bitmask)
        b = (orig.key, orig.index, orig.target_value, orig.equal_target, orig.bitmask)
        if a != b:
            raise Violation(f"{what}: condition {orig!r} came back as {got!r}")
    else:
        _cmp_expr(f"{what} sympy condition", got.expr, orig.expr)


EIGEN = (cirq.XPowGate, cirq.YPowGate, cirq.ZPowGate, cirq.HPowGate, cirq.CZPowGate, cirq.ISwapPowGate)


def _cmp_gate(what, got, orig):
    if isinstance(orig, (cg.SycamoreGate, cg.WillowGate)):
        if type(got) is not type(orig):
            raise Violation(f"{what}: {orig!r} came back as {got!r}")
        return
    for base in EIGEN:
        if isinstance(orig, base):
            if not isinstance(got, base):
                raise Violation(f"{what}: {orig!r} came back as {got!r}")
            if _is_num(orig.exponent) and _is_num(got.exponent) and got == base(exponent=R.f32(orig.exponent)):
                # equal up to the period of the gate (X**0 and X**2 are one Python value and share a constant)
                return
            return _cmp_farg(f"{what} {base.__name__}.exponent", got.exponent, orig.exponent)
    if isinstance(orig, cirq.PhasedXPowGate):
        if not isinstance(got, cirq.PhasedXPowGate):
            raise Violation(f"{what}: {orig!r} came back as {got!r}")
        _cmp_farg(f"{what} PhasedXPowGate.exponent", got.exponent, orig.exponent)
        if _is_num(orig.phase_exponent) and _is_num(got.phase_exponent):
            # the constructor canonicalises the phase exponent into (-1, 1]; compare modulo 2
            if math.remainder(float(got.phase_exponent) - R.f32(orig.phase_exponent), 2.0) != 0:
                raise Violation(f"{what} PhasedXPowGate.phase_exponent {orig.phase_exponent!r} came back as {got.phase_exponent!r}")
        else:
            _cmp_farg(f"{what} PhasedXPowGate.phase_exponent", got.phase_exponent, orig.phase_exponent)
        return
    if isinstance(orig, cirq.PhasedXZGate):
        if not isinstance(got, cirq.PhasedXZGate):
            raise Violation(f"{what}: {orig!r} came back as {got!r}")
        for f in ("x_exponent", "z_exponent", "axis_phase_exponent"):
            _cmp_farg(f"{what} PhasedXZGate.{f}", getattr(got, f), getattr(orig, f))
        return
    if isinstance(orig, cirq.FSimGate):
        if not isinstance(got, cirq.FSimGate):
            raise Violation(f"{what}: {orig!r} came back as {got!r}")
        for f in ("theta", "phi"):
            a, b = getattr(got, f), getattr(orig, f)
            if _is_num(a) and _is_num(b):
                # FSimGate canonicalises its angles into (-pi, pi]: compare modulo 2 pi.  The wrap-around of a float32 value
                # is computed in float64 and rounded again by the next serialization: tolerance = 2 float32 ulps of pi
                if abs(math.remainder(float(a) - R.f32(b), 2 * math.pi)) > 5e-7:
                    raise Violation(f"{what} FSimGate.{f}: {float(b)!r} came back as {float(a)!r}, float32 rounding gives {R.f32(b)!r} (mod 2 pi)")
            else:
                _cmp_farg(f"{what} FSimGate.{f}", a, b)
        return
    if isinstance(orig, cirq.MeasurementGate):
        if not isinstance(got, cirq.MeasurementGate):
            raise Violation(f"{what}: {orig!r} came back as {got!r}")
        a = (got.key, got.num_qubits(), tuple(got.full_invert_mask()), cirq.qid_shape(got), dict(got.confusion_map) == {})
        b = (orig.key, orig.num_qubits(), tuple(orig.full_invert_mask()), cirq.qid_shape(orig), dict(orig.confusion_map) == {})
        if a != b:
            raise Violation(f"{what}: measurement {orig!r} came back as {got!r}")
        return
    if isinstance(orig, cg.WaitGateWithUnit):
        if not isinstance(got, cg.WaitGateWithUnit) or tuple(got._qid_shape) != tuple(orig._qid_shape):
            raise Violation(f"{what}: {orig!r} came back as {got!r}")
        return _cmp_arg(f"{what} WaitGateWithUnit.duration", got._duration, orig._duration)
    if isinstance(orig, cirq.WaitGate):
        if not isinstance(got, cirq.WaitGate) or isinstance(got, cg.WaitGateWithUnit) or cirq.qid_shape(got) != cirq.qid_shape(orig):
            raise Violation(f"{what}: {orig!r} came back as {got!r}")
        return _cmp_farg(f"{what} WaitGate.duration[ns]", got.duration.total_nanos(), orig.duration.total_nanos())
    if isinstance(orig, CouplerPulse):
        if not isinstance(got, CouplerPulse):
            raise Violation(f"{what}: {orig!r} came back as {got!r}")
        for f in ("hold_time", "rise_time", "padding_time"):
            _cmp_farg(f"{what} CouplerPulse.{f}[ps]", getattr(got, f).total_picos(), getattr(orig, f).total_picos())
        for f in ("coupling_mhz", "q0_detune_mhz", "q1_detune_mhz"):
            _cmp_farg(f"{what} CouplerPulse.{f}", getattr(got, f), getattr(orig, f))
        return
    if isinstance(orig, cirq.DepolarizingChannel):
        if not isinstance(got, cirq.DepolarizingChannel) or got.n_qubits != orig.n_qubits:
            raise Violation(f"{what}: {orig!r} came back as {got!r}")
        return _cmp_farg(f"{what} DepolarizingChannel.p", got.p, orig.p)
    if isinstance(orig, cirq.RandomGateChannel):
        if not isinstance(got, cirq.RandomGateChannel):
            raise Violation(f"{what}: {orig!r} came back as {got!r}")
        _cmp_farg(f"{what} RandomGateChannel.probability", got.probability, orig.probability)
        return _cmp_gate(f"{what} RandomGateChannel.sub_gate", got.sub_gate, orig.sub_gate)
    if isinstance(orig, cg.LeakageISWAP):
        if not isinstance(got, cg.LeakageISWAP) or got.phase_matched != orig.phase_matched:
            raise Violation(f"{what}: {orig!r} came back as {got!r}")
        return
    if isinstance(orig, cg.InternalGate):
        if type(got) is not cg.InternalGate or got.gate_name != orig.gate_name or (got.gate_module or "") != (orig.gate_module or "") \
                or got.num_qubits() != orig.num_qubits() or set(got.gate_args) != set(orig.gate_args):
            raise Violation(f"{what}: {orig!r} came back as {got!r}")
        for k in orig.gate_args:
            _cmp_arg(f"{what} InternalGate.{k}", got.gate_args[k], orig.gate_args[k])
        a = {k: v.SerializeToString(deterministic=True) for k, v in got.custom_args.items()}
        b = {k: v.SerializeToString(deterministic=True) for k, v in orig.custom_args.items()}
        if a != b:
            raise Violation(f"{what}: InternalGate custom_args {sorted(b)} came back different ({sorted(a)})")
        return
    if isinstance(orig, cg.AnalogDetuneQubit):
        if not isinstance(got, cg.AnalogDetuneQubit) or got.linear_rise != orig.linear_rise:
            raise Violation(f"{what}: {orig!r} came back as {got!r}")
        for f in ("length", "w", "target_freq", "prev_freq"):
            _cmp_arg(f"{what} AnalogDetuneQubit.{f}", getattr(got, f), getattr(orig, f))
        for f in ("neighbor_coupler_g_dict", "prev_neighbor_coupler_g_dict"):
            a, b = getattr(got, f) or {}, getattr(orig, f) or {}
            if set(a) != set(b):
                raise Violation(f"{what} AnalogDetuneQubit.{f}: keys {sorted(b)} came back as {sorted(a)}")
            for k in b:
                _cmp_arg(f"{what} AnalogDetuneQubit.{f}[{k}]", a[k], b[k])
        return
    if isinstance(orig, cg.AnalogDetuneCouplerOnly):
        if not isinstance(got, cg.AnalogDetuneCouplerOnly) or (got.interpolate_coupling_cal, got.analog_cal_for_pulseshaping) != (
                orig.interpolate_coupling_cal, orig.analog_cal_for_pulseshaping):
            raise Violation(f"{what}: {orig!r} came back as {got!r}")
        for f in ("length", "w", "g_0", "g_max"):
            _cmp_arg(f"{what} AnalogDetuneCouplerOnly.{f}", getattr(got, f), getattr(orig, f))
        _cmp_farg(f"{what} AnalogDetuneCouplerOnly.g_ramp_exponent", got.g_ramp_exponent, orig.g_ramp_exponent)
        for f in ("neighbor_qubits_freq", "prev_neighbor_qubits_freq"):
            a, b = tuple(getattr(got, f)), tuple(getattr(orig, f))
            if len(a) != len(b):
                raise Violation(f"{what} AnalogDetuneCouplerOnly.{f}: {b!r} came back as {a!r}")
            for i in range(len(b)):
                _cmp_arg(f"{what} AnalogDetuneCouplerOnly.{f}[{i}]", a[i], b[i])
        return
    # SingleQubitCliffordGate, IdentityGate, SYC, WILLOW, resets, anything else: plain value equality of the same type
    if type(got) is not type(orig) or got != orig:
        raise Violation(f"{what}: gate {orig!r} came back as {got!r}")


def _cmp_circuit_op(what, got, orig):
    if not isinstance(got, cirq.CircuitOperation):
        raise Violation(f"{what}: CircuitOperation came back as {got!r}")
    _cmp_circuit(f"{what} sub-circuit", got.circuit, orig.circuit)
    a = (got.repetitions, got.repetition_ids, dict(got.qubit_map), dict(got.measurement_key_map), got.use_repetition_ids, tuple(got.parent_path))
    b = (orig.repetitions, orig.repetition_ids, dict(orig.qubit_map), dict(orig.measurement_key_map), orig.use_repetition_ids, tuple(orig.parent_path))
    if a != b:
        raise Violation(f"{what}: CircuitOperation fields (repetitions, repetition_ids, qubit_map, key_map, use_repetition_ids, parent_path) "
                        f"{b!r} came back as {a!r}")
    pa = {str(k): v for k, v in got.param_resolver.param_dict.items()}
    pb = {str(k): v for k, v in orig.param_resolver.param_dict.items()}
    if set(pa) != set(pb):
        raise Violation(f"{what}: CircuitOperation param_resolver keys {sorted(pb)} came back as {sorted(pa)}")
    for k in pb:
        _cmp_arg(f"{what} CircuitOperation.param_resolver[{k}]", pa[k], pb[k])
    if (got.repeat_until is None) != (orig.repeat_until is None):
        raise Violation(f"{what}: repeat_until {orig.repeat_until!r} came back as {got.repeat_until!r}")
    if orig.repeat_until is not None:
        _cmp_condition(f"{what} repeat_until", got.repeat_until, orig.repeat_until)


def _cmp_op(what, got, orig):
    if tuple(got.qubits) != tuple(orig.qubits):
        g = orig.untagged.without_classical_controls().untagged.gate
        # gates that declare interchangeable qubits (FSim, CZ, ISWAP...) compare equal under those permutations
        if g is None or set(got.qubits) != set(orig.qubits) or g.on(*got.qubits) != g.on(*orig.qubits):
            raise Violation(f"{what}: qubits {orig.qubits!r} came back as {got.qubits!r}")
    _cmp_tags(what, got.tags, orig.tags)
    _cmp_multiset(f"{what} classical controls", list(got.classical_controls), list(orig.classical_controls), _cmp_condition)
    bo = orig.untagged.without_classical_controls().untagged
    bg = got.untagged.without_classical_controls().untagged
    _cmp_tags(f"{what} (inner)", bg.tags if hasattr(bg, "tags") else (), bo.tags if hasattr(bo, "tags") else ())
    if isinstance(bo, cirq.CircuitOperation):
        return _cmp_circuit_op(what, bg, bo)
    if bo.gate is None or bg.gate is None:
        if bo != bg:
            raise Violation(f"{what}: operation {orig!r} came back as {got!r}")
        return
    _cmp_gate(f"{what} {type(bo.gate).__name__}", bg.gate, bo.gate)


def _cmp_circuit(what, got, orig):
    if len(got) != len(orig):
        raise Violation(f"{what}: {len(orig)} moments came back as {len(got)}")
    _cmp_tags(f"{what} circuit", got.tags, orig.tags)
    for i, (mg, mo) in enumerate(zip(got, orig)):
        _cmp_tags(f"{what} moment {i}", mg.tags, mo.tags)
        if len(mg) != len(mo):
            raise Violation(f"{what} moment {i}: {len(mo)} operations came back as {len(mg)}")
        by_q = {frozenset(op.qubits): op for op in mg}
        for op in mo:
            g = by_q.get(frozenset(op.qubits))
            if g is None:
                raise Violation(f"{what} moment {i}: no operation on {op.qubits!r} came back ({op!r})")
            _cmp_op(f"{what} moment {i}", g, op)


# ========================================================================================== constants table checks


def _all_circuits(c, acc):
    acc.append(c)
    for op in c.all_operations():
        u = op.untagged.without_classical_controls().untagged
        if isinstance(u, cirq.CircuitOperation):
            _all_circuits(u.circuit, acc)
    return acc


def _expected_table_sizes(circuits):
    """Distinct Python values of each kind = the number of entries a table without duplicates must have."""
    ops, moments, tags, qubits, subs = set(), set(), set(), set(), set()
    seen = []
    for top in circuits:
        _all_circuits(top, seen)
    top_ids = {id(t) for t in circuits}
    for c in seen:
        if id(c) not in top_ids:
            subs.add(c.freeze() if not isinstance(c, cirq.FrozenCircuit) else c)
        tags.update(c.tags)
        for m in c:
            moments.add((m, tuple(m.tags)))
            tags.update(m.tags)
            for op in m:
                u = op.untagged.without_classical_controls().untagged
                if isinstance(u, cirq.CircuitOperation):
                    continue
                ops.add(op)
                tags.update(op.tags)
                inner = op.untagged.without_classical_controls()
                tags.update(inner.tags)
                qubits.update(op.qubits)
    return {"operation_value": len(ops), "moment_value": len(moments), "tag_value": len(tags), "qubit": len(qubits), "circuit_value": len(subs)}


def _check_table(proto, circuits, label):
    consts = proto.constants
    kinds = [c.WhichOneof("const_value") for c in consts]
    n = len(consts)

    def ref(idx, kind, who):
        if not 0 <= idx < n:
            raise Violation(f"{label}: {who} refers to constant {idx}, table has {n} entries")
        if kinds[idx] != kind:
            raise Violation(f"{label}: {who} refers to constant {idx} of kind {kinds[idx]}, expected {kind}")

    def walk_circuit(cp, who):
        for i in cp.moment_indices:
            ref(i, "moment_value", f"{who}.moment_indices")
        for i in cp.tag_indices:
            ref(i, "tag_value", f"{who}.tag_indices")

    for j, c in enumerate(consts):
        k = kinds[j]
        if k == "operation_value":
            for i in c.operation_value.qubit_constant_index:
                ref(i, "qubit", f"constant {j} (operation) qubit_constant_index")
            for i in c.operation_value.tag_indices:
                ref(i, "tag_value", f"constant {j} (operation) tag_indices")
        elif k == "moment_value":
            for i in c.moment_value.operation_indices:
                ref(i, "operation_value", f"constant {j} (moment) operation_indices")
            for i in c.moment_value.tag_indices:
                ref(i, "tag_value", f"constant {j} (moment) tag_indices")
            for co in c.moment_value.circuit_operations:
                ref(co.circuit_constant_index, "circuit_value", f"constant {j} (moment) circuit_constant_index")
        elif k == "circuit_value":
            walk_circuit(c.circuit_value, f"constant {j} (circuit)")
    if proto.WhichOneof("program") == "circuit":
        walk_circuit(proto.circuit, "program.circuit")
    for kc in proto.keyed_circuits:
        walk_circuit(kc.circuit, "keyed circuit")
    want = _expected_table_sizes(circuits)
    have = {k: kinds.count(k) for k in want}
    for k in want:
        if have[k] > want[k]:
            raise Violation(f"{label}: constants table holds {have[k]} {k} entries for {want[k]} distinct values (duplicates)")
        if have[k] < want[k] and k != "tag_value":
            raise Violation(f"{label}: constants table holds {have[k]} {k} entries for {want[k]} distinct values (distinct values share an entry)")
    return have


# ========================================================================================== feature predicates


def _prog(recipe):
    try:
        return G.build_program(recipe)
    except Exception:
        return None


def _programs_of(r):
    return [r["base"]] if "base" in r else [r]


def _has_tagged_cop(sub, r):
    rs = _programs_of(r)
    return any(c.get("tags") for p in rs for c in p.get("cops", []))


def _has_unsupported_fields(sub, r):
    rs = _programs_of(r)
    for p in rs:
        if any(c.get("ppath") for c in p.get("cops", [])):
            return True
        for o in p.get("ops", []):
            if o["g"][0] == "M" and o["g"][1].get("confusion"):
                return True
            if o["g"][0] == "RGC" and o["g"][1]["sub"][0] == "M":
                return True
    return False


def _moments_equal_up_to_tags(sub, r):
    rs = _programs_of(r)
    seen = {}
    if "circuits" in r:
        rs = [dict(rs[0], circuit=[i for ci in r["circuits"] for i in ci])]
    for p in rs:
        c = _prog(p)
        if c is None:
            continue
        try:
            for cc in _all_circuits(c, []):
                for m in cc:
                    t = seen.setdefault(m, tuple(m.tags))
                    if t != tuple(m.tags):
                        return True
        except TypeError:  # unhashable argument somewhere (separate candidate F16f)
            return False
    return False


def _walk_args(v):
    yield v
    if isinstance(v, list):
        for x in v:
            if isinstance(x, (list, dict)):
                yield from _walk_args(x)
    elif isinstance(v, dict):
        for x in v.values():
            yield from _walk_args(x)


UNHASHABLE_KINDS = {"strs", "ints", "floats", "bools", "mixnum", "emptylist", "mixlist", "ndarray", "mixset"}


def _internal_arg_kinds(r):
    rs = _programs_of(r)
    kinds = set()
    for p in rs:
        for o in p.get("ops", []):
            g = o["g"]
            if g[0] == "Internal":
                for a in g[1]["args"].values():
                    for node in _walk_args(a):
                        if isinstance(node, list) and node and isinstance(node[0], str):
                            kinds.add(node[0])
            for t in o.get("tags", []):
                for node in _walk_args(t):
                    if isinstance(node, list) and node and isinstance(node[0], str):
                        kinds.add("tag:" + node[0])
    return kinds


def _has_unhashable_internal_arg(sub, r):
    return bool({k for k in _internal_arg_kinds(r) if not k.startswith("tag:")} & UNHASHABLE_KINDS)


def _has_numeric_tuple(sub, r):
    if sub == "args":
        return any(isinstance(n, list) and n and n[0] in ("numtuple", "emptytuple") for n in _walk_args(r["v"]))
    ks = _internal_arg_kinds(r)
    if any(isinstance(n, list) and n and n[0] in ("numtuple", "emptytuple") for t in _all_tag_recipes(r) for n in _walk_args(t)):
        return True
    return bool({"numtuple", "tag:numtuple", "emptytuple"} & ks)


def _all_tag_recipes(r):
    rs = _programs_of(r)
    for p in rs:
        for o in p.get("ops", []):
            yield from o.get("tags", [])
        for c in p.get("cops", []):
            yield from c.get("tags", [])
        for s in p.get("subs", []):
            yield from s.get("tags", [])
        for m in p.get("moments", []):
            yield from m.get("tags", [])
        yield from p.get("ctags", [])


def _has_none_tag(sub, r):
    return any(t[0] == "none" for t in _all_tag_recipes(r))


def _has_depol_zero(sub, r):
    rs = _programs_of(r)
    return any(o["g"][0] == "Depol" and float(o["g"][1]["p"]) == round(float(o["g"][1]["p"])) for p in rs for o in p.get("ops", []))


def _sweep_nodes(r):
    yield r
    if r and r[0] in ("zip", "prod", "concat", "ziplongest"):
        for c in r[1]:
            yield from _sweep_nodes(c)


def _sweeps_of(r):
    if "sweep" in r:
        return [r["sweep"]]
    return list(r.get("sweeps", []))


def _has_idx0(sub, r):
    for s in _sweeps_of(r):
        for n in _sweep_nodes(s):
            m = n[-1] if n[0] in ("lin", "pts", "frv") else None
            if isinstance(m, list) and m and m[0] == "dp" and m[2] == 0:
                return True
    return False


def _has_empty_points(sub, r):
    return any(n[0] == "pts" and len(n[2]) == 0 for s in _sweeps_of(r) for n in _sweep_nodes(s))


def _has_hetero_list(sub, r):
    for s in _sweeps_of(r):
        for n in _sweep_nodes(s):
            if n[0] == "list" and len({tuple(sorted(row)) for row in n[1]}) > 1:
                return True
    return False


KNOWN_FEATURES = {
    "F16a_circuit_op_tags_dropped": lambda sub, r: sub in ("programs", "multi_program") and _has_tagged_cop(sub, r),
    "F16f_unhashable_internal_arg": lambda sub, r: sub in ("programs", "multi_program") and _has_unhashable_internal_arg(sub, r),
    "F16h_numeric_tuple_to_list": lambda sub, r: sub in ("programs", "multi_program", "args") and _has_numeric_tuple(sub, r),
    "F16i_none_tag_dropped": lambda sub, r: sub in ("programs", "multi_program") and _has_none_tag(sub, r),
}


# ========================================================================================== (1) programs


def _program_labels(c, have, want_syms):
    circs = _all_circuits(c, [])
    nops = sum(1 for cc in circs for _ in cc.all_operations())
    moments = [m for cc in circs for m in cc]
    all_ops = [op for cc in circs for op in cc.all_operations()]
    tags = [t for op in all_ops for t in op.tags]
    rep_op = len(all_ops) > len(set(all_ops))
    rep_moment = len(moments) > len({(m, tuple(m.tags)) for m in moments})
    rep_tag = len(tags) > len(set(tags))
    untagged = {}
    tag_only = False
    for op in set(all_ops):
        u = op.untagged
        if u in untagged and untagged[u] != op.tags:
            tag_only = True
        untagged.setdefault(u, op.tags)
    symbolic = any(cirq.is_parameterized(op) for op in all_ops)
    # cross-kind collisions: a raw string tag (op / moment / circuit level) spelling the proto id of a qubit of the program
    qids = {G.proto_id_of(q) for op in all_ops if not isinstance(op.untagged.without_classical_controls().untagged, cirq.CircuitOperation)
            for q in op.qubits}
    all_tags = tags + [t for m in moments for t in m.tags] + [t for cc in circs for t in cc.tags]
    spells = {t for t in all_tags if isinstance(t, str) and t in qids}
    first_q, first_t = {}, {}
    for i, m in enumerate(c):
        for op in m:
            for q in op.qubits:
                first_q.setdefault(G.proto_id_of(q), i)
            for t in op.tags:
                if isinstance(t, str):
                    first_t.setdefault(t, i)
        for t in m.tags:
            if isinstance(t, str):
                first_t.setdefault(t, i)
    return {
        "string_tag_spells_qubit_id": bool(spells), "colliding_tag_before_qubit": any(first_t.get(t, 10 ** 9) < first_q.get(t, -1) for t in spells),
        "colliding_tag_after_qubit": any(first_t.get(t, -1) >= first_q.get(t, 10 ** 9) for t in spells),
        "numeric_tags_equal_across_types": len({(type(t), t) for t in all_tags if isinstance(t, (bool, int, float))}) > len(
            {t for t in all_tags if isinstance(t, (bool, int, float))}),
        "repeated_constant": rep_op or rep_moment or rep_tag, "repeated_op": rep_op, "repeated_moment": rep_moment, "repeated_tag": rep_tag,
        "ops_differ_only_in_tag": tag_only, "symbolic": symbolic, "has_subcircuit": len(circs) > 1,
        "has_controls": any(op.classical_controls for op in all_ops), "nontrivial": (rep_op or rep_moment or rep_tag) and symbolic,
        "subcircuits_equal_up_to_tags": len({cc.untagged for cc in circs[1:]}) < len(set(circs[1:])),
        "moments_equal_up_to_tags": len({(m, tuple(m.tags)) for m in moments}) > len(set(moments)),
        "n_ops": min(nops, 12),
    }


def _short(e):
    """First line of an exception text, for display in a violation message only (never used to decide anything)."""
    return str(e).split("\n")[0][:90]


SUPPORTED_SYMPY = (sympy.Symbol, sympy.Add, sympy.Mul, sympy.Pow, sympy.Number, sympy.NumberSymbol, sympy.Rel, sympy.And, sympy.Or, sympy.Xor,
                   sympy.Not, sympy.Indexed, sympy.IndexedBase, sympy.Idx, sympy.Tuple)


def _unsupported_sympy(value):
    """True when a sympy object inside ``value`` is outside the expression language of the format (e.g. a condition that
    sympy folded to the constants true/false, complex infinity).  Decided on the object, never on an error message."""
    if isinstance(value, sympy.Basic):
        return any(not isinstance(n, SUPPORTED_SYMPY) or n in (sympy.zoo, sympy.nan, sympy.oo, -sympy.oo) for n in sympy.preorder_traversal(value))
    if isinstance(value, (list, tuple, set, frozenset)):
        return any(_unsupported_sympy(v) for v in value)
    if isinstance(value, dict):
        return any(_unsupported_sympy(v) for v in value.values())
    return False


VOCABULARY = (cirq.XPowGate, cirq.YPowGate, cirq.ZPowGate, cirq.PhasedXPowGate, cirq.PhasedXZGate, cirq.SingleQubitCliffordGate, cirq.IdentityGate,
              cirq.HPowGate, cirq.CZPowGate, cirq.ISwapPowGate, cirq.FSimGate, cirq.MeasurementGate, cirq.WaitGate, cirq.ResetChannel,
              cg.MultilevelResetViaResonator, cg.LZSResetViaResonator, CouplerPulse, cirq.DepolarizingChannel, cirq.RandomGateChannel,
              cg.AnalogDetuneQubit, cg.AnalogDetuneCouplerOnly, cg.InternalGate)


def _condition_outside(cond):
    return isinstance(cond, cirq.SympyCondition) and _unsupported_sympy(cond.expr)


def _outside_format(circuits):
    """Reasons, read off the *built objects*, why the format may refuse these circuits with the ValueError its docstrings promise.
    -> (reasons for serialize, reasons for deserialize).  With no reason a ValueError of either stage is a violation
    ('format refuses supported content'); with a reason any ValueError of that stage is accepted, whatever its wording."""
    ser, de = [], []
    for top in circuits:
        for c in _all_circuits(top, []):
            for op in c.all_operations():
                if isinstance(op, cirq.TaggedOperation) and isinstance(op.sub_operation, cirq.ClassicallyControlledOperation):
                    ser.append("tags outside a classically controlled operation")
                if any(_condition_outside(k) for k in op.classical_controls):
                    ser.append("condition folded to a constant")
                if any(isinstance(t, (G.UnknownTag, cirq.Qid, cirq.Operation)) for t in op.tags):
                    ser.append("unknown tag type")
                base = op.untagged.without_classical_controls().untagged
                if isinstance(base, cirq.CircuitOperation):
                    if base.parent_path:
                        ser.append("CircuitOperation.parent_path")
                    if base.repeat_until is not None and _condition_outside(base.repeat_until):
                        ser.append("condition folded to a constant")
                    if any(isinstance(v, sympy.Basic) and not isinstance(v, sympy.Symbol) for v in base.param_resolver.param_dict.values()):
                        de.append("CircuitOperation parameter mapped to an expression")
                    continue
                if not all(isinstance(q, (cirq.GridQubit, cirq.LineQubit, cirq.NamedQubit, cg.Coupler)) for q in op.qubits):
                    ser.append("qubit type without proto id")
                g = base.gate
                if g is None or not isinstance(g, VOCABULARY):
                    ser.append("gate outside the vocabulary")
                    continue
                if isinstance(g, cirq.RandomGateChannel) and not isinstance(g.sub_gate, VOCABULARY):
                    ser.append("gate outside the vocabulary")
                if isinstance(g, cirq.MeasurementGate) and g.confusion_map:
                    ser.append("confusion_map")
                if isinstance(g, cirq.FSimGate) and any(isinstance(t, cg.FSimViaModelTag) for t in op.tags) and any(
                        isinstance(t, cg.TwoPulseFSimTag) for t in op.tags):
                    ser.append("both FSim translation tags")
            for m in c:
                if any(isinstance(t, (G.UnknownTag, cirq.Qid, cirq.Operation)) for t in m.tags):
                    ser.append("unknown tag type")
            if any(isinstance(t, (G.UnknownTag, cirq.Qid, cirq.Operation)) for t in c.tags):
                ser.append("unknown tag type")
    return ser, de


def _classify_value_error(e, reasons, stage):
    if reasons:
        raise Reject(f"{stage}: documented ValueError ({reasons[0]})")
    raise Violation(f"{stage} raised ValueError for a program whose content the format supports: {_short(e)}")


def _roundtrip_one(c, label="program"):
    ser, de = _outside_format([c])
    try:
        p1 = S.serialize(c)
    except ValueError as e:
        _classify_value_error(e, ser, "serialize")
    try:
        d1 = S.deserialize(p1)
    except ValueError as e:
        _classify_value_error(e, de, "deserialize")
    _cmp_circuit(label, d1, c)
    have = _check_table(p1, [c], label)
    p2 = S.serialize(d1)
    d2 = S.deserialize(p2)
    _cmp_circuit(f"{label} (2nd round trip)", d2, c)
    p3 = S.serialize(d2)
    # classical_controls is a frozenset: the order of several conditions on one op is not defined, bytes may differ
    multi_ctl = any(len(op.classical_controls) > 1 for cc in _all_circuits(c, []) for op in cc.all_operations())
    if multi_ctl:
        return have, p1
    if _bytes(p3) != _bytes(p2):
        raise Violation(f"{label}: serialization is not idempotent: 3rd serialization differs from the 2nd ({len(_bytes(p2))} vs {len(_bytes(p3))} bytes)")
    mixed = any(any(isinstance(op.untagged.without_classical_controls().untagged, cirq.CircuitOperation) for op in m) and
                any(not isinstance(op.untagged.without_classical_controls().untagged, cirq.CircuitOperation) for op in m)
                for cc in _all_circuits(c, []) for m in cc)
    has_expr = any(isinstance(x, sympy.Basic) and not isinstance(x, sympy.Symbol) for x in _leaf_args(p1))
    if not mixed and not has_expr and _bytes(p2) != _bytes(p1):
        raise Violation(f"{label}: serialize(deserialize(p)) is not byte-identical to p ({len(_bytes(p1))} vs {len(_bytes(p2))} bytes)")
    return have, p1


def _leaf_args(proto):
    """Marker list: a non-Symbol sympy object for every ArgFunction inside the proto (sympy may re-shape those on rebuild)."""
    return [sympy.Integer(0)] if b"func" in str(proto).encode() else []


def _build_or_reject(r):
    try:
        c = G.build_program(r)
        cirq.is_parameterized(c)  # a CircuitOperation resolves its body lazily; an inconsistent param_resolver raises here
    except ValueError:
        # raised by cirq's own constructors / parameter resolution while *building* the input (not by the code under test)
        raise Reject("cirq refuses to build the recipe (ValueError)")
    except (TypeError, AttributeError):
        # Decided from the recipe: a CircuitOperation whose param_resolver maps a symbol to an EXPRESSION is outside the format's
        # vocabulary (op_deserializer documents: values must be str, Symbol or number).  The unit-carrying gates of the body
        # (WaitGateWithUnit, AnalogDetune*) cannot even be resolved with an expression (TypeError / AttributeError in their own
        # parameter protocol, not in the wire format), so such a program cannot be mapped at all.  Any other recipe: let it crash.
        if any(v[0] in ("add", "mul", "neg", "pow") for p in _programs_of(r) for co in p.get("cops", []) for v in co.get("params", {}).values()):
            raise Reject("CircuitOperation parameter mapped to an expression cannot be resolved by a unit-carrying gate of its body")
        raise
    return c


def oracle_programs(r):
    c = _build_or_reject(r)
    have, _ = _roundtrip_one(c)
    return _program_labels(c, have, None)


# ========================================================================================== (1b) multi-program / circuit function


@st.composite
def _multi_case(draw):
    base = draw(G.program_recipes())
    n = draw(st.sampled_from([2, 2, 3, 4]))
    nm = len(base["moments"])
    circuits = [draw(st.lists(st.integers(0, nm - 1), min_size=1, max_size=5)) for _ in range(n)]
    form = draw(st.sampled_from(["list", "map", "func", "func_kw", "func_map"]))
    return {"base": base, "circuits": circuits, "form": form, "keys": list(draw(st.permutations(["c0", "", "x y", "k3", "zz"])))[:n],
            "extra": draw(st.sampled_from([None, ["e", [0.25, 0.1]], ["name", [3]], ["e", [1.0]]]))}


def oracle_multi(r):
    circuits = [_build_or_reject(dict(r["base"], circuit=ci)) for ci in r["circuits"]]
    n = len(circuits)
    form = r["form"]
    keys = (list(r["keys"]) + [f"key{i}" for i in range(n)])[:n]
    try:
        if form == "list":
            proto = S.serialize_multi_program(circuits)
            want = [("", {}, c) for c in circuits]
        elif form == "map":
            proto = S.serialize_multi_program({k: c for k, c in zip(keys, circuits)})
            want = [(k, {}, c) for k, c in {k: c for k, c in zip(keys, circuits)}.items()]
        else:
            sweep = cirq.Points("idx", list(range(n)))
            extra = r.get("extra")
            if extra:
                sweep = sweep * cirq.Points(extra[0], list(extra[1]))
            if form == "func":
                def fn(idx):
                    return circuits[int(idx) % n]
            elif form == "func_kw":
                def fn(**kw):
                    return circuits[int(kw["idx"]) % n]
            else:
                def fn(idx):
                    return {"A": circuits[int(idx) % n], "B": circuits[(int(idx) + 1) % n]}
            proto = S.serialize_circuit_function(fn, sweep)
            want = []
            for i in range(n):
                for ev in (extra[1] if extra else [None]):
                    args = {"idx": i}
                    if extra:
                        args[extra[0]] = ev
                    if form == "func_map":
                        want.append(("A", args, circuits[i % n]))
                        want.append(("B", args, circuits[(i + 1) % n]))
                    else:
                        want.append(("", args, circuits[i]))
    except ValueError as e:
        _classify_value_error(e, _outside_format(circuits)[0], "serialize")
    proto = program_pb2.Program.FromString(proto.SerializeToString())
    try:
        got = S.deserialize_multi_program(proto)
    except ValueError as e:
        _classify_value_error(e, _outside_format(circuits)[1], "deserialize")
    if len(got) != len(want):
        raise Violation(f"multi-program ({form}): {len(want)} circuits came back as {len(got)}")
    for i, ((gk, gargs, gc), (wk, wargs, wc)) in enumerate(zip(got, want)):
        if gk != wk:
            raise Violation(f"multi-program ({form}) entry {i}: key {wk!r} came back as {gk!r}")
        ga = dict(gargs)
        if set(ga) != set(wargs):
            raise Violation(f"multi-program ({form}) entry {i}: args {wargs!r} came back as {ga!r}")
        for k in wargs:
            _cmp_arg(f"multi-program ({form}) entry {i} arg {k}", ga[k], wargs[k])
        _cmp_circuit(f"multi-program ({form}) circuit {i}", gc, wc)
    _check_table(proto, circuits, f"multi-program ({form})")
    lab = _program_labels(circuits[0], None, None)
    ops = [set(c.all_operations()) for c in circuits]
    shared = any(ops[i] & ops[j] for i in range(n) for j in range(i + 1, n))
    moms = [set(c) for c in circuits]
    shared_m = any(moms[i] & moms[j] for i in range(n) for j in range(i + 1, n))
    return {"form": form, "shared_op_across_circuits": shared, "shared_moment_across_circuits": shared_m,
            "symbolic": any(cirq.is_parameterized(c) for c in circuits), "nontrivial": shared and any(cirq.is_parameterized(c) for c in circuits)}


# ========================================================================================== (1c) argument encodings


@st.composite
def _arg_case(draw):
    kind = draw(st.sampled_from(["arg", "arg", "farg", "farg", "cond", "tableau", "internal"]))
    if kind == "arg":
        return {"kind": kind, "v": draw(G.arg_values(depth=2))}
    if kind == "farg":
        return {"kind": kind, "v": draw(st.one_of(G.expr_trees(depth=3), G.numbers().map(lambda x: ["f", x])))}
    if kind == "cond":
        return {"kind": kind, "v": draw(G.condition_recipes())}
    if kind == "tableau":
        return {"kind": kind, "v": draw(st.integers(0, 23))}
    return {"kind": kind, "v": draw(G.gate_recipes(2).filter(lambda g: g[0] == "Internal"))}


def oracle_args(r):
    kind = r["kind"]
    if kind == "arg":
        try:
            val = G.build_arg(r["v"])
        except ValueError:
            raise Reject("degenerate expression")
        try:
            msg = AFL.arg_to_proto(val)
        except ValueError as e:
            if _unsupported_sympy(val):
                raise Reject("arg_to_proto: documented ValueError (sympy object outside the expression language)")
            raise Violation(f"arg_to_proto raised ValueError for a supported value of kind {r['v'][0]}: {str(e)[:80]}")
        msg = program_pb2.Arg.FromString(msg.SerializeToString())
        got = AFL.arg_from_proto(msg)
        _cmp_arg(f"arg {r['v'][0]}", got, val)
        msg2 = AFL.arg_to_proto(got)
        if not isinstance(val, (sympy.Basic, set, frozenset)) and not (_is_num(val) and val == 0) and msg2.SerializeToString(deterministic=True) != msg.SerializeToString(deterministic=True):
            raise Violation(f"arg {r['v'][0]}: second encoding differs from the first")
        return {"kind": r["v"][0], "nontrivial": r["v"][0] in ("expr", "mixtuple", "mixlist", "unit", "ndarray", "mixnum", "fset", "mixset")}
    if kind == "farg":
        try:
            val = G.build_farg(r["v"])
        except ValueError:
            raise Reject("degenerate expression")
        try:
            msg = AFL.float_arg_to_proto(val)
        except ValueError as e:
            if _unsupported_sympy(val):
                raise Reject("float_arg_to_proto: documented ValueError (sympy object outside the expression language)")
            raise Violation(f"float_arg_to_proto raised ValueError for a supported number/expression: {str(e)[:80]}")
        msg = program_pb2.FloatArg.FromString(msg.SerializeToString())
        got = AFL.float_arg_from_proto(msg, required_arg_name="x")
        _cmp_farg("float arg", got, val)
        sym = isinstance(val, sympy.Basic)
        neg = sym and any(isinstance(a, sympy.Mul) and any(x.is_number and x < 0 for x in a.args) for a in sympy.preorder_traversal(val))
        return {"kind": "farg_expr" if sym else "farg_num", "negative_coefficient": bool(neg), "nontrivial": sym}
    if kind == "cond":
        c = G.build_condition(r["v"])
        try:
            msg = AFL.condition_to_proto(c, out=program_pb2.Arg())
        except ValueError as e:
            if _condition_outside(c):
                raise Reject("condition_to_proto: documented ValueError (condition folded to a constant)")
            raise Violation(f"condition_to_proto raised ValueError for a supported condition: {str(e)[:80]}")
        msg = program_pb2.Arg.FromString(msg.SerializeToString())
        got = AFL.condition_from_proto(msg)
        _cmp_condition("condition", got, c)
        return {"kind": "cond_" + r["v"][0], "nontrivial": r["v"][0] in ("bitmask", "bool")}
    if kind == "tableau":
        g = cirq.SingleQubitCliffordGate.all_single_qubit_cliffords[r["v"] % 24]
        msg = AFL.clifford_tableau_arg_to_proto(g._clifford_tableau)
        msg = program_pb2.CliffordTableau.FromString(msg.SerializeToString())
        t = AFL.clifford_tableau_from_proto(msg)
        if t != g._clifford_tableau or cirq.SingleQubitCliffordGate.from_clifford_tableau(t) != g:
            raise Violation(f"clifford tableau {r['v']} came back different")
        return {"kind": "tableau", "nontrivial": False}
    try:
        g = G.build_gate(r["v"], 2)
    except ValueError:
        raise Reject("degenerate expression")
    msg = AFL.internal_gate_arg_to_proto(g)
    msg = program_pb2.InternalGate.FromString(msg.SerializeToString())
    got = AFL.internal_gate_from_proto(msg)
    _cmp_gate("InternalGate", got, g)
    return {"kind": "internal", "nontrivial": bool(g.gate_args)}


# ========================================================================================== (2) sweeps and run contexts


def _leaves(sweep):
    """Single sweeps of a cirq sweep tree, left to right."""
    if isinstance(sweep, (cirq.Product,)):
        return [x for f in sweep.factors for x in _leaves(f)]
    if isinstance(sweep, (cirq.Zip, cirq.Concat)):  # ZipLongest is a Zip
        return [x for f in sweep.sweeps for x in _leaves(f)]
    if isinstance(sweep, cirq.ListSweep) or sweep is cirq.UnitSweep:
        return []
    return [sweep]


def _meta_tuple(m):
    from cirq_google.study import DeviceParameter
    from cirq_google.study.device_parameter import Metadata

    if m is None:
        return None
    if isinstance(m, DeviceParameter):
        return ("dp", list(m.path), m.idx, m.units, m.value)
    if isinstance(m, Metadata):
        dps = None if m.device_parameters is None else [_meta_tuple(d) for d in m.device_parameters]
        return ("md", dps, bool(m.is_const), m.label, m.unit)
    return ("other", repr(m))


def _cmp_sweep_value(what, got, want, exact):
    kind = want[0]
    if kind == "none":
        ok = got is None
    elif kind == "str":
        ok = isinstance(got, str) and got == want[1]
    elif kind == "num":
        ok = isinstance(got, (int, float)) and not isinstance(got, bool) and (
            got == want[1] if exact else abs(got - want[1]) <= 1e-9 * (1 + abs(want[1])))
    else:
        unit = getattr(tunits, want[2])
        try:
            ok = isinstance(got, tunits.Value) and abs(got[unit] - want[1]) <= 1e-9 * (1 + abs(want[1]))
        except Exception:  # incompatible units
            ok = False
    if not ok:
        raise Violation(f"{what}: expected {want!r}, sweep yields {got!r}")


def _frv_values(node):
    import random

    keys = [float(a) for a, _ in node[2]]
    weights = [float(b) for _, b in node[2]]
    return random.Random(int(node[3])).choices(keys, weights, k=int(node[4]))


def _sweep_reference(tree, f64):
    """Reference enumeration; FiniteRandomVariable leaves are expanded to explicit points first (documented:
    random.choices with the given seed)."""

    def expand(n):
        if n[0] == "frv":
            return ["pts!", n[1], [["f!", v] for v in _frv_values(n)]]
        if n[0] in ("zip", "prod", "concat", "ziplongest"):
            return [n[0], [expand(c) for c in n[1]]]
        return n

    def enum(n):
        if n[0] == "pts!":
            return [{n[1]: ("num", v[1])} for v in n[2]]
        if n[0] in ("zip", "prod", "concat", "ziplongest"):
            parts = [enum(c) for c in n[1]]
            if n[0] == "zip":
                m = min(len(p) for p in parts) if parts else 0
                return [R._merge(p[i] for p in parts) for i in range(m)]
            if n[0] == "ziplongest":
                m = max([len(p) for p in parts] or [0])
                return [R._merge(p[min(i, len(p) - 1)] for p in parts) for i in range(m)]
            if n[0] == "prod":
                out = [{}]
                for part in parts:
                    out = [R._merge([a, b]) for a in out for b in part]
                return out
            return [x for p in parts for x in p]
        return R.sweep_enumerate(n, f64)

    return enum(expand(tree))


def _check_sweep_roundtrip(what, tree, sweep, msg, f64):
    msg = run_context_pb2.Sweep.FromString(msg.SerializeToString())
    back = v2.sweep_from_proto(msg)
    want = _sweep_reference(tree, f64)
    exact_vals = all(n[0] != "lin" or True for n in _sweep_nodes(tree))
    if sorted(back.keys) != sorted(sweep.keys):
        raise Violation(f"{what}: keys {sweep.keys} came back as {back.keys}")
    got = [dict(t) for t in back.param_tuples()]
    if len(got) != len(want):
        raise Violation(f"{what}: {len(want)} assignments expected, deserialized sweep has {len(got)}")
    for i, (g, w) in enumerate(zip(got, want)):
        if set(g) != set(w):
            raise Violation(f"{what}: assignment {i} has keys {sorted(g)} expected {sorted(w)}")
        for k in w:
            _cmp_sweep_value(f"{what}: assignment {i} key {k}", g[k], w[k], exact=False)
    la, lb = _leaves(sweep), _leaves(back)
    if not any(n[0] == "list" for n in _sweep_nodes(tree)):
        if len(la) != len(lb):
            raise Violation(f"{what}: {len(la)} single sweeps came back as {len(lb)}")
        for a, b in zip(la, lb):
            if type(a) is not type(b) and not (isinstance(a, cirq.Linspace) and len(a) == 1):
                raise Violation(f"{what}: {type(a).__name__}({a.key!r}) came back as {type(b).__name__}")
            if _meta_tuple(getattr(a, "metadata", None)) != _meta_tuple(getattr(b, "metadata", None)):
                raise Violation(f"{what}: metadata of sweep {a.key!r} {_meta_tuple(getattr(a, 'metadata', None))!r} came back as "
                                f"{_meta_tuple(getattr(b, 'metadata', None))!r}")
    return back, want


@st.composite
def _sweep_case(draw):
    return {"sweep": draw(G.sweep_recipes()), "f64": draw(st.booleans())}


def _build_sweep_or_reject(tree):
    try:
        return G.build_sweep(tree)
    except ValueError:
        raise Reject("cirq refuses to build the sweep (ValueError)")  # cirq-core constructor, not the code under test


def _classify_sweep_error(e, r):
    """ListSweeps with non-uniform keys and seeds beyond int32 are outside the format (ValueError); nothing else is."""
    msg = str(e)
    if _has_hetero_list("sweeps", r):
        raise Reject("sweep_to_proto: documented ValueError: ListSweep with non-uniform keys")
    if any(n[0] == "frv" and not -2 ** 31 <= n[3] < 2 ** 31 for s_ in _sweeps_of(r) for n in _sweep_nodes(s_)):
        raise Reject("sweep_to_proto: seed does not fit the int32 field")
    raise Violation(f"sweep_to_proto raised ValueError for a sweep the format supports: {msg[:100]}")


def oracle_sweeps(r):
    tree = r["sweep"]
    sweep = _build_sweep_or_reject(tree)
    try:
        msg = v2.sweep_to_proto(sweep, use_float64=bool(r["f64"]))
    except ValueError as e:
        _classify_sweep_error(e, r)
    back, want = _check_sweep_roundtrip("sweep", tree, sweep, msg, bool(r["f64"]))
    # values exactly representable in float32 + no normalising constructor => the sweep object itself is equal
    nodes = list(_sweep_nodes(tree))
    dyadic = all(_dyadic_node(n) for n in nodes)
    plain = not any(n[0] in ("list",) or (n[0] == "lin" and n[4] == 1) for n in nodes)
    if dyadic and plain and back != sweep:
        raise Violation(f"sweep with float32-exact values is not equal after the round trip: {sweep!r} -> {back!r}")
    msg2 = v2.sweep_to_proto(back, use_float64=bool(r["f64"]))
    if dyadic and plain and msg2.SerializeToString(deterministic=True) != msg.SerializeToString(deterministic=True):
        raise Violation("sweep: second serialization differs from the first")
    kinds = {n[0] for n in nodes}
    return {"depth": R.sweep_depth(tree), "nontrivial": R.sweep_depth(tree) >= 2, "n_assignments": min(len(want), 9),
            "has_units": any((n[0] == "lin" and n[5]) or (n[0] == "pts" and any(v[0] == "u" for v in n[2])) for n in nodes),
            "has_metadata": any(n[0] in ("lin", "pts", "frv") and n[-1] is not None for n in nodes), "exact_equal_checked": dyadic and plain,
            "mixed_units_in_one_sweep": any((n[0] == "lin" and isinstance(n[5], list)) or (n[0] == "pts" and len({v[2] for v in n[2] if v[0] == "u"}) > 1)
                                            for n in nodes),
            "three_factors": any(n[0] in ("zip", "prod") and len(n[1]) >= 3 for n in nodes), "has_" + "_".join(sorted(kinds & {"concat"})) if "concat" in kinds else "no_concat": True,
            "has_ziplongest": "ziplongest" in kinds, "has_list": "list" in kinds, "has_frv": "frv" in kinds, "f64": bool(r["f64"])}


def _dyadic(x):
    return float(x) == R.f32(x)


def _dyadic_node(n):
    if n[0] == "lin":
        us, ue = R.lin_units(n[5])
        return _dyadic(n[2]) and _dyadic(n[3]) and us == ue  # a converted stop is compared by value, not by object equality
    if n[0] == "pts":
        if len({v[2] for v in n[2] if v[0] == "u"}) > 1:
            return False
        return all(v[0] in ("str", "none") or (v[0] == "i" and abs(v[1]) < 2 ** 24) or (v[0] in ("f", "u") and _dyadic(v[1])) for v in n[2])
    if n[0] == "list":
        return False
    return True


@st.composite
def _rc_case(draw):
    n = draw(st.sampled_from([1, 1, 2, 3]))
    sweeps = [draw(G.sweep_recipes(depth=2)) for _ in range(n)]
    form = draw(st.sampled_from(["sweep", "list", "list", "none", "dict", "resolver"]))
    reps = draw(st.one_of(st.integers(1, 10 ** 6), st.lists(st.integers(1, 1000), min_size=1, max_size=4)))
    dev = draw(st.lists(st.tuples(st.lists(st.sampled_from(["q0", "q1", "readout", "amp", "freq"]), min_size=1, max_size=4),
                                  st.one_of(st.none(), st.integers(0, 4)), G.exact_numbers()).map(list), max_size=6))
    return {"sweeps": sweeps, "form": form, "reps": reps, "compress": draw(st.booleans()), "f64": draw(st.booleans()),
            "dict": draw(st.dictionaries(st.sampled_from(["a", "b", "c"]), st.one_of(G.numbers(), st.integers(-3, 3)), max_size=3)), "dev": dev}


def oracle_run_context(r):
    form = r["form"]
    trees = list(r["sweeps"])
    if form == "sweep":
        trees = trees[:1]
        sweepable = _build_sweep_or_reject(trees[0])
    elif form == "list":
        sweepable = [_build_sweep_or_reject(t) for t in trees]
    elif form == "none":
        trees = [["unit"]]
        sweepable = None
    else:
        d = dict(r["dict"])
        trees = [["zip", [["pts", k, [["f", v] if isinstance(v, float) else ["i", v]]] for k, v in d.items()]]] if d else [["unit"]]
        sweepable = d if form == "dict" else cirq.ParamResolver(d)
    reps = r["reps"]
    f64 = bool(r["f64"])
    if isinstance(reps, list):
        if len(trees) == 1 and len(reps) > 1:
            trees = trees * len(reps)
        mismatch = len(trees) != len(reps)
    else:
        mismatch = False
    try:
        rc = v2.run_context_to_proto(sweepable, reps, compress_proto=bool(r["compress"]), use_float64=f64)
    except ValueError as e:
        if mismatch:  # documented: lengths of sweeps and repetitions must agree
            return {"nontrivial": False, "length_mismatch_rejected": True}
        _classify_sweep_error(e, r)
    if mismatch:
        raise Violation(f"run_context_to_proto accepted {len(trees)} sweeps with {len(reps)} repetition counts")
    rc = run_context_pb2.RunContext.FromString(rc.SerializeToString())
    if r["compress"]:
        if rc.parameter_sweeps:
            raise Violation("compressed run context also carries uncompressed parameter_sweeps")
        rc = run_context_pb2.RunContext.FromString(gzip.decompress(rc.compressed_run_context))
    want_reps = reps if isinstance(reps, list) else [reps] * len(trees)
    if len(rc.parameter_sweeps) != len(trees):
        raise Violation(f"run context: {len(trees)} sweeps became {len(rc.parameter_sweeps)} parameter_sweeps")
    for i, (ps, tree, rep) in enumerate(zip(rc.parameter_sweeps, trees, want_reps)):
        if ps.repetitions != rep:
            raise Violation(f"run context: sweep {i} carries repetitions {ps.repetitions}, expected {rep}")
        sweep = G.build_sweep(tree)
        _check_sweep_roundtrip(f"run context sweep {i}", tree, sweep, ps.sweep, f64)
    # device parameter diff: decode with an independent reader of the documented (groups, params, strs) layout
    if r["dev"]:
        _check_device_diff(r["dev"])
    return {"form": form, "n_sweeps": len(trees), "reps_list": isinstance(reps, list), "compressed": bool(r["compress"]),
            "device_diff": bool(r["dev"]), "nontrivial": len(trees) >= 2 or max(R.sweep_depth(t) for t in trees) >= 2}


def _check_device_diff(dev):
    from cirq_google.api.v2 import run_context as rcmod

    pairs = []
    for path, idx, val in dev:
        dp = run_context_pb2.DeviceParameter(path=list(path), idx=idx) if idx is not None else run_context_pb2.DeviceParameter(path=list(path))
        pairs.append((dp, program_pb2.ArgValue(double_value=float(val))))
    diff = rcmod.to_device_parameters_diff(pairs)
    diff = run_context_pb2.DeviceParametersDiff.FromString(diff.SerializeToString())
    if len(diff.params) != len(dev):
        raise Violation(f"device parameter diff: {len(dev)} parameters became {len(diff.params)}")
    strs = list(diff.strs)
    if len(set(strs)) != len(strs):
        raise Violation(f"device parameter diff: string table has duplicates {strs}")

    def group_path(g):
        out = []
        seen = 0
        while g != -1:
            if not 0 <= g < len(diff.groups) or seen > len(diff.groups):
                raise Violation(f"device parameter diff: group index {g} out of range / cyclic")
            out.append(strs[diff.groups[g].name])
            g = diff.groups[g].parent
            seen += 1
        return out[::-1]

    for i, ((path, idx, val), p) in enumerate(zip(dev, diff.params)):
        got = group_path(p.resource_group) + [strs[p.name]]
        if got != list(path):
            raise Violation(f"device parameter diff: parameter {i} path {path} decoded as {got}")
        if p.value.double_value != float(val):
            raise Violation(f"device parameter diff: parameter {i} value {val} decoded as {p.value.double_value}")
    prefixes = {tuple(path[:k]) for path, _, _ in dev for k in range(1, len(path))}
    if len(diff.groups) != len(prefixes):
        raise Violation(f"device parameter diff: {len(diff.groups)} groups for {len(prefixes)} distinct resource prefixes")


# ========================================================================================== (3) results


def _bits_from_int(x, n):
    return [(x >> i) & 1 for i in range(n)]


def oracle_results(r):
    meas = r["meas"]
    infos = [v2.MeasureInfo(key=m["key"], qubits=[cirq.GridQubit(*q) for q in m["qubits"]], instances=int(m["inst"]),
                            invert_mask=[False] * len(m["qubits"]), tags=[]) for m in meas]
    if len({m["key"] for m in meas}) != len(meas):
        raise Reject("duplicate keys in recipe")
    trial_sweeps = []
    records_ref = []  # [sweep][trial][key] -> array reps x inst x nq
    for sw in r["sweeps"]:
        reps = int(sw["reps"])
        trials = []
        ref_t = []
        for tr in sw["trials"]:
            recs = {}
            for m, b in zip(meas, tr["bits"]):
                n = reps * m["inst"] * len(m["qubits"])
                bits = _bits_from_int(int(b), n)
                recs[m["key"]] = np.array(bits, dtype=np.uint8).reshape((reps, m["inst"], len(m["qubits"])))
            trials.append(cirq.ResultDict(params=cirq.ParamResolver(dict(tr["params"])), records=recs))
            ref_t.append(recs)
        trial_sweeps.append(trials)
        records_ref.append(ref_t)
    msg = v2.results_to_proto(trial_sweeps, infos)
    msg = result_pb2.Result.FromString(msg.SerializeToString())
    # (a) the wire bytes follow result.proto: per qubit, bits ordered by (repetition, instance), little endian in each byte
    for si, sw in enumerate(r["sweeps"]):
        sr = msg.sweep_results[si]
        if sr.repetitions != sw["reps"]:
            raise Violation(f"results_to_proto: sweep {si} repetitions {sw['reps']} written as {sr.repetitions}")
        if len(sr.parameterized_results) != len(sw["trials"]):
            raise Violation(f"results_to_proto: sweep {si} has {len(sr.parameterized_results)} parameterized results for {len(sw['trials'])} trials")
        for ti, pr in enumerate(sr.parameterized_results):
            if [mr.key for mr in pr.measurement_results] != [m["key"] for m in meas]:
                raise Violation(f"results_to_proto: keys {[m['key'] for m in meas]} written as {[mr.key for mr in pr.measurement_results]}")
            for m, mr in zip(meas, pr.measurement_results):
                arr = records_ref[si][ti][m["key"]]
                if mr.instances != m["inst"]:
                    raise Violation(f"results_to_proto: key {m['key']} instances {m['inst']} written as {mr.instances}")
                for qi, qmr in enumerate(mr.qubit_measurement_results):
                    want_id = f"{m['qubits'][qi][0]}_{m['qubits'][qi][1]}"
                    flat = [int(x) for x in arr[:, :, qi].reshape(-1)]
                    if qmr.qubit.id != want_id or bytes(qmr.results) != R.ref_pack_bits(flat):
                        raise Violation(f"results_to_proto: key {m['key']} qubit {want_id}: {len(flat)} bits packed as {bytes(qmr.results).hex()} "
                                        f"(id {qmr.qubit.id}), little-endian packing gives {R.ref_pack_bits(flat).hex()}")
    # (b) reading back: with the same measurement infos, with a permuted qubit order, and without infos
    use = r["use_info"]
    if use == "none":
        back = v2.results_from_proto(msg)
        perm = {m["key"]: list(range(len(m["qubits"]))) for m in meas}
    else:
        perm = {m["key"]: (list(m["perm"]) if use == "perm" else list(range(len(m["qubits"])))) for m in meas}
        infos2 = [v2.MeasureInfo(key=m["key"], qubits=[cirq.GridQubit(*m["qubits"][j]) for j in perm[m["key"]]], instances=int(m["inst"]),
                                 invert_mask=[False] * len(m["qubits"]), tags=[]) for m in meas]
        back = v2.results_from_proto(msg, infos2)
    if len(back) != len(r["sweeps"]):
        raise Violation(f"results_from_proto: {len(r['sweeps'])} sweeps came back as {len(back)}")
    for si, sw in enumerate(r["sweeps"]):
        if len(back[si]) != len(sw["trials"]):
            raise Violation(f"results_from_proto: sweep {si}: {len(sw['trials'])} trials came back as {len(back[si])}")
        for ti, (res, tr) in enumerate(zip(back[si], sw["trials"])):
            gp = dict(res.params.param_dict)
            if set(gp) != set(tr["params"]) or any(gp[k] != R.f32(v) for k, v in tr["params"].items()):
                raise Violation(f"results_from_proto: params {tr['params']} came back as {gp}")
            if res.repetitions != sw["reps"] and meas:
                raise Violation(f"results_from_proto: repetitions {sw['reps']} came back as {res.repetitions}")
            if set(res.records) != {m["key"] for m in meas}:
                raise Violation(f"results_from_proto: keys {[m['key'] for m in meas]} came back as {sorted(res.records)}")
            for m in meas:
                want = records_ref[si][ti][m["key"]][:, :, perm[m["key"]]]
                got = np.asarray(res.records[m["key"]])
                if got.shape != want.shape or not np.array_equal(got.astype(np.uint8), want):
                    raise Violation(f"results_from_proto: records of key {m['key']} (reps={sw['reps']}, instances={m['inst']}, "
                                    f"qubit order {perm[m['key']]}) differ: shape {got.shape} vs {want.shape}, "
                                    f"{int(np.sum(got.astype(np.uint8) != want)) if got.shape == want.shape else '?'} bits differ")
    odd = any((sw["reps"] * m["inst"]) % 8 != 0 for sw in r["sweeps"] for m in meas)
    return {"nontrivial": odd, "reps_not_multiple_of_8": odd, "many_keys": len(meas) >= 6, "repeated_key_instances": any(m["inst"] > 1 for m in meas),
            "qubit_order_permuted": use == "perm" and any(p != sorted(p) for p in perm.values()), "info": use,
            "zero_reps": any(sw["reps"] == 0 for sw in r["sweeps"])}


def _pack_cases(tier):
    out = []
    for n in range(0, 71):
        pats = {0, (1 << n) - 1, 1, (1 << n) >> 1, int("10" * 40, 2) & ((1 << n) - 1), int("1100101" * 12, 2) & ((1 << n) - 1)}
        for p in sorted(pats):
            out.append({"n": n, "bits": str(p)})
    return out


def oracle_pack(r):
    n = int(r["n"])
    bits = _bits_from_int(int(r["bits"]), n)
    arr = np.array(bits, dtype=bool)
    data = v2.pack_bits(arr)
    want = R.ref_pack_bits(bits)
    if data != want:
        raise Violation(f"pack_bits of {n} bits gives {data.hex()}, little-endian zero-padded packing gives {want.hex()}")
    back = v2.unpack_bits(data, n)
    if len(back) != n or [int(b) for b in back] != bits:
        raise Violation(f"unpack_bits(pack_bits(b), {n}) != b ({int(np.sum(np.asarray(back, dtype=int)[:n] != np.asarray(bits[:len(back)], dtype=int))) if len(back) == n else 'length ' + str(len(back))})")
    # unpack of reference bytes with trailing garbage bits set must ignore them
    if n % 8:
        noisy = bytearray(want)
        noisy[-1] |= (0xFF << (n % 8)) & 0xFF
        b2 = v2.unpack_bits(bytes(noisy), n)
        if [int(b) for b in b2] != bits:
            raise Violation(f"unpack_bits reads padding bits for n={n}")
    return {"nontrivial": n % 8 != 0, "n_mod_8": n % 8}


@st.composite
def _pack_case(draw):
    n = draw(st.integers(0, 70))
    return {"n": n, "bits": str(draw(st.integers(0, 2 ** n - 1)))}


@st.composite
def _find_case(draw):
    nq = draw(st.integers(1, 5))
    qubits = draw(st.lists(st.tuples(st.integers(0, 4), st.integers(0, 4)).map(list), min_size=nq, max_size=nq, unique_by=repr))
    protos = []
    for i in range(draw(st.integers(1, 4))):
        k = draw(st.integers(1, min(3, nq)))
        protos.append({"key": f"k{i}", "q": list(draw(st.permutations(list(range(nq)))))[:k], "mask": draw(st.lists(st.booleans(), max_size=k)),
                       "tags": draw(st.lists(st.sampled_from(["t", "u"]), max_size=1))})
    seq = []
    for _ in range(draw(st.integers(1, 8))):
        i = draw(st.integers(0, len(protos) - 1))
        how = draw(st.sampled_from(["same", "same", "same", "same", "other_q", "other_mask", "other_tag", "gate"]))
        seq.append([i, how])
    return {"qubits": qubits, "protos": protos, "seq": seq, "line": draw(G.one_in(15))}


def oracle_find(r):
    qs = [cirq.GridQubit(*q) for q in r["qubits"]]
    if r.get("line"):
        qs = [cirq.LineQubit(i) for i in range(len(qs))]
    ops = []
    want = {}
    order = []
    conflict = False
    for i, how in r["seq"]:
        p = r["protos"][i % len(r["protos"])]
        qi = list(p["q"])
        mask = [bool(b) for b in p["mask"]]
        tags = list(p["tags"])
        if how == "gate":
            ops.append(cirq.X(qs[qi[0] % len(qs)]))
            continue
        if how == "other_q" and len(qi) > 1:
            qi = qi[::-1]
        elif how == "other_mask":
            mask = [not b for b in (mask + [False] * len(qi))[:len(qi)]]
        elif how == "other_tag":
            tags = tags + ["extra"]
        q = [qs[j % len(qs)] for j in qi]
        if len(set(q)) < len(q):
            raise Reject("repeated qubit")
        op = cirq.MeasurementGate(len(q), key=p["key"], invert_mask=tuple(mask[:len(q)])).on(*q)
        if tags:
            op = op.with_tags(*tags)
        ops.append(op)
        full = (mask + [False] * len(q))[:len(q)]
        desc = (tuple(q), tuple(full), tuple(tags))
        if p["key"] in want:
            if want[p["key"]][0] != desc:
                conflict = True
            want[p["key"]][1] += 1
        else:
            want[p["key"]] = [desc, 1]
            order.append(p["key"])
    circuit = cirq.Circuit()
    for op in ops:
        circuit.append(cirq.Moment([op]))
    has_meas = bool(order)
    try:
        got = v2.find_measurements(circuit)
    except ValueError:
        if conflict or (r.get("line") and has_meas):
            return {"nontrivial": True, "rejected_incompatible": True}
        raise Violation("find_measurements raised ValueError for compatible repeated keys on grid qubits")
    if conflict or (r.get("line") and has_meas):
        raise Violation("find_measurements accepted incompatible repeated keys / non-grid qubits")
    if [m.key for m in got] != order:
        raise Violation(f"find_measurements keys {[m.key for m in got]} expected (first occurrence order) {order}")
    for m in got:
        desc, inst = want[m.key]
        if (tuple(m.qubits), tuple(m.invert_mask), tuple(m.tags)) != desc or m.instances != inst:
            raise Violation(f"find_measurements key {m.key}: got qubits/mask/tags/instances {(m.qubits, m.invert_mask, m.tags, m.instances)} expected {desc, inst}")
    return {"nontrivial": any(v[1] > 1 for v in want.values()), "n_keys": len(order)}


# ========================================================================================== (4) device specifications


def _qname(q):
    return q if isinstance(q, str) else f"{q[0]}_{q[1]}"


def _attrs(r):
    """Attribute triples with a unique (qubit, name): the last one wins."""
    n = max(1, len(r["qubits"]))
    d = {}
    for q, name, val in r.get("attrs", []):
        d[(q if isinstance(q, str) else q % n, name)] = val
    return [[q, name, val] for (q, name), val in d.items()]


def _spec_proto(r):
    spec = device_pb2.DeviceSpecification()
    names = [_qname(q) for q in r["qubits"]]
    spec.valid_qubits.extend(names)
    for ts in r["targets"]:
        t = spec.valid_targets.add()
        t.name = ts["name"]
        t.target_ordering = {"SYMMETRIC": device_pb2.TargetSet.SYMMETRIC, "ASYMMETRIC": device_pb2.TargetSet.ASYMMETRIC,
                             "SUBSET_PERMUTATION": device_pb2.TargetSet.SUBSET_PERMUTATION, "UNSPECIFIED": device_pb2.TargetSet.UNSPECIFIED}[ts["ord"]]
        for ids in ts["t"]:
            t.targets.add().ids.extend([i if isinstance(i, str) else names[i % len(names)] for i in ids])
    for g, dur in r["gates"]:
        gs = spec.valid_gates.add()
        getattr(gs, g).SetInParent()
        if dur is not None:
            gs.gate_duration_picos = int(dur)
    for q, name, val in _attrs(r):
        a = spec.qubit_attributes[q if isinstance(q, str) else names[q % len(names)]].attributes[name]
        if isinstance(val, bool):
            a.bool_value = val
        elif isinstance(val, int):
            a.int_value = val
        elif isinstance(val, float):
            a.double_value = val
        elif isinstance(val, str):
            a.string_value = val
    return spec


def _probe_op(kind, qs):
    q = qs
    if kind == "SYC":
        return cg.SYC(*q)
    if kind == "FSIM_SYC":
        return cirq.FSimGate(theta=np.pi / 2, phi=np.pi / 6)(*q)
    if kind == "SQRT_ISWAP":
        return cirq.SQRT_ISWAP(*q)
    if kind == "FSIM_SQRT_ISWAP":
        return cirq.FSimGate(theta=-np.pi / 4, phi=0)(*q)
    if kind == "SQRT_ISWAP_INV":
        return cirq.SQRT_ISWAP_INV(*q)
    if kind == "FSIM_SQRT_ISWAP_INV":
        return cirq.FSimGate(theta=np.pi / 4, phi=0)(*q)
    if kind == "CZ":
        return cirq.CZ(*q)
    if kind == "FSIM_CZ":
        return cirq.FSimGate(theta=0, phi=np.pi)(*q)
    if kind == "CZ_POW":
        return (cirq.CZ ** 0.37)(*q)
    if kind == "PHXZ":
        return cirq.PhasedXZGate(x_exponent=0.2, z_exponent=0.3, axis_phase_exponent=0.4)(*q)
    if kind == "XPOW":
        return (cirq.X ** 0.3)(*q)
    if kind == "YPOW":
        return (cirq.Y ** sympy.Symbol("a"))(*q)
    if kind == "HPOW":
        return cirq.H(*q)
    if kind == "PHX":
        return cirq.PhasedXPowGate(phase_exponent=0.1, exponent=0.7)(*q)
    if kind == "IDENT":
        return cirq.I(*q)
    if kind == "CLIFF":
        return cirq.SingleQubitCliffordGate.all_single_qubit_cliffords[5](*q)
    if kind == "ZPOW":
        return (cirq.Z ** 0.2)(*q)
    if kind == "ZPOW_PHYS":
        return (cirq.Z ** 0.2)(*q).with_tags(cg.PhysicalZTag())
    if kind == "COUPLER":
        return CouplerPulse(hold_time=cirq.Duration(nanos=10), coupling_mhz=20)(*q)
    if kind.startswith("MEAS"):
        return cirq.measure(*q, key="m")
    if kind in ("WAIT1", "WAIT2"):
        return cirq.wait(*q, nanos=5)
    if kind == "WAITU":
        return cg.WaitGateWithUnit(5 * tunits.ns)(*q)
    if kind == "FSIM_MODEL":
        return cirq.FSimGate(theta=0.3, phi=0.4)(*q).with_tags(cg.FSimViaModelTag())
    if kind == "FSIM_TWO_PULSE":
        return cirq.FSimGate(theta=0.3, phi=0.4)(*q).with_tags(cg.TwoPulseFSimTag())
    if kind == "FSIM_OTHER":
        return cirq.FSimGate(theta=0.3, phi=0.4)(*q)
    if kind in ("INTERNAL1", "INTERNAL2"):
        return cg.InternalGate("G", "m", len(q), a=1)(*q)
    if kind == "RESET":
        return cirq.ResetChannel()(*q)
    if kind == "ADQ":
        return cg.AnalogDetuneQubit(length=5 * tunits.ns, w=1 * tunits.ns)(*q)
    if kind == "ADCO1":
        return cg.AnalogDetuneCouplerOnly(length=5 * tunits.ns, w=1 * tunits.ns, g_0=1 * tunits.MHz, g_max=2 * tunits.MHz)(*q)
    if kind == "CNOT":
        return cirq.CNOT(*q)
    if kind == "ISWAP":
        return cirq.ISWAP(*q)
    raise KeyError(kind)


def _decision(device, op):
    try:
        device.validate_operation(op)
        return True
    except ValueError:
        return False


def oracle_devices(r):
    spec = _spec_proto(r)
    spec = device_pb2.DeviceSpecification.FromString(spec.SerializeToString())
    reason = R.spec_invalid_reason(r)
    try:
        dev = cg.GridDevice.from_proto(spec)
    except ValueError as e:
        if reason is None:
            raise Violation(f"GridDevice.from_proto rejected a valid specification: {str(e)[:120]}")
        return {"nontrivial": False, "rejected": reason}
    if reason is not None:
        raise Violation(f"GridDevice.from_proto accepted an invalid specification ({reason})")
    names = [_qname(q) for q in r["qubits"]]
    qubits = [cirq.GridQubit(*q) for q in r["qubits"]]
    md = dev.metadata
    if set(md.qubit_set) != set(qubits):
        raise Violation(f"metadata.qubit_set {sorted(md.qubit_set)} differs from valid_qubits {sorted(qubits)}")
    want_pairs = {frozenset(qubits[i] for i in p) for p in R.spec_pairs(r)}
    if set(md.qubit_pairs) != want_pairs:
        raise Violation(f"metadata.qubit_pairs {sorted(map(sorted, md.qubit_pairs))} differ from the symmetric 2-qubit targets {sorted(map(sorted, want_pairs))}")
    want_attr = {}
    for q, name, val in _attrs(r):
        want_attr.setdefault(qubits[q % len(qubits)], {})[name] = val
    got_attr = {q: dict(a) for q, a in dev.qubit_attributes.items()}
    if got_attr != want_attr:
        raise Violation(f"qubit_attributes {want_attr} came back as {got_attr}")
    # durations: every gate family of a listed spec gets the duration of that spec (0 when unset)
    durs = md.gate_durations or {}
    for g, dur in r["gates"]:
        fams = [f for rep in cg.devices.grid_device._GATES if rep.gate_spec_name == g for f in rep.supported_gates]
        for f in fams:
            if f not in md.gateset.gates:
                raise Violation(f"gate family {f} of valid gate {g!r} missing from metadata.gateset")
            if durs.get(f) != cirq.Duration(picos=dur or 0):
                raise Violation(f"duration of {g!r} family {f}: {durs.get(f)} expected {dur or 0} ps")
    # round trip
    spec2 = dev.to_proto()
    dev2 = cg.GridDevice.from_proto(device_pb2.DeviceSpecification.FromString(spec2.SerializeToString()))
    if dev2 != dev or dev2.metadata != dev.metadata:
        raise Violation("GridDevice.from_proto(device.to_proto()) != device")
    if sorted(spec2.valid_qubits) != sorted(names):
        raise Violation(f"to_proto valid_qubits {list(spec2.valid_qubits)} differ from {names}")
    if sorted(g.WhichOneof("gate") for g in spec2.valid_gates) != sorted(g for g, _ in r["gates"]):
        raise Violation(f"to_proto valid_gates {[g.WhichOneof('gate') for g in spec2.valid_gates]} differ from {[g for g, _ in r['gates']]}")
    for gs in spec2.valid_gates:
        want_d = dict((g, d) for g, d in r["gates"])[gs.WhichOneof("gate")] or 0
        if gs.gate_duration_picos != want_d:
            raise Violation(f"to_proto duration of {gs.WhichOneof('gate')} {gs.gate_duration_picos} expected {want_d}")
    pairs2 = {frozenset(t.ids) for ts in spec2.valid_targets if ts.target_ordering == device_pb2.TargetSet.SYMMETRIC for t in ts.targets if len(t.ids) == 2}
    if pairs2 != {frozenset(names[i] for i in p) for p in R.spec_pairs(r)}:
        raise Violation("to_proto symmetric pair targets differ from the device's pairs")
    # (valid_qubits are written in set order, so the bytes of a second to_proto need not be identical; not demanded)
    # validate_operation decisions vs the reference predicate on the spec
    n = len(qubits)
    off = [cirq.GridQubit(9, 9), cirq.GridQubit(8, 9)]
    accepted = rejected = 0
    pair_dependent = False
    for kind, qi in r["probes"]:
        qs = [qubits[i] if i < n else off[i - n] for i in qi]
        on = [i < n for i in qi]
        op = _probe_op(kind, qs)
        want = R.spec_allows(r, kind, [i for i in qi], on)
        got1, got2 = _decision(dev, op), _decision(dev2, op)
        if got1 != got2:
            raise Violation(f"validate_operation({op}) differs before/after the to_proto round trip: {got1} vs {got2}")
        if got1 != want:
            raise Violation(f"validate_operation({op}) {'accepts' if got1 else 'rejects'}; the specification (gates {[g for g, _ in r['gates']]}, "
                            f"pairs {sorted(map(sorted, R.spec_pairs(r)))}, qubits on device {on}) says {'valid' if want else 'invalid'}")
        accepted += got1
        rejected += not got1
        if len(qi) == 2 and kind not in R.VARIADIC and all(on):
            pair_dependent = True
        if len(qi) == 2 and all(on) and got1:
            rev = _probe_op(kind, qs[::-1])
            if not _decision(dev, rev):
                raise Violation(f"validate_operation accepts {op} but rejects the reversed qubit order (pairs are symmetric)")
    return {"nontrivial": accepted > 0 and rejected > 0 and pair_dependent, "accepted_some": accepted > 0, "rejected_some": rejected > 0,
            "has_pairs": bool(R.spec_pairs(r)), "non_symmetric_target_sets": any(ts["ord"] != "SYMMETRIC" for ts in r["targets"]),
            "has_durations": any(d is not None for _, d in r["gates"]), "has_attrs": bool(r.get("attrs"))}


# ========================================================================================== (5) v1 API (narrower vocabulary)

V1_GATES = ["X", "Y", "Z", "PhX", "CZ", "M", "H", "ISWAP", "PhXZ"]


@st.composite
def _v1_case(draw):
    n = draw(st.sampled_from([1, 2, 3, 4]))
    qubits = draw(st.lists(st.tuples(st.integers(0, 5), st.integers(0, 5)).map(list), min_size=n, max_size=n, unique_by=repr))
    val = st.one_of(G.numbers().map(lambda x: ["f", x]), G.numbers().map(lambda x: ["f", x]), st.sampled_from(G.SYMS).map(lambda s_: ["s", s_]))
    ops = []
    for _ in range(draw(st.sampled_from([1, 2, 3, 5, 8]))):
        k = draw(st.sampled_from(["X", "Y", "Z", "PhX", "CZ", "M", "X", "Y", "Z", "PhX", "CZ", "M", "unsupported" if draw(G.one_in(3)) else "PhX"]))
        if k == "unsupported":
            k = draw(st.sampled_from(["H", "ISWAP", "PhXZ"]))
        ar = 2 if k in ("CZ", "ISWAP") else draw(st.sampled_from([1, 1, 2, 3])) if k == "M" else 1
        if ar > n:
            continue
        qs = list(draw(st.permutations(list(range(n)))))[:ar]
        o = {"k": k, "q": qs, "e": draw(val), "s": draw(st.sampled_from([0, 0, -0.5, 0.5]))}
        if k == "PhX":
            o["p"] = draw(val)
        if k == "M":
            o["key"] = draw(st.sampled_from(["m", "k0", "z z"]))
            o["mask"] = draw(st.lists(st.booleans(), max_size=ar))
        ops.append(o)
    return {"qubits": qubits, "ops": ops, "delay": draw(st.integers(0, 10 ** 6))}


def _v1_build(o, qubits):
    qs = [qubits[i % len(qubits)] for i in o["q"]]
    k = o["k"]
    e = G.build_expr(o["e"])
    if k in ("X", "Y", "Z", "CZ"):
        cls = {"X": cirq.XPowGate, "Y": cirq.YPowGate, "Z": cirq.ZPowGate, "CZ": cirq.CZPowGate}[k]
        return cls(exponent=e, global_shift=o.get("s", 0)).on(*qs)
    if k == "PhX":
        return cirq.PhasedXPowGate(phase_exponent=G.build_expr(o["p"]), exponent=e, global_shift=o.get("s", 0)).on(*qs)
    if k == "M":
        return cirq.MeasurementGate(len(qs), key=o["key"], invert_mask=tuple(bool(b) for b in o["mask"][:len(qs)])).on(*qs)
    if k == "H":
        return cirq.H(*qs)
    if k == "ISWAP":
        return cirq.ISWAP(*qs)
    return cirq.PhasedXZGate(x_exponent=0.5, z_exponent=0.25, axis_phase_exponent=0.125).on(*qs)


def _v1_cmp_val(what, got, orig):
    if isinstance(orig, sympy.Basic):
        if got != orig:
            raise Violation(f"v1 {what}: symbol {orig} came back as {got!r}")
    elif not (_is_num(got) and float(got) == R.f32(orig)):
        raise Violation(f"v1 {what}: {orig!r} came back as {got!r}, float32 rounding gives {R.f32(orig)!r}")


def _v1_cmp_op(got, orig):
    if tuple(got.qubits) != tuple(orig.qubits):
        raise Violation(f"v1: qubits {orig.qubits} came back as {got.qubits}")
    g, o = got.gate, orig.gate
    if isinstance(o, cirq.MeasurementGate):
        if not isinstance(g, cirq.MeasurementGate) or g.key != o.key or tuple(g.full_invert_mask()) != tuple(o.full_invert_mask()):
            raise Violation(f"v1: measurement {orig!r} came back as {got!r}")
        return
    if isinstance(o, (cirq.XPowGate, cirq.YPowGate, cirq.PhasedXPowGate)):
        if not isinstance(g, cirq.PhasedXPowGate):
            raise Violation(f"v1: {orig!r} came back as {got!r}")
        _v1_cmp_val("half_turns", g.exponent, o.exponent)
        axis = 0 if isinstance(o, cirq.XPowGate) else 0.5 if isinstance(o, cirq.YPowGate) else o.phase_exponent
        if _is_num(axis):
            if not _is_num(g.phase_exponent) or math.remainder(float(g.phase_exponent) - R.f32(axis), 2.0) != 0:
                raise Violation(f"v1: axis_half_turns {axis!r} of {orig!r} came back as {g.phase_exponent!r}")
        else:
            _v1_cmp_val("axis_half_turns", g.phase_exponent, axis)
    elif isinstance(o, cirq.ZPowGate):
        if not isinstance(g, cirq.ZPowGate):
            raise Violation(f"v1: {orig!r} came back as {got!r}")
        _v1_cmp_val("half_turns", g.exponent, o.exponent)
    elif isinstance(o, cirq.CZPowGate):
        if not isinstance(g, cirq.CZPowGate):
            raise Violation(f"v1: {orig!r} came back as {got!r}")
        _v1_cmp_val("half_turns", g.exponent, o.exponent)
    else:
        raise Violation(f"v1: unsupported gate {orig!r} was accepted and came back as {got!r}")
    if not cirq.is_parameterized(orig):
        u0, u1 = cirq.unitary(orig), cirq.unitary(got)
        k = int(np.argmax(np.abs(u0)))
        ph = u1.flat[k] / u0.flat[k] if abs(u0.flat[k]) > 1e-9 else 1
        if not np.allclose(u1, ph * u0, atol=2e-6 * (1 + abs(float(o.exponent)))):
            raise Violation(f"v1: {orig!r} came back as {got!r}: unitaries differ beyond a global phase")


def oracle_v1_programs(r):
    from cirq_google.api.v1 import operations_pb2

    qubits = [cirq.GridQubit(*q) for q in r["qubits"]]
    ops = [_v1_build(o, qubits) for o in r["ops"]]
    c = cirq.Circuit(ops)
    supported = all(o["k"] in ("X", "Y", "Z", "PhX", "CZ", "M") for o in r["ops"])
    for op in ops:
        want_native = isinstance(op.gate, (cirq.CZPowGate, cirq.MeasurementGate, cirq.PhasedXPowGate, cirq.XPowGate, cirq.YPowGate, cirq.ZPowGate))
        if v1.is_native_xmon_op(op) != want_native:
            raise Violation(f"v1.is_native_xmon_op({op!r}) is {not want_native}")
    try:
        protos = list(v1.circuit_as_schedule_to_protos(c))
    except ValueError:
        if supported:
            raise Violation("v1.circuit_as_schedule_to_protos raised ValueError for a circuit over the xmon vocabulary")
        return {"nontrivial": False, "unsupported_rejected": True}
    if not supported:
        raise Violation("v1.circuit_as_schedule_to_protos accepted a gate outside the xmon vocabulary")
    protos = [operations_pb2.Operation.FromString(p.SerializeToString()) for p in protos]
    back = v1.circuit_from_schedule_from_protos(protos)
    want = cirq.Circuit(list(c.all_operations()))
    if len(back) != len(want):
        raise Violation(f"v1: {len(want)} moments came back as {len(back)}")
    for i, (mg, mo) in enumerate(zip(back, want)):
        if len(mg) != len(mo):
            raise Violation(f"v1 moment {i}: {len(mo)} operations came back as {len(mg)}")
        by_q = {frozenset(op.qubits): op for op in mg}
        for op in mo:
            g = by_q.get(frozenset(op.qubits))
            if g is None:
                raise Violation(f"v1 moment {i}: no operation on {op.qubits} came back")
            _v1_cmp_op(g, op)
    # single op + delay
    if ops:
        p = v1.gate_to_proto(ops[0].gate, ops[0].qubits, delay=int(r["delay"]))
        if p.incremental_delay_picoseconds != r["delay"]:
            raise Violation(f"v1.gate_to_proto delay {r['delay']} written as {p.incremental_delay_picoseconds}")
        _v1_cmp_op(v1.xmon_op_from_proto(p), ops[0])
    sym = any(cirq.is_parameterized(op) for op in ops)
    return {"nontrivial": sym and len(ops) >= 2, "symbolic": sym, "has_measurement": any(o["k"] == "M" for o in r["ops"]), "n_ops": min(len(ops), 8)}


@st.composite
def _v1_sweep_case(draw):
    keys = list(G.KEYS) + ["k8", "k9", "k10", "k11"]

    def single():
        k = keys.pop(0)
        if draw(st.booleans()):
            return ["lin", k, draw(G.numbers()), draw(G.numbers()), draw(st.sampled_from([1, 2, 3, 4])), None, None]
        return ["pts", k, draw(st.lists(st.one_of(G.numbers().map(lambda x: ["f", x]), st.integers(-3, 3).map(lambda i: ["i", i])), min_size=1, max_size=4)), None]

    def zipped(kind="zip"):
        return [kind, [single() for _ in range(draw(st.sampled_from([1, 2, 3])))]]

    form = draw(st.sampled_from(["single", "zip", "prod_singles", "prod_zips", "prod_mixed", "unit", "nested", "ziplongest", "concat"]))
    if form == "single":
        tree = single()
    elif form == "zip":
        tree = zipped()
    elif form == "prod_singles":
        tree = ["prod", [single() for _ in range(draw(st.sampled_from([1, 2, 3])))]]
    elif form == "prod_zips":
        tree = ["prod", [zipped() for _ in range(draw(st.sampled_from([1, 2, 3])))]]
    elif form == "prod_mixed":
        tree = ["prod", [zipped(), single(), zipped()][:draw(st.sampled_from([2, 3]))]]
    elif form == "unit":
        tree = ["unit"]
    elif form == "nested":
        tree = ["zip", [["prod", [single(), single()]], single()]]
    elif form == "ziplongest":
        tree = ["prod", [zipped("ziplongest"), single()]]
    else:
        k = keys.pop(0)
        tree = ["concat", [["pts", k, [["f", 1.0]], None], ["pts", k, [["f", 2.0]], None]]]
    return {"sweep": tree, "reps": draw(st.integers(0, 10 ** 6)), "form": form}


def oracle_v1_params(r):
    from cirq_google.api.v1 import params_pb2

    tree = r["sweep"]
    sweep = _build_sweep_or_reject(tree)
    convertible = r["form"] not in ("nested", "concat")
    if r["form"] == "ziplongest":  # the v1 format has no zip-longest: only expressible when it coincides with a Zip
        lens = {(n[4] if n[0] == "lin" else len(n[2])) for n in tree[1][0][1]}
        convertible = len(lens) <= 1
    try:
        msg = v1.sweep_to_proto(sweep, repetitions=int(r["reps"]))
    except ValueError:
        if convertible:
            raise Violation(f"v1.sweep_to_proto raised ValueError for a product of zips of single sweeps ({r['form']})")
        return {"nontrivial": False, "unconvertible_rejected": True}
    if not convertible:
        raise Violation(f"v1.sweep_to_proto accepted a sweep that is not a product of zips ({r['form']})")
    msg = params_pb2.ParameterSweep.FromString(msg.SerializeToString())
    if msg.repetitions != r["reps"]:
        raise Violation(f"v1.sweep_to_proto repetitions {r['reps']} written as {msg.repetitions}")
    back = v1.sweep_from_proto(msg)
    want = _sweep_reference(_v1_f32_tree(tree), False)
    got = [dict(t) for t in back.param_tuples()]
    if len(got) != len(want):
        raise Violation(f"v1 sweep: {len(want)} assignments expected, deserialized sweep has {len(got)}")
    for i, (g, w) in enumerate(zip(got, want)):
        if set(g) != set(w):
            raise Violation(f"v1 sweep: assignment {i} has keys {sorted(g)} expected {sorted(w)}")
        for k in w:
            _cmp_sweep_value(f"v1 sweep: assignment {i} key {k}", g[k], w[k], exact=False)
    return {"form": r["form"], "nontrivial": r["form"] in ("prod_zips", "prod_mixed"), "n_assignments": min(len(want), 9)}


def _v1_f32_tree(t):
    """v1 Points are always a repeated float (also a single point / ints)."""
    if t[0] == "pts":
        return ["pts", t[1], [["f", float(v[1])] for v in t[2]] + ([] if len(t[2]) != 1 else []), None] if len(t[2]) != 1 else \
            ["lin", t[1], float(t[2][0][1]), float(t[2][0][1]), 1, None, None]
    if t[0] in ("zip", "prod", "ziplongest", "concat"):
        return [t[0], [_v1_f32_tree(c) for c in t[1]]]
    return t


@st.composite
def _v1_pack_case(draw):
    nk = draw(st.sampled_from([0, 1, 1, 2, 3, 5]))
    sizes = [draw(st.sampled_from([1, 1, 2, 3, 5, 9])) for _ in range(nk)]
    reps = draw(st.one_of(st.integers(0, 40), st.sampled_from([1, 7, 8, 9, 16, 17])))
    total = reps * sum(sizes)
    return {"sizes": sizes, "reps": reps, "bits": str(draw(st.integers(0, 2 ** max(total, 1) - 1)))}


def oracle_v1_pack(r):
    sizes, reps = list(r["sizes"]), int(r["reps"])
    per = sum(sizes)
    bits = _bits_from_int(int(r["bits"]), reps * per)
    arr = np.array(bits, dtype=bool).reshape((reps, per)) if per else np.zeros((reps, 0), dtype=bool)
    meas = []
    ofs = 0
    for i, sz in enumerate(sizes):
        meas.append((f"k{i}", arr[:, ofs:ofs + sz]))
        ofs += sz
    data = v1.pack_results(meas)
    want = R.ref_pack_bits(bits)  # <rep0><rep1>..., each rep <key0 bits><key1 bits>..., little endian
    if data != want:
        raise Violation(f"v1.pack_results of {reps} reps x sizes {sizes} gives {data.hex()}, documented layout gives {want.hex()}")
    back = v1.unpack_results(data, reps, [(f"k{i}", sz) for i, sz in enumerate(sizes)])
    for (k, a) in meas:
        if k not in back or back[k].shape != a.shape or not np.array_equal(back[k], a):
            raise Violation(f"v1.unpack_results(pack_results(m)) differs for key {k} (reps {reps}, sizes {sizes})")
    return {"nontrivial": (reps * per) % 8 != 0 and len(sizes) >= 2, "bits_not_multiple_of_8": (reps * per) % 8 != 0}


SUBCHECKS = [
    SubCheck("programs", G.program_recipes(), oracle_programs, quick=2400, thorough=60000, shards_quick=8, shards_thorough=16,
             essential={"repeated_constant": 0.3, "symbolic": 0.1, "ops_differ_only_in_tag": 0.01, "has_subcircuit": 0.03}),
    SubCheck("multi_program", _multi_case(), oracle_multi, quick=500, thorough=15000, shards_quick=2, shards_thorough=8),
    SubCheck("args", _arg_case(), oracle_args, quick=3000, thorough=100000, shards_quick=2, shards_thorough=8),
    SubCheck("sweeps", _sweep_case(), oracle_sweeps, quick=2500, thorough=80000, shards_quick=4, shards_thorough=8,
             essential={"three_factors": 0.1, "has_metadata": 0.1}),
    SubCheck("run_context", _rc_case(), oracle_run_context, quick=800, thorough=20000, shards_quick=2, shards_thorough=4),
    SubCheck("results", G.result_recipes(), oracle_results, quick=1200, thorough=40000, shards_quick=2, shards_thorough=8,
             essential={"reps_not_multiple_of_8": 0.3, "qubit_order_permuted": 0.05}),
    SubCheck("pack_bits", _pack_case(), oracle_pack, quick=1000, thorough=30000, shards_quick=1, shards_thorough=2, enumerate=_pack_cases,
             exhaustive_in=()),
    SubCheck("devices", G.device_recipes(), oracle_devices, quick=1200, thorough=40000, shards_quick=2, shards_thorough=8),
    SubCheck("find_measurements", _find_case(), oracle_find, quick=800, thorough=20000, shards_quick=1, shards_thorough=2),
    SubCheck("v1_programs", _v1_case(), oracle_v1_programs, quick=1000, thorough=30000, shards_quick=1, shards_thorough=4),
    SubCheck("v1_params", _v1_sweep_case(), oracle_v1_params, quick=800, thorough=20000, shards_quick=1, shards_thorough=2),
    SubCheck("v1_pack_results", _v1_pack_case(), oracle_v1_pack, quick=600, thorough=20000, shards_quick=1, shards_thorough=2),
]
