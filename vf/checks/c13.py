"""C13 — the Clifford/stabilizer subsystem agrees with full state simulation."""
from __future__ import annotations

import hashlib
import itertools
import os
import sys

import numpy as np
from hypothesis import strategies as st

import cirq
from vf.core import Reject, SubCheck, Violation
from vf.gen import clifford_ops as CO
from vf.gen import gates as G
from vf.prng import ScriptedPRNG, enumerate_branches
from vf.ref import clifford_group as CG
from vf.ref import interp as RI
from vf.ref import linalg as L

RULE = (
    "E1: every one of the 24 single-qubit Clifford elements (own BFS over {H,S} on matrices mod phase) through every "
    "SingleQubitCliffordGate constructor / conversion / power / decomposition, all 24x24 products, all single-map, "
    "quarter-turn and named constructors (exhaustive). E2: all 11520 two-qubit Clifford elements (own BFS over "
    "{H0,H1,S0,S1,CX01}); thorough = all, quick = the elements whose blake2(seed,index) is 0 mod 8; plus drawn pairs "
    "for tableau composition. R: Hypothesis draws a register (1-6 wires, permuted qubit names), a basis initial state "
    "and a list of operations from every gate family that claims has_stabilizer_effect at the drawn parameters, "
    "interleaved with (multi-qubit, inverted) measurements and resets (measurement-heavy histories: measure, keep computing on "
    "the measured and neighbouring qubits, measure again, often every qubit at the end), plus a PRNG script; the operations are applied "
    "with cirq.act_on to a CliffordTableauSimulationState and a StabilizerChFormSimulationState and followed by a dense "
    "reference along the observed outcomes (step-wise), and whole outcome distributions / final states of act_on, "
    "CliffordSimulator.simulate/run and StabilizerSampler are enumerated exactly through the scripted PRNG. "
    "Non-trivial (R): the state becomes entangled (a stabilizer generator set that is not a product state) and a "
    "sign-carrying gate (Y, S**-1, X**-0.5, negative Pauli string ...) precedes a measurement or reset. "
    "Distinct = distinct recipe hash."
)
ASSUMPTIONS = [
    "R: cirq.unitary(op) is taken as the matrix of each single operation (E1/E2 and C03/C04 decide that); the evolution, "
    "projection, branching and probabilities are recomputed densely and independently",
    "E1/E2: reference matrices come from the harness' own BFS over textbook H, S, CNOT matrices; signed Pauli images "
    "U P U^dagger are identified by Hilbert-Schmidt projection onto the textbook Pauli basis",
    "a CliffordGate carries no global phase by documentation; where it is applied to the CH form the phase of "
    "cirq.unitary(gate) is used (its direction relative to the constituent operations is still checked)",
    "tolerances: 1e-7*(1+depth) on amplitudes, 1e-9 on probabilities (which must be exactly 0.5 or 1 per measured qubit)",
]
SENSITIVITY = [
    "tableau apply_y sign rule (Y**1)",
    "tableau _rowsum phase exponent mod 2 instead of mod 4",
    "CH-form update_sum drops (-1)**alpha from omega",
    "tableau _measure keeps the stale destabilizer row",
    "CliffordTableau.then composes in the wrong order",
    "SWAP via CX misses the third CX",
    "SingleQubitCliffordGate.merged_with argument order",
    "CH-form apply_cx gamma update loses the M.F term",
    "CliffordTableau.inverse without sign fix-up",
    "tableau decomposition emits S**-1 for the recorded S",
    "_pad_tableau drops the sign bits",
    "CH-form reindex keeps gamma unpermuted",
    "from_unitary_with_global_phase returns the conjugate phase",
    "single-qubit fallback forgets the global phase",
    "CH-form kron drops the second omega",
    "CH-form project_Z ignores the requested outcome",
    "CliffordGate.__pow__ negative exponent skips the inverse",
    "to_phased_xz_gate: wrong z for the X_sqrt class",
    "HPowGate claims stabilizer effect at half-integer exponents",
    "StabilizerSampler starts every repetition in |0..01>",
    "tableau apply_cz drops the sign update of the middle CX",
]

SQ = cirq.SingleQubitCliffordGate
PG = {"X": cirq.X, "Y": cirq.Y, "Z": cirq.Z}
TOL = 1e-7


def _seed() -> str:
    a = sys.argv
    for i, x in enumerate(a):
        if x == "--seed" and i + 1 < len(a):
            return a[i + 1]
        if x.startswith("--seed="):
            return x.split("=", 1)[1]
    return os.environ.get("VERIF_SEED") or "1"


def _in_slice(i: int, denom: int = 8) -> bool:
    h = hashlib.blake2b(f"{_seed()}|{i}".encode(), digest_size=4).digest()
    return int.from_bytes(h, "big") % denom == 0


def _phase_eq(what, got, want, tol=TOL):
    got = np.asarray(got)
    if got.shape != np.asarray(want).shape:
        raise Violation(f"{what}: shape {got.shape} != {np.asarray(want).shape}")
    d = L.diff_up_to_phase(got, want)
    if not d <= tol:
        raise Violation(f"{what}: differs (up to global phase) from the reference matrix by {d:.3g}")


def _exact_eq(what, got, want, tol=TOL):
    d = L.max_abs_diff(np.asarray(got), np.asarray(want))
    if not d <= tol:
        raise Violation(f"{what}: differs (global phase included) from the reference by {d:.3g}")


def _rot(p: str, quarter_turns: int) -> np.ndarray:
    """exp(-i*pi*quarter_turns/4 * P): rotation by quarter_turns*90 degrees about the Pauli axis."""
    t = np.pi * quarter_turns / 4
    return np.cos(t) * L.I2 - 1j * np.sin(t) * L.PAULI[p]


def _ops_matrix(ops, qs):
    n = len(qs)
    u = np.eye(2 ** n, dtype=complex)
    for op in ops:
        u = L.embed(cirq.unitary(op), [qs.index(q) for q in op.qubits], [2] * n) @ u
    return u


def _tableau_rows(t: cirq.CliffordTableau):
    """[(label, sign)] of a cirq tableau: n destabilizer/X rows then n stabilizer/Z rows."""
    rows = []
    for i in range(2 * t.n):
        lab = "".join("IZXY"[2 * int(t.xs[i, k]) + int(t.zs[i, k])] for k in range(t.n))
        rows.append((lab, -1 if t.rs[i] else 1))
    return rows


def _mk_tableau(rows):
    n = len(rows) // 2
    xs = np.array([CG.xz_bits(lab)[0] for lab, _ in rows], dtype=bool)
    zs = np.array([CG.xz_bits(lab)[1] for lab, _ in rows], dtype=bool)
    rs = np.array([s < 0 for _, s in rows], dtype=bool)
    return cirq.CliffordTableau(n, rs=rs, xs=xs, zs=zs)


def _pauli_name(gate) -> str:
    """'X' / 'Y' / 'Z' / 'I' of a Pauli (or identity) gate object, by gate equality (not by its printed text)."""
    for name, ref in (("X", cirq.X), ("Y", cirq.Y), ("Z", cirq.Z), ("I", cirq.I)):
        if gate == ref:
            return name
    raise Violation(f"expected a Pauli gate, got {type(gate).__name__}")


def _pt(g, p):
    to, flip = g.pauli_tuple(PG[p])
    return _pauli_name(to), (-1 if flip else 1)


# =========================================================================================== E1: single-qubit group


def _e1_recipes(tier):
    words, _ = CG.group1()
    out = [{"k": "elem", "i": i, "w": w} for i, w in enumerate(words)]
    out.append({"k": "named"})
    for f, t, flip in itertools.product("XYZ", "XYZ", [False, True]):
        out.append({"k": "single_map", "f": f, "t": t, "flip": flip})
    for p, n in itertools.product("XYZ", range(-5, 7)):
        out.append({"k": "quarter", "p": p, "n": n})
    return out


def _e1_pair_recipes(tier):
    words, _ = CG.group1()
    return [{"a": a, "b": b} for a in words for b in words]


def oracle_e1(r):
    k = r["k"]
    q = cirq.NamedQubit("q")
    if k == "named":
        named = {"I": L.I2, "X": L.PX, "Y": L.PY, "Z": L.PZ, "H": (L.PX + L.PZ) / np.sqrt(2), "S": np.diag([1, 1j]),
                 "X_sqrt": _rot("X", 1), "X_nsqrt": _rot("X", -1), "Y_sqrt": _rot("Y", 1), "Y_nsqrt": _rot("Y", -1),
                 "Z_sqrt": _rot("Z", 1), "Z_nsqrt": _rot("Z", -1)}
        for name, m in named.items():
            _phase_eq(f"unitary(SingleQubitCliffordGate.{name})", cirq.unitary(getattr(SQ, name)), m)
        alls = SQ.all_single_qubit_cliffords
        keys = {CG.phase_key(cirq.unitary(g)) for g in alls}
        refkeys = {CG.phase_key(m) for m in CG.group1()[1]}
        if len(alls) != 24 or keys != refkeys:
            raise Violation(f"all_single_qubit_cliffords has {len(keys)} distinct elements of the 24-element group")
        if len(set(alls)) != 24:
            raise Violation("all_single_qubit_cliffords contains equal gates")
        cx = np.array([[1, 0, 0, 0], [0, 1, 0, 0], [0, 0, 0, 1], [0, 0, 1, 0]], dtype=complex)
        sw = np.array([[1, 0, 0, 0], [0, 0, 1, 0], [0, 1, 0, 0], [0, 0, 0, 1]], dtype=complex)
        cz = np.diag([1, 1, 1, -1]).astype(complex)
        for name, g, m in [("CliffordGate.CNOT", cirq.CliffordGate.CNOT, cx), ("CliffordGate.CZ", cirq.CliffordGate.CZ, cz),
                           ("CliffordGate.SWAP", cirq.CliffordGate.SWAP, sw), ("CXSWAP", cirq.CXSWAP, sw @ cx),
                           ("CZSWAP", cirq.CZSWAP, sw @ cz)]:
            _phase_eq(f"unitary({name})", cirq.unitary(g), m)
            if _tableau_rows(g.clifford_tableau) != CG.reference_tableau(m):
                raise Violation(f"tableau of {name} is not the signed Pauli images of its matrix")
        # from_unitary on non-Clifford input is None (documented)
        t = np.diag([1, np.exp(0.25j * np.pi)])
        for name, m in [("T", t), ("H@T", named["H"] @ t), ("non-unitary", np.array([[1, 1], [0, 1]], dtype=complex)),
                        ("4x4", np.eye(4, dtype=complex))]:
            if SQ.from_unitary(m) is not None or SQ.from_unitary_with_global_phase(m) is not None:
                raise Violation(f"from_unitary({name}) is not None for a matrix outside the single-qubit Clifford group")
        return {"nontrivial": True, "kind": k}

    if k == "single_map":
        g1 = SQ.from_single_map({PG[r["f"]]: (PG[r["t"]], bool(r["flip"]))})
        g2 = SQ.from_single_map(**{r["f"].lower() + "_to": (PG[r["t"]], bool(r["flip"]))})
        if g1 != g2:
            raise Violation("from_single_map(dict) != from_single_map(kwargs)")
        want = (r["t"], -1 if r["flip"] else 1)
        if _pt(g1, r["f"]) != want:
            raise Violation(f"from_single_map({r['f']}->{want}) maps {r['f']} to {_pt(g1, r['f'])}")
        u = cirq.unitary(g1)
        # documented: a 90 or 180 degree rotation (about a Pauli axis) or the identity
        rots = [_rot(p, n) for p in "XYZ" for n in (0, 1, 2, 3)]
        if not any(CG.equal_up_to_phase(u, m) for m in rots):
            raise Violation("from_single_map result is not a 0/90/180 degree rotation about a Pauli axis")
        if CG.conj_pauli(u, r["f"]) != want:
            raise Violation("from_single_map: unitary of the gate does not perform the requested transform")
        return {"nontrivial": r["f"] != r["t"] or bool(r["flip"]), "kind": k}

    if k == "quarter":
        p, n = r["p"], int(r["n"])
        g = SQ.from_quarter_turns(PG[p], n)
        _phase_eq(f"unitary(from_quarter_turns({p},{n}))", cirq.unitary(g), _rot(p, n))
        if n in (1, 2):
            g2 = SQ.from_pauli(PG[p], sqrt=(n == 1))
            if g2 != g:
                raise Violation(f"from_pauli({p}, sqrt={n == 1}) != from_quarter_turns({p},{n})")
            _phase_eq(f"unitary(from_pauli({p}, sqrt={n == 1}))", cirq.unitary(g2), _rot(p, n))
        # half-integer powers of the Pauli Cliffords: X**(n/2) is n quarter turns
        h = getattr(SQ, p) ** (n / 2)
        _phase_eq(f"unitary(SingleQubitCliffordGate.{p}**{n / 2})", cirq.unitary(h), _rot(p, n))
        if h != g:
            raise Violation(f"SingleQubitCliffordGate.{p}**{n / 2} != from_quarter_turns({p},{n})")
        return {"nontrivial": n % 4 != 0, "kind": k}

    # ---- one group element through every constructor / conversion
    w = r["w"]
    U = CG.word_matrix(w, 1)
    ref = {p: CG.conj_pauli(U, p) for p in "XYZ"}
    g = SQ.from_unitary(U)
    if g is None:
        raise Violation("from_unitary(U) is None for a Clifford matrix")
    _phase_eq("unitary(from_unitary(U))", cirq.unitary(g), U)
    tup = {p: (PG[ref[p][0]], ref[p][1] < 0) for p in "XYZ"}
    same = {"from_xz_map": SQ.from_xz_map(tup["X"], tup["Z"])}
    for a, b in [("X", "Y"), ("X", "Z"), ("Y", "Z"), ("Z", "X")]:
        same[f"from_double_map(dict {a}{b})"] = SQ.from_double_map({PG[a]: tup[a], PG[b]: tup[b]})
        same[f"from_double_map(kw {a}{b})"] = SQ.from_double_map(**{a.lower() + "_to": tup[a], b.lower() + "_to": tup[b]})
    rows = CG.reference_tableau(U)
    same["from_clifford_tableau"] = SQ.from_clifford_tableau(_mk_tableau(rows))
    same["CliffordGate.from_clifford_tableau"] = cirq.CliffordGate.from_clifford_tableau(_mk_tableau(rows))
    same["CliffordGate.from_op_list"] = cirq.CliffordGate.from_op_list(CO.word_ops(w, [q]), [q])
    for turns in (0.125, 0.5, 0.3141):
        ph = np.exp(2j * np.pi * turns)
        same[f"from_unitary(U*phase {turns})"] = SQ.from_unitary(U * ph)
        gp = SQ.from_unitary_with_global_phase(U * ph)
        if gp is None:
            raise Violation("from_unitary_with_global_phase is None for a Clifford matrix")
        same[f"from_unitary_with_global_phase({turns})"] = gp[0]
        _exact_eq("from_unitary_with_global_phase: unitary(gate)*phase", cirq.unitary(gp[0]) * gp[1], U * ph, 1e-9)
    for name, h in same.items():
        if h is None or not (h == g) or hash(h) != hash(g):
            raise Violation(f"{name} gives a gate different from from_unitary(U)")
    matches = [j for j, h in enumerate(SQ.all_single_qubit_cliffords) if h == g]
    if len(matches) != 1:
        raise Violation(f"gate equals {len(matches)} entries of all_single_qubit_cliffords")
    if _tableau_rows(g.clifford_tableau) != rows:
        raise Violation(f"clifford_tableau rows {_tableau_rows(g.clifford_tableau)} != signed Pauli images {rows}")
    for p in "XYZ":
        if _pt(g, p) != ref[p]:
            raise Violation(f"pauli_tuple({p}) = {_pt(g, p)} but U {p} U^dagger = {ref[p]}")
        d = g.dense_pauli_string(PG[p])
        _exact_eq(f"dense_pauli_string({p})", cirq.unitary(d), ref[p][1] * L.PAULI[ref[p][0]], 1e-9)
        if g.commutes_with_pauli(PG[p]) != (ref[p] == (p, 1)):
            raise Violation(f"commutes_with_pauli({p}) = {g.commutes_with_pauli(PG[p])} but U {p} U^dagger = {ref[p]}")
    _phase_eq("unitary(to_phased_xz_gate())", cirq.unitary(g.to_phased_xz_gate()), U)
    dec = list(g.decompose_gate())
    m = np.eye(2, dtype=complex)
    for h in dec:
        if not isinstance(h, (cirq.XPowGate, cirq.YPowGate, cirq.ZPowGate, cirq.HPowGate)):
            raise Violation(f"decompose_gate contains {h!r}, not an H / Pauli rotation")
        m = cirq.unitary(h) @ m
    _exact_eq("decompose_gate product vs cirq.unitary(gate) (documented: including global phase)", m, cirq.unitary(g), 1e-9)
    _phase_eq("decompose_gate product", m, U)
    rot = list(g.decompose_rotation())
    if len(rot) > 2:
        raise Violation(f"decompose_rotation gives {len(rot)} rotations (documented: zero, one or two)")
    m = np.eye(2, dtype=complex)
    for pa, qt in rot:
        m = _rot(_pauli_name(pa), qt) @ m
    _phase_eq("decompose_rotation product", m, U)
    _phase_eq("decompose_once(gate(q))", _ops_matrix(cirq.decompose_once(g.on(q)), [q]), U)
    _phase_eq("Circuit(gate(q)).unitary()", cirq.Circuit(g.on(q)).unitary(), U)
    if not cirq.has_stabilizer_effect(g) or not cirq.has_unitary(g):
        raise Violation("gate does not claim stabilizer effect / unitary")
    _phase_eq("unitary(gate**-1)", cirq.unitary(g ** -1), U.conj().T)
    _phase_eq("unitary(cirq.inverse(gate))", cirq.unitary(cirq.inverse(g)), U.conj().T)
    for e in range(-7, 27):
        _phase_eq(f"unitary(gate**{e})", cirq.unitary(g ** e), np.linalg.matrix_power(U if e >= 0 else U.conj().T, abs(e)))
        if (g ** e) != SQ.from_unitary(np.linalg.matrix_power(U if e >= 0 else U.conj().T, abs(e))):
            raise Violation(f"gate**{e} is not the gate of U**{e}")
    nhalf = 0
    for h2 in (-5, -3, -1, 1, 3, 5):
        try:
            s = g ** (h2 / 2)
        except TypeError:
            continue  # documented as NotImplemented for gates without a registered square root
        nhalf += 1
        us = cirq.unitary(s)
        _phase_eq(f"(gate**{h2 / 2}) squared vs gate**{h2}", us @ us, np.linalg.matrix_power(U if h2 >= 0 else U.conj().T, abs(h2)))
    return {"nontrivial": w != "", "kind": k, "has_half_powers": nhalf > 0, "n_rot": len(rot)}


def oracle_e1_pair(r):
    A, B = CG.word_matrix(r["a"], 1), CG.word_matrix(r["b"], 1)
    a, b = SQ.from_unitary(A), SQ.from_unitary(B)
    ab = a.merged_with(b)  # documented: --output-- == --a--b--
    _phase_eq("unitary(a.merged_with(b)) vs U_b U_a", cirq.unitary(ab), B @ A)
    want = SQ.from_unitary(B @ A)
    if ab != want:
        raise Violation("a.merged_with(b) != from_unitary(U_b U_a)")
    t = a.clifford_tableau.then(b.clifford_tableau)
    rows = CG.reference_tableau(B @ A)
    if _tableau_rows(t) != rows:
        raise Violation(f"a.tableau.then(b.tableau) rows {_tableau_rows(t)} != signed Pauli images of U_b U_a {rows}")
    t2 = b.clifford_tableau @ a.clifford_tableau
    if t2 != t:
        raise Violation("b.tableau @ a.tableau != a.tableau.then(b.tableau)")
    comm = CG.equal_up_to_phase(A @ B, B @ A)
    if a.commutes_with_single_qubit_gate(b) != comm:
        raise Violation(f"commutes_with_single_qubit_gate = {a.commutes_with_single_qubit_gate(b)}, matrices commute up to phase: {comm}")
    eq = a.equivalent_gate_before(b)  # --eq--a-- == --a--b--
    _phase_eq("equivalent_gate_before: U_a U_out vs U_b U_a", A @ cirq.unitary(eq), B @ A)
    # acting on stabilizer states: a then b on |0> and |1>
    q = cirq.LineQubit(0)
    for init in (0, 1):
        psi = B @ A @ L.basis_vector(init, 2)
        ts = cirq.CliffordTableauSimulationState(tableau=cirq.CliffordTableau(1, initial_state=init), qubits=[q], prng=ScriptedPRNG())
        cirq.act_on(a.on(q), ts)
        cirq.act_on(b.on(q), ts)
        (s,) = ts.tableau.stabilizers()
        _exact_eq("tableau stabilizer of b(a|init>) applied to the state", cirq.unitary(s) @ psi, psi)
        ch = cirq.StabilizerChFormSimulationState(qubits=[q], prng=ScriptedPRNG(), initial_state=init)
        cirq.act_on(a.on(q), ch)
        cirq.act_on(b.on(q), ch)
        _exact_eq("CH-form state after a, b (phase of cirq.unitary(a), cirq.unitary(b))", ch.state.state_vector(),
                  cirq.unitary(b) @ cirq.unitary(a) @ L.basis_vector(init, 2))
    return {"nontrivial": not comm, "commute": comm}


# =========================================================================================== E2: two-qubit group


def _e2_recipes(tier):
    words, _ = CG.group2()
    idx = range(len(words)) if tier == "thorough" else [i for i in range(len(words)) if _in_slice(i)]
    return [{"i": i, "w": words[i]} for i in idx]


def oracle_e2(r):
    w = r["w"]
    U = CG.word_matrix(w, 2)
    qs = cirq.LineQubit.range(2)
    ops = CO.word_ops(w, qs)
    g = cirq.CliffordGate.from_op_list(ops, qs)
    t = g.clifford_tableau
    rows = CG.reference_tableau(U)
    got = _tableau_rows(t)
    if not CG.is_symplectic_rows([lab for lab, _ in got]) or not t._validate():
        raise Violation("from_op_list tableau is not symplectic")
    if got != rows:
        raise Violation(f"from_op_list tableau rows {got} != signed Pauli images of the word matrix {rows}")
    if cirq.CliffordGate.from_clifford_tableau(_mk_tableau(rows)) != g:
        raise Violation("from_clifford_tableau(reference rows) != from_op_list gate")
    _phase_eq("unitary(from_op_list(word))", cirq.unitary(g), U)
    dec = cirq.decompose_clifford_tableau_to_operations(qs, t)
    _phase_eq("decompose_clifford_tableau_to_operations", _ops_matrix(dec, qs), U)
    rev = cirq.decompose_clifford_tableau_to_operations(qs[::-1], t)  # same tableau on swapped qubits
    _phase_eq("decompose_clifford_tableau_to_operations on reversed qubits", _ops_matrix(rev, qs[::-1]), U)
    inv = t.inverse()
    if _tableau_rows(inv) != CG.reference_tableau(U.conj().T):
        raise Violation(f"tableau.inverse() rows {_tableau_rows(inv)} != signed Pauli images of U^dagger")
    ident = cirq.CliffordTableau(2)
    if t.then(inv) != ident or inv.then(t) != ident:
        raise Violation("tableau.then(inverse) is not the identity tableau")
    for e in (-2, -1, 0, 1, 2, 3):
        ge = g ** e
        want = np.linalg.matrix_power(U if e >= 0 else U.conj().T, abs(e))
        if _tableau_rows(ge.clifford_tableau) != CG.reference_tableau(want):
            raise Violation(f"(gate**{e}).clifford_tableau != signed Pauli images of U**{e}")
    _phase_eq("unitary(gate**-1)", cirq.unitary(g ** -1), U.conj().T)
    _phase_eq("unitary(gate**3)", cirq.unitary(g ** 3), U @ U @ U)
    # the gate acting on a larger tableau through non-adjacent, permuted axes (pad + then)
    q3 = cirq.LineQubit.range(3)
    prep = [cirq.H(q3[0]), cirq.CNOT(q3[0], q3[1]), cirq.S(q3[1]) ** -1, cirq.H(q3[2]), cirq.CZ(q3[1], q3[2]), cirq.Y(q3[0]) ** 0.5]
    psi = _ops_matrix(prep, q3) @ L.basis_vector(0, 8)
    psi = L.apply_matrix(U, [2, 0], [2] * 3, psi)
    ts = cirq.CliffordTableauSimulationState(tableau=cirq.CliffordTableau(3), qubits=q3, prng=ScriptedPRNG())
    for op in prep:
        cirq.act_on(op, ts)
    cirq.act_on(g.on(q3[2], q3[0]), ts)
    for s in ts.tableau.stabilizers():
        _exact_eq("stabilizer after CliffordGate on axes (2,0) of a 3-qubit tableau", cirq.unitary(s) @ psi, psi)
    ch = cirq.StabilizerChFormSimulationState(qubits=q3, prng=ScriptedPRNG(), initial_state=0)
    for op in prep:
        cirq.act_on(op, ch)
    cirq.act_on(g.on(q3[2], q3[0]), ch)
    _phase_eq("CH-form state after CliffordGate on axes (2,0)", ch.state.state_vector(), psi)
    ent = any(sum(c != "I" for c in lab) == 2 for lab, _ in rows)
    return {"nontrivial": ent and any(s < 0 for _, s in rows), "entangling": ent, "wordlen": min(len(w), 13)}


def oracle_e2_pair(r):
    qs = cirq.LineQubit.range(2)
    A, B = CG.word_matrix(r["a"], 2), CG.word_matrix(r["b"], 2)
    ga = cirq.CliffordGate.from_op_list(CO.word_ops(r["a"], qs), qs)
    gb = cirq.CliffordGate.from_op_list(CO.word_ops(r["b"], qs), qs)
    t = ga.clifford_tableau.then(gb.clifford_tableau)
    rows = CG.reference_tableau(B @ A)
    if _tableau_rows(t) != rows:
        raise Violation(f"a.tableau.then(b.tableau) rows {_tableau_rows(t)} != signed Pauli images of U_b U_a {rows}")
    if (gb.clifford_tableau @ ga.clifford_tableau) != t:
        raise Violation("b.tableau @ a.tableau != a.tableau.then(b.tableau)")
    gab = cirq.CliffordGate.from_op_list(CO.word_ops(r["a"] + r["b"], qs), qs)
    if gab.clifford_tableau != t:
        raise Violation("from_op_list(word_a + word_b) != a.tableau.then(b.tableau)")
    comm = CG.equal_up_to_phase(A @ B, B @ A)
    return {"nontrivial": not comm, "commute": comm}


def _pair_words():
    return st.integers(0, 11519).map(lambda i: CG.group2()[0][i])


# =========================================================================================== R: random circuits


@st.composite
def _rcase(draw, max_n=6, max_ops=16, max_meas=4, max_reset=2, heavy=False):
    """heavy: measurement-heavy histories -- measure, keep computing on the measured and neighbouring qubits, measure
    again, and (often) measure every qubit at the end."""
    n = draw(st.sampled_from([x for x in [1, 2, 2, 3, 3, 4, 4, 5, 5, 6, 6] if x <= max_n]))
    names = list(draw(st.permutations(list(range(n + 2)))))[:n]
    init = draw(st.one_of(st.just(0), st.integers(0, 2 ** n - 1)))
    nops = draw(st.integers(min(n, 3), max_ops))
    ops = []
    nmeas = nres = 0

    def meas():
        m = draw(st.integers(1, min(n, 3, max_meas - nmeas)))
        w = list(draw(st.permutations(list(range(n)))))[:m]
        return {"k": "M", "w": w, "inv": draw(st.lists(st.booleans(), max_size=m))}

    for i in range(nops):
        c = draw(st.integers(0, 19))
        late = i >= nops // 3
        if (c == 0 or (heavy and c == 19)) and late and nmeas < max_meas:
            ops.append(meas())
            nmeas += len(ops[-1]["w"])
            if heavy and n >= 2 and nmeas < max_meas and draw(st.integers(0, 2)) == 0:
                # keep computing on a measured qubit and a neighbour, then measure them again
                a = ops[-1]["w"][0]
                b = draw(st.integers(0, n - 2))
                b = b if b < a else b + 1
                for _ in range(draw(st.integers(1, 3))):
                    ops.append(draw(st.sampled_from([
                        {"k": "HP", "e": 1.0, "s": 0.0, "w": [a]}, {"k": "HP", "e": 1.0, "s": 0.0, "w": [b]},
                        {"k": "CX", "e": 1.0, "s": 0.0, "w": [b, a]}, {"k": "CX", "e": 1.0, "s": 0.0, "w": [a, b]},
                        {"k": "CGNAMED", "name": "CNOT", "w": [b, a]}, {"k": "YP", "e": 0.5, "s": 0.0, "w": [a]},
                        {"k": "CZ", "e": 1.0, "s": 0.0, "w": [a, b]}, {"k": "ZP", "e": 0.5, "s": 0.0, "w": [b]}])))
                ops.append({"k": "M", "w": [a, b][: max(1, min(2, max_meas - nmeas))], "inv": []})
                nmeas += len(ops[-1]["w"])
        elif c == 1 and late and nres < max_reset:
            ops.append({"k": "R", "w": [draw(st.integers(0, n - 1))], "chan": draw(st.booleans())})
            nres += 1
        elif c <= 5:  # superposition
            w = [draw(st.integers(0, n - 1))]
            ops.append(draw(st.sampled_from([{"k": "HP", "e": 1.0, "s": 0.0, "w": w}, {"k": "YP", "e": 0.5, "s": 0.0, "w": w},
                                             {"k": "XP", "e": -0.5, "s": 0.25, "w": w}, {"k": "SQC", "i": 16, "w": w}])))
        elif c <= 9 and n >= 2:  # entanglers
            ops.append(draw(CO.unitary_op(n, kinds=["CX", "CZ", "CY", "CG2", "CGNAMED", "ISWAP", "XX"])))
        elif c <= 11:  # sign carriers
            ops.append(draw(CO.unitary_op(n, kinds=["ZP", "YP", "XP", "SQC", "PS", "DPS"])))
        else:
            ops.append(draw(CO.unitary_op(n)))
    if heavy and draw(st.booleans()):
        order = list(draw(st.permutations(list(range(n)))))
        for k in range(0, n, 3):
            ops.append({"k": "M", "w": order[k:k + 3], "inv": []})
    elif nmeas < max_meas and draw(st.integers(0, 4)) != 0:
        ops.append(meas())
    return {"n": n, "names": names, "init": init, "ops": ops, "script": draw(st.lists(st.integers(0, 1), max_size=16)),
            "split": draw(st.booleans())}


class _Case:
    pass


def _build_case(r):
    """-> object with qs, items [(kind, op, U|None, axes, meta)], dropped (ops that do not claim stabilizer effect)."""
    c = _Case()
    n = int(r["n"])
    names = [int(x) for x in r["names"]][:n]
    if n < 1 or len(set(names)) != n:
        raise ValueError("malformed register")
    c.n = n
    c.qs = [cirq.LineQubit(x) for x in names]
    c.init = int(r["init"]) % (2 ** n)
    c.items = []
    c.dropped = 0
    for idx, o in enumerate(r["ops"]):
        k = o["k"]
        if k == "M":
            w = CO._wire_qubits(o, c.qs)
            if not w:
                raise ValueError("empty measurement")
            inv = [bool(b) for b in o.get("inv", [])][: len(w)]
            op = cirq.measure(*w, key=f"m{idx}", invert_mask=tuple(inv))
            c.items.append(("m", op, None, [c.qs.index(q) for q in w], {"key": f"m{idx}", "inv": inv + [False] * (len(w) - len(inv))}))
        elif k == "R":
            (q,) = CO._wire_qubits(o, c.qs, 1)
            op = cirq.ResetChannel().on(q) if o.get("chan") else cirq.reset(q)
            c.items.append(("r", op, None, [c.qs.index(q)], {}))
        else:
            op = CO.build_op(o, c.qs)
            claim = cirq.has_stabilizer_effect(op)
            if not claim:  # only operations that claim a stabilizer effect are in the domain
                c.dropped += 1
                continue
            U = cirq.unitary(op)
            if k == "CGN":  # direction of the gate built by from_op_list vs its constituent operations
                w = list(op.qubits)
                V = _ops_matrix(CO.cgn_sub_ops(o, c.qs), w)
                _phase_eq("unitary(CliffordGate.from_op_list(ops)) vs product of the ops", U, V)
            c.items.append(("u", op, U, [c.qs.index(q) for q in op.qubits], {"k": k}))
    c.circuit = cirq.Circuit(it[1] for it in c.items)
    return c


def _prob(psi, n, axis, bit):
    t = psi.reshape([2] * n)
    return float(np.sum(np.abs(np.take(t, bit, axis=axis)) ** 2))


def _project(psi, n, axis, bit):
    t = psi.reshape([2] * n).copy()
    idx = [slice(None)] * n
    idx[axis] = 1 - bit
    t[tuple(idx)] = 0
    t = t.reshape(-1)
    return t / np.linalg.norm(t)


def _apply_dense_pauli(s, psi, n):
    """DensePauliString (pauli_mask 0..3 = I,X,Y,Z; coefficient) applied to psi with textbook matrices."""
    out = psi
    mask = list(s.pauli_mask)
    if len(mask) != n:
        raise Violation(f"stabilizer has length {len(mask)} on a {n}-qubit register")
    for a, m in enumerate(mask):
        if m:
            out = L.apply_matrix(L.PAULI["IXYZ"[int(m)]], [a], [2] * n, out)
    return complex(s.coefficient) * out


def _dps_label(s):
    return "".join("IXYZ"[int(m)] for m in s.pauli_mask)


def _check_tableau(t, psi, n, what, tol):
    stabs, destabs = t.stabilizers(), t.destabilizers()
    if len(stabs) != n or len(destabs) != n:
        raise Violation(f"{what}: tableau has {len(stabs)} stabilizers / {len(destabs)} destabilizers for {n} qubits")
    for i, s in enumerate(stabs):
        d = L.max_abs_diff(_apply_dense_pauli(s, psi, n), psi)
        if not d <= tol:
            raise Violation(f"{what}: stabilizer row {i} does not stabilize the reference state (|P psi - psi| = {d:.3g})")
    sl, dl = [_dps_label(s) for s in stabs], [_dps_label(s) for s in destabs]
    if not CG.is_symplectic_rows(dl + sl):
        raise Violation(f"{what}: stabilizer/destabilizer rows violate the canonical commutation relations")


def _tableau_matches(t, psi, n, tol):
    return all(L.max_abs_diff(_apply_dense_pauli(s, psi, n), psi) <= tol for s in t.stabilizers())


def _entangled(psi, n):
    if n < 2:
        return False
    t = psi.reshape([2] * n)
    for a in range(n):
        m = np.moveaxis(t, a, 0).reshape(2, -1)
        rho = m @ m.conj().T
        if np.real(np.trace(rho @ rho)) < 1 - 1e-6:
            return True
    return False


def _make_state(rep, c, prng):
    if rep == "tab":
        return cirq.CliffordTableauSimulationState(tableau=cirq.CliffordTableau(c.n, initial_state=c.init), qubits=c.qs, prng=prng)
    return cirq.StabilizerChFormSimulationState(qubits=c.qs, prng=prng, initial_state=c.init)


class _CoinPRNG(ScriptedPRNG):
    """Scripted PRNG for drawn scripts: forced (single-outcome) choices do not consume script entries."""

    def _branch(self, probs):
        probs = np.asarray(probs, dtype=float)
        adm = np.flatnonzero(probs > 1e-12)
        if len(adm) == 1:
            self.log.append({"p": probs.copy(), "k": int(adm[0])})
            return int(adm[0])
        if self.pos < len(self.script):
            self.script[self.pos] = int(adm[int(self.script[self.pos]) % len(adm)])
        return super()._branch(probs)


def _follow(rep, c, script, lab):
    """One trajectory of act_on on a stabilizer representation, followed step by step by the dense reference."""
    n = c.n
    prng = _CoinPRNG(script)
    st_ = _make_state(rep, c, prng)
    psi = L.basis_vector(c.init, 2 ** n)
    depth = 0
    for step, (kind, op, U, axes, meta) in enumerate(c.items):
        nlog = len(prng.log)
        cirq.act_on(op, st_)
        draws = prng.log[nlog:]
        depth += 1
        tol = TOL * (1 + depth)
        what = f"{rep} step {step} ({kind}:{meta.get('k', '')})"
        # (unitary operations pass through the mixture strategy: a one-outcome choice with probability 1 is not randomness)
        draws = [e for e in draws if not (len(e["p"]) == 1 and abs(e["p"][0] - 1) < 1e-12)]
        if any(len(e["p"]) != 2 or abs(e["p"][0] - 0.5) > 1e-12 for e in draws):
            raise Violation(f"{what}: a random draw is not a fair coin: {[list(e['p']) for e in draws][:3]}")
        if kind == "u":
            if draws:
                raise Violation(f"{what}: unitary operation consumed randomness")
            psi = L.apply_matrix(U, axes, [2] * n, psi)
        elif kind == "m":
            if rep == "tab" and any(t_.rs[n:].any() for t_ in [st_.tableau]):
                lab["neg_sign_at_measure"] = True
            lab["entangled_at_measure"] = lab.get("entangled_at_measure", False) or _entangled(psi, n)
            bits = [int(b) for b in st_.log_of_measurement_results[meta["key"]]]
            if len(bits) != len(axes):
                raise Violation(f"{what}: {len(bits)} result bits for {len(axes)} measured qubits")
            nrandom = 0
            for a, b, inv in zip(axes, bits, meta["inv"]):
                raw = b ^ int(inv)
                p = _prob(psi, n, a, raw)
                if abs(p - 0.5) < 1e-9:
                    nrandom += 1
                elif abs(p - 1) > 1e-9:
                    raise Violation(f"{what}: observed outcome {raw} on axis {a} has reference probability {p:.6g} (must be 0.5 or 1)")
                psi = _project(psi, n, a, raw)
            lab["random_meas"] = lab.get("random_meas", False) or nrandom > 0
            lab["det_meas"] = lab.get("det_meas", False) or nrandom < len(axes)
            if rep == "tab" and len(draws) != nrandom:
                raise Violation(f"{what}: tableau measurement consumed {len(draws)} coins for {nrandom} random outcomes")
            if rep == "ch" and nrandom > 0 and not draws:
                raise Violation(f"{what}: random outcome produced without randomness")
        else:  # reset: hidden outcome, then X if it was 1
            (a,) = axes
            lab["entangled_at_measure"] = lab.get("entangled_at_measure", False) or _entangled(psi, n)
            cands = []
            for b in (0, 1):
                p = _prob(psi, n, a, b)
                if p > 1e-9:
                    if abs(p - 0.5) > 1e-9 and abs(p - 1) > 1e-9:
                        raise Violation(f"{what}: reference probability {p:.6g} of a Z outcome is not 0, 0.5 or 1")
                    x = _project(psi, n, a, b)
                    if b:
                        x = L.apply_matrix(L.PX, [a], [2] * n, x)
                    cands.append(x)
            if rep == "tab":
                ok = [x for x in cands if _tableau_matches(st_.tableau, x, n, tol)]
            else:
                sv = st_.state.state_vector()
                ok = [x for x in cands if L.max_abs_diff(sv, x) <= tol]
            if not ok:
                raise Violation(f"{what}: state after reset matches none of the {len(cands)} possible post-reset states")
            psi = ok[0]
            lab["reset"] = True
        if rep == "tab":
            _check_tableau(st_.tableau, psi, n, what, tol)
        else:
            d = L.max_abs_diff(st_.state.state_vector(), psi)
            if not d <= tol:
                dp = L.diff_up_to_phase(st_.state.state_vector(), psi)
                raise Violation(f"{what}: CH-form state_vector differs from the reference by {d:.3g} "
                                f"({'only a global phase' if dp <= tol else f'{dp:.3g} up to phase'})")
    lab["entangled_end"] = _entangled(psi, n)
    # copies are independent of the original
    cp = st_.copy()
    cirq.act_on(cirq.X(c.qs[0]), cp)
    cirq.act_on(cirq.H(c.qs[-1]), cp)
    tol = TOL * (2 + depth)
    psi_cp = L.apply_matrix((L.PX + L.PZ) / np.sqrt(2), [n - 1], [2] * n, L.apply_matrix(L.PX, [0], [2] * n, psi))
    if rep == "tab":
        _check_tableau(st_.tableau, psi, n, "tableau after acting on its copy", tol)
        _check_tableau(cp.tableau, psi_cp, n, "copy of the tableau after X, H", tol)
    else:
        _exact_eq("CH form after acting on its copy", st_.state.state_vector(), psi, tol)
        _exact_eq("copy of the CH form after X, H", cp.state.state_vector(), psi_cp, tol)
    return st_, psi


def oracle_traj(r):
    c = _build_case(r)
    lab = {}
    for rep in ("tab", "ch"):
        _follow(rep, c, [], lab)
        if r.get("script"):
            _follow(rep, c, [int(b) % 2 for b in r["script"]], lab)
    kinds = {it[4].get("k") for it in c.items if it[0] == "u"}
    has_m = any(it[0] in ("m", "r") for it in c.items)
    lab["nontrivial"] = bool(has_m and lab.get("entangled_at_measure") and lab.get("neg_sign_at_measure"))
    lab["n"] = c.n
    lab["dropped_nonclaiming"] = c.dropped > 0
    lab["has_clifford_gate_op"] = bool(kinds & {"CG2", "CGN", "CGNAMED", "SQC"})
    lab["has_pauli_string_op"] = bool(kinds & {"PS", "DPS", "PSP"})
    lab["has_fallback_1q"] = bool(kinds & {"MAT1", "PXZ", "PXP", "ROT"})
    lab["has_decomposed_2q"] = bool(kinds & {"ISWAP", "CY", "XX", "YY", "ZZ", "PIG", "CTRL", "FSIM", "QPERM"})
    return lab


# ------------------------------------------------------------------------------------------- exact distributions


def _key_name(k) -> str:
    return k.name if isinstance(k, cirq.MeasurementKey) else k


def _rec_key(d):
    return tuple(sorted((_key_name(k), tuple(int(b) for b in np.asarray(v).reshape(-1))) for k, v in d.items()))


def _ref_distribution(c, init):
    n = c.n
    ir = []
    for kind, op, U, axes, meta in c.items:
        if kind == "u":
            ir.append({"t": "u", "m": U, "ax": axes})
        elif kind == "m":
            ir.append({"t": "m", "key": meta["key"], "ax": axes, "inv": meta["inv"]})
        else:
            ir.append({"t": "reset", "ax": axes})
    out = {}
    for b in RI.run(ir, [2] * n, psi0=L.basis_vector(init, 2 ** n)):
        key = tuple(sorted((k, tuple(v[-1])) for k, v in b.records.items()))
        e = out.setdefault(key, {"p": 0.0, "rho": np.zeros((2 ** n, 2 ** n), dtype=complex), "psi": [], "nb": 0})
        e["p"] += b.prob
        e["rho"] += b.prob * b.rho
        e["psi"].append(b.psi)
        e["nb"] += 1
    return out


def _compare_distribution(what, got, ref, tol, states=True):
    """got: list of (prob, records_key, rho or None)."""
    agg = {}
    for p, key, rho in got:
        e = agg.setdefault(key, {"p": 0.0, "rho": 0})
        e["p"] += p
        if rho is not None:
            e["rho"] = e["rho"] + p * rho
    if set(agg) != set(ref):
        extra, missing = sorted(set(agg) - set(ref)), sorted(set(ref) - set(agg))
        raise Violation(f"{what}: outcome records differ from the reference: impossible {extra[:2]}, never produced {missing[:2]}")
    for key, e in agg.items():
        if abs(e["p"] - ref[key]["p"]) > 1e-9:
            raise Violation(f"{what}: records {key} have probability {e['p']:.6g}, reference {ref[key]['p']:.6g}")
        if states:
            d = L.max_abs_diff(e["rho"], ref[key]["rho"])
            if not d <= tol:
                raise Violation(f"{what}: probability-weighted final state for records {key} differs from the reference by {d:.3g}")


def _tableau_rho(t, n):
    rho = np.eye(2 ** n, dtype=complex)
    for s in t.stabilizers():
        m = complex(s.coefficient) * L.pauli_string_matrix(_dps_label(s))
        rho = rho @ (np.eye(2 ** n) + m) / 2
    return rho


def _check_rows(t, what):
    sl, dl = [_dps_label(x) for x in t.stabilizers()], [_dps_label(x) for x in t.destabilizers()]
    if not CG.is_symplectic_rows(dl + sl):
        raise Violation(f"{what}: stabilizer/destabilizer rows violate the canonical commutation relations")


def oracle_tab_dist(r):
    """Measurement-heavy histories on the tableau route only (one coin per random outcome -> few branches):
    exact record distribution and final states of act_on(CliffordTableauSimulationState) and StabilizerSampler."""
    c = _build_case(r)
    n = c.n
    tol = TOL * (2 + len(c.items))
    ref = _ref_distribution(c, c.init)
    has_meas = any(it[0] == "m" for it in c.items)
    nm = sum(len(it[3]) for it in c.items if it[0] == "m")

    def run(prng):
        s = _make_state("tab", c, prng)
        for it in c.items:
            cirq.act_on(it[1], s)
        return s

    try:
        got = []
        for p, script, s, prng in enumerate_branches(run, max_branches=512):
            got.append((p, _rec_key(s.log_of_measurement_results), _tableau_rho(s.tableau, n)))
            _check_rows(s.tableau, "act_on(CliffordTableauSimulationState) final tableau")
        _compare_distribution("act_on(CliffordTableauSimulationState)", got, ref, tol)
        if has_meas:
            ref0 = ref if c.init == 0 else _ref_distribution(c, 0)
            got2 = [(p, _rec_key({k: v[0] for k, v in res.measurements.items()}), None)
                    for p, script, res, prng in enumerate_branches(
                        lambda prng: cirq.StabilizerSampler(seed=prng).run(c.circuit, repetitions=1), max_branches=512)]
            _compare_distribution("StabilizerSampler.run(repetitions=1)", got2, ref0, tol, states=False)
    except OverflowError:
        raise Reject("more outcome branches than the enumeration budget")
    kinds = {it[4].get("k") for it in c.items if it[0] == "u"}
    remeasured = len({a for it in c.items if it[0] == "m" for a in it[3]}) < nm
    return {"nontrivial": bool(len(ref) >= 2 and remeasured), "n": n, "measured_qubits": min(nm, 9), "remeasured": remeasured,
            "n_outcomes": min(len(ref), 17), "tab_branches": min(len(got), 33), "has_clifford_gate_op": bool(kinds & {"CG2", "CGN", "CGNAMED"})}


def oracle_dist(r):
    c = _build_case(r)
    n = c.n
    tol = TOL * (2 + len(c.items))
    ref = _ref_distribution(c, c.init)
    ref0 = ref if c.init == 0 else _ref_distribution(c, 0)
    has_reset = any(it[0] == "r" for it in c.items)
    has_meas = any(it[0] == "m" for it in c.items)
    lab = {"n": n, "n_outcomes": min(len(ref), 9), "reset": has_reset}
    MAXB = 384

    def run_acton(rep):
        def run(prng):
            s = _make_state(rep, c, prng)
            for it in c.items:
                cirq.act_on(it[1], s)
            return s
        return run

    try:
        got = []
        for p, script, s, prng in enumerate_branches(run_acton("tab"), max_branches=MAXB):
            got.append((p, _rec_key(s.log_of_measurement_results), _tableau_rho(s.tableau, n)))
            _check_rows(s.tableau, "act_on(CliffordTableauSimulationState) final tableau")
        _compare_distribution("act_on(CliffordTableauSimulationState)", got, ref, tol)
        lab["tab_branches"] = min(len(got), 17)
        got = []
        for p, script, s, prng in enumerate_branches(run_acton("ch"), max_branches=MAXB):
            sv = s.state.state_vector()
            key = _rec_key(s.log_of_measurement_results)
            got.append((p, key, np.outer(sv, sv.conj())))
            if not has_reset and key in ref and ref[key]["nb"] == 1 and ref[key]["psi"][0] is not None:
                _exact_eq(f"act_on(StabilizerChFormSimulationState) final state_vector for records {key}", sv, ref[key]["psi"][0], tol)
        _compare_distribution("act_on(StabilizerChFormSimulationState)", got, ref, tol)
        lab["ch_branches"] = min(len(got), 65)

        def run_sim(prng):
            sim = cirq.CliffordSimulator(seed=prng, split_untangled_states=bool(r.get("split")))
            return sim.simulate(c.circuit, qubit_order=c.qs, initial_state=c.init)

        got = []
        for p, script, res, prng in enumerate_branches(run_sim, max_branches=MAXB):
            sv = res.final_state.state_vector()
            key = _rec_key(res.measurements)
            got.append((p, key, np.outer(sv, sv.conj())))
            if not has_reset and key in ref and ref[key]["nb"] == 1 and ref[key]["psi"][0] is not None:
                _exact_eq(f"CliffordSimulator(split={bool(r.get('split'))}).simulate final_state.state_vector for records {key}", sv,
                          ref[key]["psi"][0], tol)
        _compare_distribution(f"CliffordSimulator(split={bool(r.get('split'))}).simulate", got, ref, tol)

        def run_state(prng):
            cs = cirq.CliffordState({q: i for i, q in enumerate(c.qs)}, initial_state=c.init)
            meas = {}
            for kind, op, U, axes, meta in c.items:
                if kind == "u":
                    cs.apply_unitary(op)
                elif kind == "m":
                    cs.apply_measurement(op, meas, prng)
                else:
                    raise Reject("CliffordState has no reset")
            return cs, meas

        if not has_reset:
            got = []
            for p, script, (cs, meas), prng in enumerate_branches(run_state, max_branches=MAXB):
                sv = cs.state_vector()
                got.append((p, _rec_key(meas), np.outer(sv, sv.conj())))
            _compare_distribution("CliffordState.apply_unitary/apply_measurement", got, ref, tol)

        if has_meas:
            def run_run(prng):
                return cirq.CliffordSimulator(seed=prng, split_untangled_states=bool(r.get("split"))).run(c.circuit, repetitions=1)

            got = [(p, _rec_key({k: v[0] for k, v in res.measurements.items()}), None)
                   for p, script, res, prng in enumerate_branches(run_run, max_branches=MAXB)]
            _compare_distribution("CliffordSimulator.run(repetitions=1)", got, ref0, tol, states=False)

            def run_sampler(prng):
                return cirq.StabilizerSampler(seed=prng).run(c.circuit, repetitions=1)

            got = [(p, _rec_key({k: v[0] for k, v in res.measurements.items()}), None)
                   for p, script, res, prng in enumerate_branches(run_sampler, max_branches=MAXB)]
            _compare_distribution("StabilizerSampler.run(repetitions=1)", got, ref0, tol, states=False)
    except OverflowError:
        raise Reject("more outcome branches than the enumeration budget")
    lab["nontrivial"] = bool(len(ref) >= 2 and any(it[0] == "u" and len(it[3]) >= 2 for it in c.items))
    lab["split"] = bool(r.get("split"))
    return lab


# ------------------------------------------------------------------------------------------- claims over the gate table


def _is_clifford_matrix(u, atol):
    """Does u normalise the Pauli group (within atol)?  Own test: every U P U^dagger is a signed Pauli."""
    n = int(round(np.log2(u.shape[0])))
    for g in "XZ":
        for i in range(n):
            lab = "".join(g if j == i else "I" for j in range(n))
            got = CG.identify_pauli(u @ L.pauli_string_matrix(lab) @ u.conj().T, atol=atol)
            if got is None or abs(got[1].imag) > atol:
                return False
    return True


def _f13_1(sub, recipe):
    """Known finding: a multi-qubit gate that claims stabilizer effect only through the <=3-qubit unitary strategy of
    has_stabilizer_effect (no own _has_stabilizer_effect_ == True) and has no one-level decomposition into claiming
    operations: CliffordSimulator.is_supported_operation is True, yet act_on raises TypeError."""
    if sub != "claims":
        return False
    gate = G.build_gate(recipe["g"])
    k = cirq.num_qubits(gate)
    if k < 2 or not cirq.has_stabilizer_effect(gate):
        return False
    own = getattr(gate, "_has_stabilizer_effect_", None)
    if own is not None and own() is True:
        return False
    dec = cirq.decompose_once(gate.on(*cirq.LineQubit.range(k)), None)
    return dec is None or not all(cirq.has_stabilizer_effect(o) for o in dec)


KNOWN_FEATURES = {"C13_clifford_via_unitary_multi_qubit_act_on_typeerror": _f13_1}
# Known finding (kept, not repaired): the feature stays out of *generation*; the oracle still reports it as a violation
# when given such a recipe (known_findings.json replays its stored recipe and prints KNOWN-FINDING).
EXCLUDED = {"C13_clifford_via_unitary_multi_qubit_act_on_typeerror"}


@st.composite
def _claims_case(draw):
    g = draw(G.gate_recipes(lambda f: f.unitary and not f.qudit and "zeroq" not in f.tags, max_arity=3).filter(
        lambda g: not any(KNOWN_FEATURES[f]("claims", {"g": g}) for f in sorted(EXCLUDED))))
    k = G.arity(g)
    n = draw(st.integers(k, min(k + 2, 4)))
    names = list(draw(st.permutations(list(range(n + 1)))))[:n]
    prep = draw(st.lists(CO.unitary_op(n, kinds=["HP", "YP", "XP", "ZP", "CX", "CZ", "SQC", "CG2", "PS"]), max_size=6))
    return {"n": n, "names": names, "g": g, "w": list(draw(st.permutations(list(range(n)))))[:k], "prep": prep}


def oracle_claims(r):
    """Every gate that claims has_stabilizer_effect at the drawn parameters is Clifford and is tracked by both states."""
    n = int(r["n"])
    qs = [cirq.LineQubit(int(x)) for x in r["names"]][:n]
    gate = G.build_gate(r["g"])
    w = [qs[int(i) % n] for i in r["w"]]
    if len(set(w)) != cirq.num_qubits(gate) or len(qs) != n:
        raise ValueError("malformed wires")
    op = gate.on(*w)
    claim = cirq.has_stabilizer_effect(op)
    claim_gate = cirq.has_stabilizer_effect(gate)
    U = cirq.unitary(op)
    strict, loose = _is_clifford_matrix(U, 1e-11), _is_clifford_matrix(U, 1e-6)
    fam = r["g"][0]
    lab = {"claims": bool(claim), "is_clifford": strict, "arity": len(w), "fam_claiming": fam if claim else "-"}
    if claim != claim_gate:
        raise Violation(f"has_stabilizer_effect differs between the gate ({claim_gate}) and its operation ({claim})")
    if claim and not loose:
        raise Violation(f"{fam}: claims stabilizer effect but its unitary does not normalise the Pauli group")
    # (a False answer for a gate that is Clifford is incompleteness, outside the property: only True answers are judged)
    if cirq.CliffordSimulator.is_supported_operation(op) != claim:
        raise Violation("CliffordSimulator.is_supported_operation differs from has_stabilizer_effect")
    if not claim:
        lab["nontrivial"] = False
        return lab
    prep = [CO.build_op(o, qs) for o in r["prep"]]
    psi = L.basis_vector(0, 2 ** n)
    for o in prep:
        psi = L.apply_matrix(cirq.unitary(o), [qs.index(q) for q in o.qubits], [2] * n, psi)
    psi = L.apply_matrix(U, [qs.index(q) for q in op.qubits], [2] * n, psi)  # (DensePauliString.on drops identity wires)
    tol = TOL * (2 + len(prep))
    for rep in ("tab", "ch"):
        c = _Case()
        c.n, c.qs, c.init = n, qs, 0
        st_ = _make_state(rep, c, ScriptedPRNG())
        for o in prep:
            cirq.act_on(o, st_)
        try:
            cirq.act_on(op, st_)
        except TypeError as e:
            raise Violation(f"{fam}: operation claims stabilizer effect (is_supported_operation) but act_on on the {rep} state "
                            f"raises TypeError")
        if rep == "tab":
            _check_tableau(st_.tableau, psi, n, f"{fam} on tableau", tol)
        else:
            _exact_eq(f"{fam}: CH-form state_vector (global phase included)", st_.state.state_vector(), psi, tol)
    lab["nontrivial"] = bool(_entangled(psi, n) or len(w) >= 2)
    return lab


SUBCHECKS = [
    SubCheck("e1_elements", None, oracle_e1, enumerate=_e1_recipes, exhaustive_in=("quick", "thorough"), shards_quick=1, shards_thorough=1),
    SubCheck("e1_pairs", None, oracle_e1_pair, enumerate=_e1_pair_recipes, exhaustive_in=("quick", "thorough"), shards_quick=2, shards_thorough=2),
    SubCheck("e2_elements", None, oracle_e2, enumerate=_e2_recipes, exhaustive_in=("thorough",), shards_quick=8, shards_thorough=16, time_quick=600.0),
    SubCheck("e2_then_pairs", st.fixed_dictionaries({"a": _pair_words(), "b": _pair_words()}), oracle_e2_pair,
             quick=1500, thorough=50000, shards_quick=2, shards_thorough=16),
    SubCheck("r_tableau_heavy", _rcase(max_n=5, max_ops=12, max_meas=6, max_reset=1, heavy=True), oracle_tab_dist, quick=700, thorough=25000,
             shards_quick=8, shards_thorough=16, time_quick=600.0, essential={"remeasured": 0.3}),
    SubCheck("r_trajectory", _rcase(max_meas=7, heavy=True), oracle_traj, quick=1600, thorough=60000, shards_quick=8, shards_thorough=16, time_quick=600.0,
             essential={"entangled_at_measure": 0.1, "random_meas": 0.2}),
    SubCheck("claims", _claims_case(), oracle_claims, quick=2500, thorough=60000, shards_quick=4, shards_thorough=16,
             essential={"claims": 0.15}),
    SubCheck("r_distribution", _rcase(max_n=4, max_ops=10, max_meas=3, max_reset=1), oracle_dist, quick=480, thorough=20000,
             shards_quick=12, shards_thorough=16, time_quick=600.0, time_thorough=3000.0),
]
