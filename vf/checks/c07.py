"""C07 — hardware compilation: output is native, equivalent, routable and validated."""
from __future__ import annotations

from collections import Counter

import numpy as np
from hypothesis import strategies as st

import cirq
from vf.core import Reject, SubCheck, Violation
from vf.gen import c07_gen as CG
from vf.gen import circuits as GC
from vf.ref import c07_ref as R
from vf.ref import linalg as L

RULE = (
    "(a) compile_core / compile_vendor / twoq / sqrt_iswap_required / syc_tabulation: Hypothesis draws a circuit recipe on 1-3 wires "
    "(line/grid/named/mixed qubits, wire order != sorted order) whose operations are library gates from the shared gate table "
    "(arity 1-3), textbook named gates (H, T, CNOT, SWAP, CCX, CCZ**t, ...), MatrixGates from drawn floats (1 qubit; 2 qubits in KAK "
    "form k1(x)k2 . exp(i(xXX+yYY+zZZ)) . k3(x)k4 with the Weyl point drawn from {local, CNOT, iSWAP, SWAP, sqrt-iSWAP(+inv), B, "
    "sqrt-SWAP, SYC class, partial-CZ line, 2-parameter plane, generic, +-1e-9..1e-5 off a boundary}; 3 qubits via Matrix3), gates "
    "already native for the drawn target, nested CircuitOperations (repetitions 1-2, context.deep on/off), operations tagged with a "
    "tag in tags_to_ignore, optional terminal measurement, optional global-phase operations; x a target-gateset recipe (CZ: atol, "
    "allow_partial_czs, additional_gates, preserve_moment_structure, reorder_operations; sqrt-iSWAP: inv, required count 0-3, "
    "additional_gates; Sycamore (+tabulation in syc_tabulation); GoogleCZ: eject_paulis only with the four Pauli-rotation type "
    "families; IonQ API / Aria / Forte; AQT; Pasqal +-controlled ops) x max_num_passes in {1,2,None}. Non-trivial: output != input "
    "AND the input holds a >=2-qubit operation the target does not accept. "
    "bare named two-qubit gates (ISWAP/SWAP/CZ/CNOT/CY/SQRT_ISWAP(_INV)/ISWAP_INV/ZZ/XX/YY/FSim variants/SYC/PhasedISwap/MS/givens) at "
    "a table of special exponents (negative, >1, fractional) occur inside drawn circuits, in 'bare' circuits where every such gate "
    "is alone in its component (segments separated by no-compile barriers), and exhaustively (bare_known_gates: every name x every "
    "exponent x targets with default options) so the targets' known-gate fast paths are hit, not only the merged-matrix path. "
    "(b) route: connected graph on 2-7 nodes = drawn spanning tree + drawn extra edges (line/star/ring/tree/sparse/dense; 1/6 as "
    "DiGraph, half of those with every edge in both directions), circuit of 1-2 qubit library gates, SWAPs and 1-2 qubit measurements "
    "(+ optional terminal all-qubit measurement) on <= |V| logical qubits, mapper in {default, LineInitialMapper, "
    "HardCodedInitialMapper with a drawn injective map onto a connected node subset (possibly larger than the circuit)}, "
    "lookahead_radius in {1,2,3,8,20}, tag_inserted_swaps. Non-trivial: the reported final permutation is not the identity / a tagged "
    "swap was inserted. "
    "(c) device_grid / device_vendor: drawn device (GridDevice from a DeviceSpecification proto incl. distractor target sets, from "
    "GridDeviceMetadata, or proto round trip, with drawn qubits / pairs / gate specs; IonQAPIDevice; AQTDevice; PasqalDevice; "
    "PasqalVirtualDevice with drawn positions, qubit type and control radius) and 6-14 operations from a 45-gate pool mixing members / "
    "non-members, on-/off-device qubits, allowed / disallowed pairs, tags, plus a circuit assembled from them, plus a circuit of REPEATED equal gates that differ only in tags / qubits (validate_circuit in "
    "both orders, validate_moment per moment, validate_operation per op must all agree with the per-operation predicate). Non-trivial: at least "
    "one accepted and one rejected operation. Distinct = distinct recipe hash."
)
ASSUMPTIONS = [
    "cirq.unitary(op) of a single operation is trusted (C03/C04); composition of the input and of the compiled / routed circuit, the "
    "final permutation and the relabelling are recomputed with vf.ref.linalg",
    "equivalence tolerance: max(1e-6, 10*atol) * number of input operations (errors of independently decomposed components add up); "
    "routing is compared exactly (1e-8 * (1+ops)); Sycamore tabulation: trace fidelity >= 0.85 for max_infidelity 0.1",
    "`op in gateset` and gateset.validate are the observation for 'native' (the property says 'operations the target accepts'); the "
    "device sub-checks instead use hand-written truth tables per pool gate (vf/ref/c07_ref.py) derived from the device docstrings",
    "documented rejections counted as rejects: required_sqrt_iswap_count ValueError (cross-checked against the unrestricted synthesis "
    "in sqrt_iswap_required); 'Unable to convert' ValueError only when the input decomposes to a global-phase operation and the "
    "target has no GlobalPhaseGate (AQT, Pasqal); any other ValueError from the compiler is a violation",
    "GridDevice: a 2-qubit measurement / wait may address any two device qubits (module comment on _VARIADIC_GATE_TYPES); "
    "Pasqal: measurement with invert_mask raises the documented NotImplementedError",
    "directed device graphs: a routed operation must follow the direction of its edge (the router's own adjacency test), inserted "
    "SWAPs on one-way edges are the documented CNOT/H decomposition",
    "non-termination watchdogs in CPU time of the worker (5 CPU-s routing, 120 CPU-s compilation; the guarded calls use milliseconds) turn a hang into a violation",
]
SENSITIVITY = [
    "core: keep-old-vs-new two-qubit count choice inverted", "core: tags_to_ignore not passed to the decompose step",
    "core: deep=True never decomposes merged intermediate circuit ops", "core: CZ synthesis partial-CZ exponent sign",
    "core: xx+yy via full CZs, y rotation on the wrong qubit", "core: 2-sqrt-iSWAP region ignores z",
    "core: MappingManager.apply_swap updates only logical_to_physical", "core: route_circuit reports the inverse of the final permutation",
    "core: router treats distance-2 qubits as adjacent", "core: GateFamily ignores tags_to_ignore",
    "google: GridDevice pair check skipped for FSimGate-type gates (SYC)", "google: from_proto takes pairs from non-SYMMETRIC target sets",
    "aqt: H special case uses ry(+pi/2)", "pasqal: two-qubit synthesis on swapped qubits", "pasqal: virtual device distance limit off by boundary",
    "ionq: API gateset CCZPowGate decomposition ignores the exponent",
]


def uncovered():
    return [
        "parameterised (symbolic) circuits and the sqrt-iSWAP parameterised decomposition path",
        "circuits wider than 3 qubits / operations on more than 3 qubits; non-unitary operations other than a terminal measurement",
        "Sycamore tabulation: only a fidelity bound for one 2-qubit unitary (approximate by design)",
        "GridDevice._from_device_information, Coupler qubits, InternalGate / analog gate specs; device duration metadata",
        "routing with context.deep (CircuitOperation unrolling), >2-qubit mid-circuit measurements, custom cost functions",
        "directed device graphs with one-way edges while finding F16 (router livelock) is open",
        "minimality of the synthesised two-qubit-gate count beyond the documented worst case",
    ]


class _Hang(BaseException):
    pass


class _watchdog:
    """Non-termination detector (not a budget).  Counts *CPU* seconds of this process (ITIMER_PROF), so machine load cannot
    trigger it; the guarded calls use milliseconds of CPU, the limit is 2-4 orders of magnitude above that."""

    def __init__(self, cpu_seconds, what):
        self.seconds, self.what = cpu_seconds, what

    def __enter__(self):
        import signal

        def handler(signum, frame):
            raise _Hang()

        self._old = signal.signal(signal.SIGPROF, handler)
        signal.setitimer(signal.ITIMER_PROF, self.seconds)

    def __exit__(self, et, ev, tb):
        import signal

        signal.setitimer(signal.ITIMER_PROF, 0)
        signal.signal(signal.SIGPROF, self._old)
        if et is _Hang:
            raise Violation(f"{self.what} did not return within {self.seconds} CPU-seconds (non-termination)")
        return False


# =============================================================================================== (a) compilation

def _tol(g, nops):
    """max(1e-6, 10*atol) per decomposed component; errors add up, so scale with the number of input operations."""
    return max(1e-6, 10 * CG.gateset_atol(g)) * max(1, nops)


def _two_qubit_count(circuit):
    return sum(1 for op in _flat_ops(circuit) if len(op.qubits) == 2 and not cirq.is_measurement(op))


def _flat_ops(circuit):
    """all operations, looking through CircuitOperation wrappers that are not protected by the ignore tag."""
    for op in circuit.all_operations():
        if isinstance(op.untagged, cirq.CircuitOperation) and CG.IGNORE_TAG not in op.tags:
            for _ in range(abs(int(op.untagged.repetitions))):
                yield from _flat_ops(op.untagged.circuit)
        else:
            yield op


def _has_global_phase(circuit):
    return any(isinstance(o.gate, cirq.GlobalPhaseGate) for o in cirq.decompose(circuit))


def _raise_site(e):
    """(file basename, function name) of the innermost repository frame of an exception's traceback -- used instead of the
    wording of error messages to recognise a documented rejection."""
    import os
    import traceback

    from vf import env

    site = (None, None)
    for fr in traceback.extract_tb(e.__traceback__):
        if env.in_repo(fr.filename):
            site = (os.path.basename(fr.filename), fr.name)
    return site


def _compile(case):
    g = case["gs"]
    gateset = CG.build_gateset(g)
    circuit, qs, built = CG.build_compile_circuit(case["circ"], g)
    if not built:
        raise Reject("empty circuit")
    ctx = cirq.TransformerContext(tags_to_ignore=(CG.IGNORE_TAG,), deep=bool(case.get("deep")))
    before = circuit.copy()
    try:
        with _watchdog(120, "optimize_for_target_gateset"):
            out = cirq.optimize_for_target_gateset(circuit, context=ctx, gateset=gateset, ignore_failures=False,
                                                   max_num_passes=case.get("passes"))
    except ValueError as e:
        # documented ValueErrors are recognised by situation (recipe) and raise site (traceback), never by their wording
        site_file, _site_func = _raise_site(e)
        if g["k"] == "sqrt_iswap" and g.get("req") is not None and site_file == "two_qubit_to_sqrt_iswap.py":
            # SqrtIswapTargetGateset docstring: ValueError when a component cannot be synthesised with the required count
            # (legitimacy of the rejection itself is cross-checked on single operations by `sqrt_iswap_required`)
            raise Reject("documented ValueError: required_sqrt_iswap_count")
        if site_file == "decompose_protocol.py":
            # optimize_for_target_gateset docstring: ValueError if an operation fails to convert and ignore_failures is False
            if cirq.global_phase_operation(1j) not in gateset and _has_global_phase(circuit):
                raise Reject(f"documented ValueError: global phase operation not convertible [{g['k']}]")
            raise Violation(f"documented-as-possible ValueError for an input made of 1-3 qubit unitaries [{g['k']}]\n{str(e)[:160]}")
        raise
    if circuit != before:
        raise Violation("optimize_for_target_gateset modified its input circuit")
    return gateset, circuit, qs, built, out


def _check_native(gateset, circuit, out, case):
    ign_in = Counter(op for op in circuit.all_operations() if CG.IGNORE_TAG in op.tags)
    ign_out = Counter(op for op in out.all_operations() if CG.IGNORE_TAG in op.tags)
    if ign_in != ign_out:
        raise Violation(f"operations tagged with a tag in tags_to_ignore were not left untouched [{case['gs']['k']}]\n"
                        f"in={sorted(map(repr, ign_in.elements()))} out={sorted(map(repr, ign_out.elements()))}"[:700])
    k = case["gs"]["k"]

    rest = cirq.Circuit(cirq.Moment(op for op in m if CG.IGNORE_TAG not in op.tags) for m in out)
    for op in rest.all_operations():
        if op not in gateset:
            name = type(op.gate).__name__ if op.gate is not None else type(op.untagged).__name__
            raise Violation(f"output contains an operation the target gateset does not accept: {name} [{k}]\n{op!r}"[:400])
    if not gateset.validate(rest):
        raise Violation(f"gateset.validate(output) is False although every operation is individually accepted [{k}]")


def _check_equiv(circuit, qs, out, case, nops):
    extra = set(out.all_qubits()) - set(qs)
    if extra:
        raise Violation(f"compiled circuit acts on new qubits\n{sorted(map(repr, extra))}")
    m_in = Counter(op for op in circuit.all_operations() if cirq.is_measurement(op))
    m_out = Counter(op for op in out.all_operations() if cirq.is_measurement(op))
    if m_in != m_out:
        raise Violation(f"measurements changed by compilation\nin={list(m_in)!r} out={list(m_out)!r}"[:400])
    U_in, why = R.circuit_matrix(circuit, qs, skip_measure=True)
    if U_in is None:
        raise Reject("input without unitary")
    U_out, why = R.circuit_matrix(out, qs, skip_measure=True)
    if U_out is None:
        raise Violation(f"compiled circuit has no unitary: {why}"[:300])
    d = R.phase_distance(U_out, U_in)
    tol = _tol(case["gs"], nops)
    if not d <= tol:
        raise Violation(f"compiled circuit differs from the input unitary (up to global phase) by {d:.3g} > tol {tol:.2g} [{case['gs']['k']}]")
    return d


WORST_2Q = {"cz": 3, "gcz": 3, "sqrt_iswap": 3, "syc": 6}


def oracle_compile(case):
    gateset, circuit, qs, built, out = _compile(case)
    g = case["gs"]
    nops = sum(1 for _ in _flat_ops(circuit))
    _check_native(gateset, circuit, out, case)
    _check_equiv(circuit, qs, out, case, nops)
    in_ops = list(circuit.all_operations())
    unit_in = [op for op in in_ops if not cirq.is_measurement(op)]
    has_ign = any(CG.IGNORE_TAG in op.tags for op in in_ops)
    free = [op for op in unit_in if CG.IGNORE_TAG not in op.tags]
    native_in = all(op in gateset for op in free)
    nonnative_multi = any(len(op.qubits) >= 2 and op not in gateset for op in free)
    n2_in, n2_out = _two_qubit_count(circuit), _two_qubit_count(out)
    flat_in = [op for op in _flat_ops(circuit) if not cirq.is_measurement(op)]
    if native_in and all(len(op.qubits) <= 2 for op in flat_in) and n2_out > n2_in:
        raise Violation(f"already-native input with {n2_in} two-qubit operations compiled to {n2_out} [{g['k']}]")
    used = {q for op in unit_in for q in op.qubits}
    # The worst case (3 CZ / 3 sqrt-iSWAP / 6 SYC) is documented for the synthesis of ONE two-qubit unitary = one merged connected
    # component.  A 2-qubit circuit is one component unless (a) it holds a CircuitOperation: the documented keep-old-if-not-cheaper
    # rule counts a nested native circuit as one interaction and keeps it (then only "not more than the input" is promised, checked
    # above), or (b) the Sycamore target, which by its documented pre-processing merges adjacent SWAP + ZZPowGate pairs into a
    # component of their own, separate from the rest.
    one_component = not any(isinstance(op.untagged, cirq.CircuitOperation) for op in unit_in)
    if g["k"] == "syc" and len(unit_in) > 1:
        one_component = one_component and not (any(op.gate == cirq.SWAP for op in unit_in) and
                                                any(isinstance(op.gate, cirq.ZZPowGate) for op in unit_in))
    if (g["k"] in WORST_2Q and len(used) == 2 and one_component and not has_ign and not case.get("deep")
            and not (g["k"] == "syc" and g.get("tab"))):
        if all(len(op.qubits) in (1, 2) and cirq.has_unitary(op) for op in unit_in) and n2_out > WORST_2Q[g["k"]]:
            raise Violation(f"two-qubit input compiled to {n2_out} two-qubit gates, documented worst case {WORST_2Q[g['k']]} [{g['k']}]")
    changed = out != circuit
    return {"nontrivial": bool(changed and nonnative_multi), "changed": changed, "gs": g["k"], "native_input": native_in,
            "has_ignored": has_ign, "deep": bool(case.get("deep")), "has_cop": any(o["k"] == "cop" for o in case["circ"]["ops"]),
            "has_measure": bool(case["circ"].get("meas")), "three_qubit_op": any(len(op.qubits) == 3 for op in flat_in),
            "passes": str(case.get("passes")), "eject": bool(g.get("eject")), "nonnative_multi": nonnative_multi,
            "has_additional": bool(g.get("add")), "two_q_out": min(n2_out, 7),
            "bare_named_2q": any(o.get("k") == "bare2q" for o in case["circ"]["ops"]),
            "bare_alone": bool(case["circ"]["ops"]) and case["circ"]["ops"][0].get("k") == "bare2q" and
            all(o.get("k") in ("bare2q", "named") for o in case["circ"]["ops"])}


def oracle_twoq(case):
    """2-qubit inputs: worst-case counts, required_sqrt_iswap_count exactness, documented ValueError only when needed."""
    g = case["gs"]
    labels = oracle_compile(case)  # Reject (documented ValueError) propagates for the general part
    if g["k"] != "sqrt_iswap" or not case.get("single"):
        return labels
    gateset = CG.build_gateset(g)
    circuit, qs, built = CG.build_compile_circuit(case["circ"], g)
    op = built[0]
    if op in gateset:
        labels["single_native"] = True
        return labels
    out = cirq.optimize_for_target_gateset(circuit, gateset=gateset, ignore_failures=False, max_num_passes=case.get("passes"))
    n = _two_qubit_count(out)
    req = g.get("req")
    if req is not None and n != req:
        raise Violation(f"required_sqrt_iswap_count={req} but the compiled single operation has {n} two-qubit gates")
    labels["req"] = str(req)
    labels["count"] = n
    return labels


def oracle_sqrt_iswap_required(case):
    """required_sqrt_iswap_count=k on a single non-native 2-qubit unitary: either exactly k sqrt-iSWAPs or the documented
    ValueError, and the ValueError only when the unrestricted synthesis needs more than k (k=1 additionally cannot express a
    local gate: no circuit with exactly one sqrt-iSWAP is local)."""
    g = dict(case["gs"])
    circuit, qs, built = CG.build_compile_circuit(case["circ"], g)
    if not built:
        raise Reject("empty")
    free = dict(g, req=None)
    gs_free = CG.build_gateset(free)
    if built[0] in gs_free:
        raise Reject("operation already native")
    out_free = cirq.optimize_for_target_gateset(circuit, gateset=gs_free, ignore_failures=False, max_num_passes=1)
    n_star = _two_qubit_count(out_free)
    if n_star > 3:
        raise Violation(f"unrestricted sqrt-iSWAP synthesis of one 2-qubit unitary used {n_star} two-qubit gates (> 3)")
    U_in, _ = R.circuit_matrix(circuit, qs)
    res = {}
    for k in (0, 1, 2, 3):
        gk = CG.build_gateset(dict(g, req=k))
        try:
            out = cirq.optimize_for_target_gateset(circuit, gateset=gk, ignore_failures=False, max_num_passes=case.get("passes"))
        except ValueError:
            # the situation is fully known from the recipe (one non-native 2-qubit unitary, required count k): any ValueError is
            # the documented rejection, legitimate iff the reference says k gates cannot do it -- whatever the message says
            res[k] = "ValueError"
            needed = n_star > k or (k == 1 and n_star == 0)
            if not needed:
                raise Violation(f"required_sqrt_iswap_count={k} raised ValueError although the unrestricted synthesis needs only {n_star}")
            continue
        n = _two_qubit_count(out)
        res[k] = n
        if n != k:
            raise Violation(f"required_sqrt_iswap_count={k} but output has {n} two-qubit gates")
        for op in out.all_operations():
            if op not in gk:
                raise Violation(f"required_sqrt_iswap_count={k}: output operation not accepted by the gateset: {op!r}"[:300])
        U_out, why = R.circuit_matrix(out, qs)
        d = R.phase_distance(U_out, U_in)
        if not d <= _tol(g, 1):
            raise Violation(f"required_sqrt_iswap_count={k}: compiled unitary differs by {d:.3g} (unrestricted synthesis needs {n_star})")
    return {"nontrivial": True, "n_star": n_star, "pattern": "".join("E" if res[k] == "ValueError" else str(res[k]) for k in (0, 1, 2, 3)),
            "cls": case["circ"]["ops"][0].get("p", {}).get("cls", "lib")}


def oracle_syc_tabulation(case):
    """SycamoreTargetGateset(tabulation=...): approximate synthesis.  Own tolerance: the tabulation is built with
    max_infidelity=0.1 and allow_missed_points=False; the trace fidelity of one compiled 2-qubit unitary must stay above 0.85
    (known gates use exact decompositions), the output must be native and use at most 6 SYC."""
    g = dict(case["gs"], k="syc", tab=True, atol=1e-8)
    gateset = CG.build_gateset(g)
    circuit, qs, built = CG.build_compile_circuit(case["circ"], g)
    if not built:
        raise Reject("empty")
    out = cirq.optimize_for_target_gateset(circuit, gateset=gateset, ignore_failures=False, max_num_passes=case.get("passes"))
    _check_native(gateset, circuit, out, dict(case, gs=g))
    U_in, _ = R.circuit_matrix(circuit, qs)
    U_out, why = R.circuit_matrix(out, qs)
    if U_out is None:
        raise Violation(f"compiled circuit has no unitary: {why}"[:300])
    fid = abs(np.trace(U_in.conj().T @ U_out)) ** 2 / U_in.shape[0] ** 2
    if not fid >= 0.85:
        raise Violation(f"Sycamore tabulation: trace fidelity {fid:.3f} < 0.85 (tabulation max_infidelity 0.1)")
    n2 = _two_qubit_count(out)
    if n2 > 6:
        raise Violation(f"Sycamore tabulation: {n2} two-qubit gates for one 2-qubit unitary")
    return {"nontrivial": built[0] not in gateset, "exact": bool(fid > 1 - 1e-9), "syc_count": n2,
            "cls": case["circ"]["ops"][0].get("p", {}).get("cls", "lib")}


# =============================================================================================== (b) routing

def _route_setup(case):
    import networkx as nx

    graph, ps, und = CG.build_graph(case["graph"])
    circuit, ls = CG.build_route_circuit(case)
    if len(set(ps)) != len(ps) or len(set(ls)) != len(ls) or len(ls) > len(ps) or not nx.is_connected(nx.Graph(graph)):
        raise Reject("malformed recipe (shrunk)")
    if not list(circuit.all_operations()):
        raise Reject("empty circuit")
    n, m = case["graph"]["n"], case["m"]
    mapper_kind = case["mapper"]
    if _unidirectional(case) and mapper_kind != "hard":
        mapper_kind = "hard"  # LineInitialMapper needs nx.center(): only defined for strongly connected digraphs
    hard = None
    if mapper_kind == "hard":
        size = min(n, m + int(case.get("k_extra", 0)))
        subset = CG.connected_subset(und, n, size, case.get("grow", [0] * n))
        order = [i for i in case.get("assign", list(range(n))) if i in subset] + [i for i in subset if i not in case.get("assign", list(range(n)))]
        logical = list(ls) + [cirq.LineQubit(900 + j) for j in range(size - m)]
        hard = {lq: ps[order[j]] for j, lq in enumerate(logical)}
        mapper = cirq.HardCodedInitialMapper(dict(hard))
    elif mapper_kind == "line":
        mapper = cirq.LineInitialMapper(graph)
    else:
        mapper = None
    return graph, ps, und, circuit, ls, mapper, hard, mapper_kind


def _unidirectional(case):
    gr = case["graph"]
    if not gr.get("directed"):
        return False
    nedges = len({tuple(sorted(e)) for e in gr["edges"] if e[0] != e[1] and max(e) < gr["n"]})
    rev = (list(gr.get("rev", [])) + [0] * nedges)[:nedges]
    return any(m != 2 for m in rev)


def oracle_route(case):
    graph, ps, und, circuit, ls, mapper, hard, mapper_kind = _route_setup(case)
    directed = bool(case["graph"].get("directed"))
    before = circuit.copy()
    router = cirq.RouteCQC(graph)
    with _watchdog(5, "RouteCQC.route_circuit"):
        routed, initial_map, swap_map = router.route_circuit(circuit, lookahead_radius=int(case["lookahead"]) or 1,
                                                             tag_inserted_swaps=bool(case["tag"]), initial_mapper=mapper)
    if circuit != before:
        raise Violation("route_circuit modified its input circuit")
    with _watchdog(5, "RouteCQC.__call__"):
        called = router(circuit, lookahead_radius=int(case["lookahead"]) or 1, tag_inserted_swaps=bool(case["tag"]), initial_mapper=mapper)
    if called != routed:
        raise Violation("RouteCQC.__call__ returns a different circuit than route_circuit()[0] for the same arguments")
    pidx = {p: i for i, p in enumerate(ps)}
    # -- initial map: logical qubits of the circuit -> distinct device qubits
    if not set(circuit.all_qubits()) <= set(initial_map):
        raise Violation("initial_map does not cover every logical qubit of the circuit")
    vals = list(initial_map.values())
    if any(v not in pidx for v in vals):
        raise Violation("initial_map maps onto qubits that are not nodes of the device graph")
    if len(set(vals)) != len(vals):
        raise Violation("initial_map is not injective")
    if hard is not None and dict(initial_map) != hard:
        raise Violation("HardCodedInitialMapper: returned initial_map differs from the hard-coded one")
    image = sorted(vals, key=lambda p: pidx[p])
    if set(swap_map) != set(image) or set(swap_map.values()) != set(image):
        raise Violation("swap_map is not a permutation of the physical qubits of initial_map")
    extra = set(routed.all_qubits()) - set(image)
    if extra:
        raise Violation(f"routed circuit acts on qubits outside the image of initial_map: {sorted(map(repr, extra))}")
    # -- every 2-qubit op on an edge
    dir_edges = {(pidx[a], pidx[b]) for a, b in graph.edges} if directed else None
    for op in routed.all_operations():
        if len(op.qubits) == 2:
            a, b = (pidx[q] for q in op.qubits)
            if tuple(sorted((a, b))) not in und:
                raise Violation(f"routed two-qubit operation does not act on an edge of the device graph\n{op!r}"[:300])
            if directed and (a, b) not in dir_edges and not (op.gate == cirq.SWAP and (b, a) in dir_edges and (a, b) in dir_edges):
                raise Violation(f"directed device graph: routed operation acts against the only direction of its edge\n{op!r}"[:300])
        elif len(op.qubits) > 2 and not cirq.is_measurement(op):
            raise Violation(f"routed circuit contains a >2-qubit non-measurement operation {op!r}"[:300])
    # -- equality up to the reported permutation (measurements replaced by a fixed non-symmetric surrogate on both sides)
    wires = image
    widx = {p: i for i, p in enumerate(wires)}
    relabelled = circuit.transform_qubits(lambda q: initial_map[q])
    nops = sum(1 for _ in circuit.all_operations())
    U_orig, why = R.circuit_matrix(relabelled, wires, measure_surrogate=True)
    if U_orig is None:
        raise Reject(f"no unitary: {why}")
    U_routed, why = R.circuit_matrix(routed, wires, measure_surrogate=True)
    if U_routed is None:
        raise Violation(f"routed circuit has no unitary: {why}"[:300])
    # logical qubit starting on physical p ends on swap_map[p]: bring the content of wire swap_map[p] back to wire p
    moves = [0] * len(wires)
    for p, p_end in swap_map.items():
        moves[widx[p_end]] = widx[p]
    P = R.wire_permutation_matrix(moves, len(wires))
    d = L.max_abs_diff(P @ U_routed, U_orig)
    tol = 1e-8 * (1 + nops)
    if not d <= tol:
        raise Violation(f"routed circuit followed by the reported final permutation differs from the original by {d:.3g} (tol {tol:.1g})")
    # -- measurements: same keys, on the qubits the logical operands currently sit on (covered by the surrogate for position; keys here)
    k_in = Counter(cirq.measurement_key_name(op) for op in circuit.all_operations() if cirq.is_measurement(op))
    k_out = Counter(cirq.measurement_key_name(op) for op in routed.all_operations() if cirq.is_measurement(op))
    if k_in != k_out:
        raise Violation(f"measurement keys changed by routing: {sorted(k_in)} -> {sorted(k_out)}")
    # -- replay with tagged swaps: removing them and undoing the relabelling gives back every qubit's operation sequence
    n_sw = 0
    tagged = [op for op in routed.all_operations() if any(isinstance(t, cirq.RoutingSwapTag) for t in op.tags)]
    if not case["tag"] and tagged:
        raise Violation("tag_inserted_swaps=False but the routed circuit carries RoutingSwapTag")
    if case["tag"] and not directed:
        cur = {p: l for l, p in initial_map.items()}
        seq = {l: [] for l in initial_map}
        for op in routed.all_operations():
            if any(isinstance(t, cirq.RoutingSwapTag) for t in op.tags):
                if op.gate != cirq.SWAP:
                    raise Violation(f"operation tagged RoutingSwapTag is not a SWAP: {op!r}")
                a, b = op.qubits
                cur[a], cur[b] = cur[b], cur[a]
                n_sw += 1
            else:
                lop = op.transform_qubits(lambda q: cur[q])
                for l in lop.qubits:
                    seq[l].append(lop)
        want = {l: [] for l in initial_map}
        for op in circuit.all_operations():
            for l in op.qubits:
                want[l].append(op)
        for l in want:
            if seq[l] != want[l]:
                raise Violation(f"after removing tagged swaps and undoing the mapping a logical qubit sees a different operation sequence\n{l!r}: {seq[l]!r}, original {want[l]!r}"[:600])
        for l, p in initial_map.items():
            if cur.get(swap_map[p]) != l:
                raise Violation("swap_map disagrees with the tagged swaps actually inserted")
    else:
        n_sw = sum(1 for p, q in swap_map.items() if p != q)  # lower bound indicator only
    moved = any(p != q for p, q in swap_map.items())
    n2 = sum(1 for op in circuit.all_operations() if len(op.qubits) == 2)
    return {"nontrivial": bool(n_sw > 0 or moved), "swaps_inserted": bool(n_sw > 0 or moved), "final_perm_nontrivial": moved,
            "mapper": mapper_kind, "directed": directed, "unidirectional": _unidirectional(case), "nodes": case["graph"]["n"], "has_measure": bool(k_in), "tagged": bool(case["tag"]),
            "two_qubit_ops": min(n2, 8), "partial_map": len(image) < case["graph"]["n"]}


# =============================================================================================== (c) devices

def _expect(dev_call, op, want_ok, why, what, detail=""):
    """validate_* must raise ValueError iff the reference predicate is false."""
    try:
        dev_call(op)
    except ValueError as e:
        if want_ok:
            raise Violation(f"{what} rejected what the reference predicate allows ({why})\n{detail}: {str(e)[:160]}")
        return False
    if not want_ok:
        raise Violation(f"{what} accepted what the reference predicate forbids ({why})\n{detail}: {op!r}"[:500])
    return True


def oracle_device_grid(case):
    dev, qs, off = CG.build_grid_device(case)
    nq = len(qs)
    pairs = [tuple(p) for p in case["pairs"] if p[0] < nq and p[1] < nq and p[0] != p[1]]
    specs = case["specs"]
    # metadata itself
    md = dev.metadata
    if set(md.qubit_set) != set(qs):
        raise Violation("GridDevice.metadata.qubit_set differs from the specification's valid_qubits")
    if {frozenset(p) for p in md.qubit_pairs} != {frozenset((qs[a], qs[b])) for a, b in pairs}:
        raise Violation("GridDevice.metadata.qubit_pairs differs from the SYMMETRIC two-qubit targets of the specification")
    acc = rej = 0
    reasons = Counter()
    ops = []
    for o in case["ops"]:
        op = CG.build_device_op(o, qs, off)
        if op is None:
            continue
        ok, why = R.grid_valid(o["g"], o.get("tag", "none"), specs, o["w"][: len(op.qubits)], nq, pairs)
        got = _expect(dev.validate_operation, op, ok, why, "GridDevice.validate_operation", f"{o['g']}/{o.get('tag')}")
        acc += got
        rej += not got
        reasons[why] += 1
        ops.append((op, ok))
    # circuit-level: valid iff every operation is valid
    pool = [x for x in ops if x[1]] if case.get("circ_valid_only") and any(x[1] for x in ops) else ops
    chosen = [pool[i % len(pool)] for i in case.get("circ", [])] if pool else []
    if chosen:
        c = cirq.Circuit()
        for op, _ in chosen:
            c.append(op if not cirq.is_measurement(op) else op, strategy=cirq.InsertStrategy.NEW)
        all_ok = all(ok for _, ok in chosen)
        _expect(dev.validate_circuit, c, all_ok, "circuit of listed operations", "GridDevice.validate_circuit")
        _expect(lambda cc: [dev.validate_moment(m) for m in cc], c, all_ok, "moments of listed operations", "GridDevice.validate_moment")
    # repeated equal gates with different tags / qubits: every bulk path must still decide per operation, in either order
    tlab = _grid_tagged_circuit(dev, case, qs, off, nq, pairs, specs)
    return dict({"nontrivial": acc > 0 and rej > 0, "accepted_ops": acc, "rejected_ops": rej, "via": case.get("via"),
                 "rej_gate": reasons["gate"] > 0, "rej_qubit": reasons["qubit"] > 0, "rej_pair": reasons["pair"] > 0, "acc_any": acc > 0}, **tlab)


def _grid_tagged_circuit(dev, case, qs, off, nq, pairs, specs):
    entries = []
    for o in case.get("tcirc", []):
        op = CG.build_device_op(o, qs, off)
        if op is None:
            continue
        ok, why = R.grid_valid(o["g"], o.get("tag", "none"), specs, o["w"][: len(op.qubits)], nq, pairs)
        _expect(dev.validate_operation, op, ok, why, "GridDevice.validate_operation", f"{o['g']}/{o.get('tag')}")
        entries.append((op, ok, o["g"], o.get("tag", "none")))
    if not entries:
        return {}
    c = cirq.Circuit()
    for op, _, _, _ in entries:
        c.append(op, strategy=cirq.InsertStrategy.NEW if case.get("tcirc_new") else cirq.InsertStrategy.EARLIEST)
    okmap = {}
    for op, ok, _, _ in entries:
        okmap[op] = okmap.get(op, True) and ok
    all_ok = all(ok for _, ok, _, _ in entries)
    for label, cc in (("in order", c), ("reversed", cirq.Circuit(list(c)[::-1]))):
        _expect(dev.validate_circuit, cc, all_ok, f"circuit of repeated gates with varying tags, {label}", "GridDevice.validate_circuit")
    for m in c:
        m_ok = all(okmap[op] for op in m)
        _expect(dev.validate_moment, m, m_ok, "moment of repeated gates with varying tags", "GridDevice.validate_moment")
    # same gate value accepted with one tag set and rejected with another inside one circuit
    by_gate = {}
    for op, ok, key, tag in entries:
        by_gate.setdefault(key, set()).add(R.grid_member(key, tag, specs))  # membership verdict only (qubits / pairs may differ)
    mixed = any(len(v) == 2 for v in by_gate.values())
    first_bad = next((i for i, e in enumerate(entries) if not e[1]), None)
    return {"tag_decides_in_circuit": mixed, "tcirc_accept_then_reject": bool(first_bad not in (None, 0) and any(e[1] for e in entries[:first_bad])),
            "tcirc_all_ok": all_ok}


def _vendor_qubits(case):
    import cirq_pasqal

    kind, nq, n_off = case["kind"], case["nq"], case["n_off"]
    if kind in ("ionq", "aqt"):
        xs = list(case["xs"]) + [20 + i for i in range(nq + n_off)]
        if kind == "ionq" and case.get("as_int"):
            qs = [cirq.LineQubit(i) for i in range(nq)]
            off = [cirq.LineQubit(nq + 3 + i) for i in range(n_off)]
        else:
            qs = [cirq.LineQubit(x) for x in xs[:nq]]
            off = [cirq.LineQubit(x) for x in xs[nq: nq + n_off]]
        if case.get("off_kind") == "named":
            off = [cirq.NamedQubit(f"x{i}") for i in range(n_off)]
        return qs, off
    if kind == "pasqal":
        qs = [cirq.NamedQubit(f"q{i}") for i in range(nq)]
        off = [cirq.NamedQubit(f"off{i}") for i in range(n_off)] if case.get("off_kind") == "named" else [cirq.LineQubit(i) for i in range(n_off)]
        return qs, off
    pts = [tuple(p) + (0,) * (3 - len(p)) for p in case["pts"]] + [(9 + i, 9, 0) for i in range(nq + n_off)]
    mk = {"two_d": lambda p: cirq_pasqal.TwoDQubit(p[0], p[1]), "three_d": lambda p: cirq_pasqal.ThreeDQubit(p[0], p[1], p[2]),
          "grid": lambda p: cirq.GridQubit(p[0], p[1]), "line": lambda p: cirq.LineQubit(p[0] * 3 + p[1])}[case["qkind"]]
    allq = [mk(p) for p in pts[: nq + n_off]]
    qs, off = allq[:nq], allq[nq:]
    if case.get("off_kind") == "named":
        off = [cirq.NamedQubit(f"off{i}") for i in range(n_off)]
    return qs, off


def _pos(case, i):
    """3-d position of device qubit i (reference geometry, independent of the device's distance())."""
    p = tuple(case["pts"][i]) + (0,) * (3 - len(case["pts"][i]))
    if case["qkind"] == "line":
        return (p[0] * 3 + p[1], 0, 0)
    if case["qkind"] == "three_d":
        return (p[0], p[1], p[2])
    return (p[0], p[1], 0)


def _dist3(a, b):
    return float(np.sqrt((a[0] - b[0]) ** 2 + (a[1] - b[1]) ** 2 + (a[2] - b[2]) ** 2))


def oracle_device_vendor(case):
    import cirq_aqt
    import cirq_ionq
    import cirq_pasqal

    kind, nq = case["kind"], case["nq"]
    qs, off = _vendor_qubits(case)
    radius = None
    if kind == "ionq":
        dev = cirq_ionq.IonQAPIDevice(nq if case.get("as_int") else qs)
        okset, name = R.IONQ_OK, "IonQAPIDevice"
    elif kind == "aqt":
        dev = cirq_aqt.aqt_device.AQTDevice(measurement_duration=cirq.Duration(micros=100), twoq_gates_duration=cirq.Duration(micros=200),
                                            oneq_gates_duration=cirq.Duration(micros=10), qubits=qs)
        okset, name = R.AQT_OK, "AQTDevice"
    elif kind == "pasqal":
        dev = cirq_pasqal.PasqalDevice(qs)
        okset, name = R.PASQAL_BASE | R.PASQAL_CTRL, "PasqalDevice"
    else:
        radius = float(case["radius"])
        pos = [_pos(case, i) for i in range(nq)]
        dmin = min((_dist3(a, b) for i, a in enumerate(pos) for b in pos[i + 1:]), default=None)
        try:
            dev = cirq_pasqal.PasqalVirtualDevice(control_radius=radius, qubits=qs)
        except ValueError:
            if dmin is not None and radius > 3.0 * dmin:
                raise Reject("documented ValueError: control_radius > 3 x minimal distance")
            raise
        if dmin is not None and radius > 3.0 * dmin + 1e-12:
            raise Violation("PasqalVirtualDevice accepted a control_radius larger than 3 times the minimal distance")
        okset, name = R.PASQAL_BASE, "PasqalVirtualDevice"
    acc = rej = 0
    reasons = Counter()
    ops = []

    def reference(key, w):
        if key not in okset:
            return False, "gate"
        if any(i >= nq for i in w):
            return False, "qubit"
        if kind == "pasqal_virtual" and key in R.PASQAL_CONTROLLED:
            a, b = _pos(case, w[0]), _pos(case, w[1])
            planar = float(np.hypot(a[0] - b[0], a[1] - b[1]))
            if (planar > radius + 1e-12) != (_dist3(a, b) > radius + 1e-12):
                reasons["planar_vs_3d_disagree"] += 1
            if _dist3(a, b) > radius + 1e-12:
                return False, "distance"
        return True, "ok"

    def circuit_check(chosen, new_moments, tagname):
        c = cirq.Circuit()
        for op, _, _ in chosen:
            c.append(op, strategy=cirq.InsertStrategy.NEW if new_moments else cirq.InsertStrategy.EARLIEST)
        all_ok = all(ok for _, ok, _ in chosen)
        why = "operations"
        if kind == "aqt":
            keys = [cirq.measurement_key_name(op) for op, _, _ in chosen if cirq.is_measurement(op)]
            if len(keys) != len(set(keys)):
                all_ok, why = False, "repeated measurement key"
        if kind.startswith("pasqal") and all_ok:
            seen_meas = False
            for mom in c:
                if seen_meas and len(mom):
                    all_ok, why = False, "operation after measurement"
                if any(cirq.is_measurement(op) for op in mom):
                    seen_meas = True
        if kind == "pasqal_virtual" and all_ok:
            for mom in c:
                if len(mom) > 1 and not all(cirq.is_measurement(op) for op in mom):
                    all_ok, why = False, "simultaneous gates"
        _expect(dev.validate_circuit, c, all_ok, why, f"{name}.validate_circuit", tagname)
        reasons["circ_" + why] += 1
        return all_ok

    for o in case["ops"]:
        op = CG.build_device_op(o, qs, off)
        if op is None:
            continue
        key, w = o["g"], o["w"][: len(op.qubits)]
        ok, why = reference(key, w)
        if kind.startswith("pasqal") and key == "MEAS_INV" and ok:
            # documented: NotImplementedError for measurements with an invert mask
            try:
                dev.validate_operation(op)
            except NotImplementedError:
                reasons["invert_mask"] += 1
                rej += 1
                continue
            raise Violation(f"{name}.validate_operation accepted a measurement with invert_mask (documented NotImplementedError)")
        got = _expect(dev.validate_operation, op, ok, why, f"{name}.validate_operation", key)
        acc += got
        rej += not got
        reasons[why] += 1
        ops.append((op, ok, key))
    # circuit level
    pool = [x for x in ops if x[1]] if case.get("circ_valid_only") and any(x[1] for x in ops) else ops
    chosen = [pool[i % len(pool)] for i in case.get("circ", [])] if pool else []
    if chosen:
        circuit_check(chosen, case.get("new_moments"), "listed operations")
    # repeated equal gates on varying qubits (on-/off-device, near / far): decided per operation, in either order
    rep = []
    for o in case.get("tcirc", []):
        if o["g"] == "MEAS_INV":
            continue
        op = CG.build_device_op(o, qs, off)
        if op is None:
            continue
        ok, why = reference(o["g"], o["w"][: len(op.qubits)])
        _expect(dev.validate_operation, op, ok, why, f"{name}.validate_operation", o["g"])
        rep.append((op, ok, o["g"]))
    if rep:
        circuit_check(rep, case.get("tcirc_new"), "repeated gates")
        circuit_check(rep[::-1], case.get("tcirc_new"), "repeated gates reversed")
    return {"nontrivial": acc > 0 and rej > 0, "accepted_ops": acc, "rejected_ops": rej, "kind": kind, "rej_gate": reasons["gate"] > 0,
            "rej_qubit": reasons["qubit"] > 0, "rej_distance": reasons["distance"] > 0, "planar_vs_3d_disagree": reasons["planar_vs_3d_disagree"] > 0, "acc_any": acc > 0,
            "circ_rule": any(k.startswith("circ_") and k != "circ_operations" for k in reasons)}


# =============================================================================================== known findings

def _walk_ops(lst):
    for o in lst:
        if o.get("k") == "cop":
            yield from _walk_ops(o.get("ops", []))
        else:
            yield o


def _near_weyl_boundary(x):
    """any numeric leaf within (0, 1e-6) of a multiple of 1/8 (exponents) or of pi/16 (angles), or an explicit `eps` offset"""
    import math

    if isinstance(x, dict):
        return bool(x.get("eps")) or any(_near_weyl_boundary(v) for v in x.values())
    if isinstance(x, list):
        return any(_near_weyl_boundary(v) for v in x)
    if isinstance(x, float):
        for unit in (0.125, math.pi / 16):
            d = abs(x / unit - round(x / unit)) * unit
            if 0 < d < 1e-6:
                return True
    return False


def _tabulation_near_mirror_face(case):
    """F19 trigger: a unitary whose KAK vector lies within (0, 1e-7) of the face x = pi/4 of the Weyl chamber, where the sign of z
    is a convention: TwoQubitGateTabulation.compile_two_qubit_gate reports success but returns local gates for the mirror image."""
    import math

    circuit, qs, built = CG.build_compile_circuit(case["circ"], dict(case["gs"], k="syc", tab=True, atol=1e-8))
    if not built or len(built[0].qubits) != 2:
        return False
    u = cirq.unitary(built[0], None)
    if u is None:
        return False
    x = float(np.max(np.abs(cirq.kak_vector(u, check_preconditions=False))))
    return 0 < math.pi / 4 - x < 1e-7


def _near_local_two_qubit_unitary(case):
    """F20 trigger: a two-qubit operation (or the whole 2-qubit circuit) whose KAK interaction is tiny but not zero,
    0 < max|kak_vector| < 1e-7: cirq.kak_decomposition returns factors that do not reproduce the matrix there (interaction strength
    inside the degeneracy-detection window), so every synthesis built on it (CZ, sqrt-iSWAP, ...) is off by O(1)."""
    if not _near_weyl_boundary(case["circ"].get("ops", [])):  # cheap pre-filter: some parameter within 1e-6 of a special value
        return False
    g = dict(case["gs"])
    circuit, qs, built = CG.build_compile_circuit(case["circ"], g)
    mats = []
    for op in _flat_ops(circuit):
        if len(op.qubits) == 2 and not cirq.is_measurement(op):
            mats.append(cirq.unitary(op, None))
    if len(qs) == 2 and all(cirq.has_unitary(op) for op in circuit.all_operations()):
        mats.append(cirq.unitary(circuit) if len(circuit.all_qubits()) == 2 else None)
    for u in mats:
        if u is None or u.shape != (4, 4):
            continue
        x = float(np.max(np.abs(cirq.kak_vector(u, check_preconditions=False))))
        if 0 < x < 1e-7:
            return True
    return False


def _sqrt_iswap_tight_atol_near_corner(case):
    """F18 trigger: SqrtIswapTargetGateset(atol < 1e-8) on an input within ~atol of a Weyl-chamber corner (KAK sub-decomposition
    inside _decomp_2sqrt_iswap_matrices is run with atol/10, below the numerical noise of the input)."""
    g = case["gs"]
    return g.get("k") == "sqrt_iswap" and float(g.get("atol", 1e-8)) < 1e-8 and _near_weyl_boundary(case["circ"].get("ops", []))


KNOWN_FEATURES = {
    "F18_sqrt_iswap_tight_atol_near_weyl_corner": lambda sub, r: sub in ("compile_core", "twoq", "sqrt_iswap_required") and _sqrt_iswap_tight_atol_near_corner(r),
    "F20_kak_decomposition_near_local_window": lambda sub, r: sub in ("compile_core", "compile_vendor", "twoq", "sqrt_iswap_required", "syc_tabulation", "bare_known_gates") and _near_local_two_qubit_unitary(r),
    "F19_tabulation_near_weyl_mirror_face": lambda sub, r: sub == "syc_tabulation" and _tabulation_near_mirror_face(r),
    "F16_route_cqc_unidirectional_edges_livelock": lambda sub, r: sub == "route" and _unidirectional(r),
}


SUBCHECKS = [
    SubCheck("compile_core", CG.compile_cases(CG.CORE_KINDS), oracle_compile, quick=2700, thorough=60000, shards_quick=8, shards_thorough=16,
             essential={"nontrivial": 0.2, "has_ignored": 0.05, "has_cop": 0.1, "native_input": 0.1, "three_qubit_op": 0.05, "deep": 0.03},
             doc="CZ / sqrt-iSWAP / Sycamore / GoogleCZ targets: native + validate, equivalent, no new qubits, ignored ops untouched, counts"),
    SubCheck("compile_vendor", CG.compile_cases(CG.VENDOR_KINDS), oracle_compile, quick=2700, thorough=60000, shards_quick=8, shards_thorough=16,
             essential={"nontrivial": 0.15, "three_qubit_op": 0.05}, doc="IonQ API / Aria / Forte / AQT / Pasqal targets, same oracle"),
    SubCheck("twoq", CG.twoq_cases(), oracle_twoq, quick=2000, thorough=40000, shards_quick=4, shards_thorough=16,
             essential={"nontrivial": 0.3}, doc="2-qubit inputs: documented worst-case two-qubit-gate counts, required count exact"),
    SubCheck("bare_known_gates", None, oracle_compile, quick=0, thorough=0, shards_quick=4, shards_thorough=16, enumerate=CG.bare_table,
             exhaustive_in=("quick", "thorough"),
             doc="finite table: named 2-qubit gates x special exponents (negative, >1, fractional), alone in their component (known-gate "
                 "fast paths of the targets), x target gatesets with default options"),
    SubCheck("sqrt_iswap_required", CG.twoq_cases_single(), oracle_sqrt_iswap_required, quick=600, thorough=10000, shards_quick=2,
             shards_thorough=8, doc="required_sqrt_iswap_count in {0,1,2,3} on one unitary: exact count or ValueError only when needed"),
    SubCheck("syc_tabulation", CG.twoq_cases_single(), oracle_syc_tabulation, quick=150, thorough=6000, shards_quick=1, shards_thorough=4,
             doc="SycamoreTargetGateset with a gate tabulation (approximate; own fidelity bound)"),
    SubCheck("route", CG.route_cases(), oracle_route, quick=3000, thorough=60000, shards_quick=4, shards_thorough=16,
             essential={"swaps_inserted": 0.2, "tagged": 0.2}, doc="RouteCQC: edges, injective initial map, equality up to reported permutation"),
    SubCheck("device_grid", CG.grid_device_cases(), oracle_device_grid, quick=1200, thorough=30000, shards_quick=2, shards_thorough=8,
             essential={"nontrivial": 0.5, "rej_pair": 0.3, "rej_qubit": 0.15, "tag_decides_in_circuit": 0.08, "tcirc_accept_then_reject": 0.05}, doc="GridDevice validate_* iff reference predicate"),
    SubCheck("device_vendor", CG.vendor_device_cases(), oracle_device_vendor, quick=2000, thorough=40000, shards_quick=2, shards_thorough=8,
             essential={"nontrivial": 0.5, "rej_qubit": 0.2, "rej_distance": 0.05, "planar_vs_3d_disagree": 0.02}, doc="IonQAPIDevice / AQTDevice / PasqalDevice / PasqalVirtualDevice validate_* iff predicate"),
]
