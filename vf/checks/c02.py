"""C02 — measurement outcomes follow the Born rule exactly, including feed-forward."""
from __future__ import annotations

import itertools

import numpy as np
from hypothesis import strategies as st

import cirq
from vf.core import Reject, SubCheck, Violation
from vf.gen import meas_circuits as MC
from vf.prng import ScriptedPRNG, enumerate_branches
from vf.ref import interp as RI
from vf.ref import linalg as L

RULE = (
    "Hypothesis draws circuits with unitary gates, measurements (repeated keys, multi-qubit keys, invert masks shorter "
    "or equal to the qubit count, 1-/2-qubit confusion maps, qudits), resets and classically controlled gates "
    "(KeyCondition with index, SympyCondition ==, >, indexed bits, xor; BitMaskKeyCondition), a simulator (state-vector / "
    "density-matrix, split on/off, Clifford simulator / StabilizerSampler on the Clifford sub-grammar), an entry point (run, "
    "simulate, sample, run_sweep) and repetitions in {1,2}. The simulator is driven by a ScriptedPRNG passed as `seed`, "
    "every outcome branch is enumerated and its exact probability is the product of the logged probability vectors; the "
    "resulting table records->probability (and per-branch final state) must equal the table of the independent numpy "
    "interpreter. Non-trivial: >=2 branches with probability in (0.01,0.99) and at least one of: classical control whose "
    "truth differs across branches, multi-qubit key with mask/confusion, repeated key, qudit. Distinct = recipe hash."
)
ASSUMPTIONS = [
    "per-gate matrices come from cirq.unitary(gate) (C03/C04); measurement, collapse, masks, confusion, key bookkeeping and "
    "conditions are recomputed by vf.ref.interp from the recipe",
    "a simulator's `seed` may be any object with the RandomState methods it uses (documented: cirq.RANDOM_STATE_OR_SEED_LIKE)",
    "probabilities compared at 1e-6 (complex128 simulators) with identical support above 1e-9",
]

SIMS = ["sv", "sv_nosplit", "dm", "dm_nosplit"]


def _make_sim(kind, prng, clifford=False):
    if kind == "sv":
        return cirq.Simulator(seed=prng, dtype=np.complex128, split_untangled_states=True)
    if kind == "sv_nosplit":
        return cirq.Simulator(seed=prng, dtype=np.complex128, split_untangled_states=False)
    if kind == "dm":
        return cirq.DensityMatrixSimulator(seed=prng, dtype=np.complex128, split_untangled_states=True)
    if kind == "dm_nosplit":
        return cirq.DensityMatrixSimulator(seed=prng, dtype=np.complex128, split_untangled_states=False)
    if kind == "clifford":
        return cirq.CliffordSimulator(seed=prng)
    if kind == "clifford_nosplit":
        return cirq.CliffordSimulator(seed=prng, split_untangled_states=False)
    if kind == "stab_sampler":
        return cirq.StabilizerSampler(seed=prng)
    raise KeyError(kind)


@st.composite
def _case(draw, sims=SIMS, **kw):
    r = draw(MC.meas_circuit_recipes(**kw))
    if not any(o["k"] in ("m", "pm") for o in r["ops"]):
        n0 = len(r["dims"])
        w = list(draw(st.permutations(list(range(n0)))))[: draw(st.integers(1, min(3, n0)))]
        r["ops"].append({"k": "m", "key": "a", "w": w, "inv": [], "conf": None})
    if draw(st.integers(0, 3)) > 0:
        # make every (conditional) gate observable: terminal measurement of the wires that gates acted on last
        n0 = len(r["dims"])
        touched = []
        for o in r["ops"]:
            if o["k"] in ("g", "cg"):
                touched = [w for w in touched if w not in o["w"]] + list(o["w"])
            elif o["k"] == "m":
                touched = [w for w in touched if w not in o["w"]]
            elif o["k"] == "pm":  # the post-measurement state of an observable measurement is worth observing too
                touched = [w for w in touched if w not in o["w"]] + list(o["w"])
        fin = touched[-3:]
        size = 1
        for w in fin:
            size *= r["dims"][w]
        if fin and size <= 12:
            r["ops"].append({"k": "m", "key": "zfin", "w": fin, "inv": [], "conf": None})
    r["sim"] = draw(st.sampled_from(sims))
    r["entry"] = draw(st.sampled_from(["run", "run", "simulate", "sample", "run_sweep"]))
    r["reps"] = draw(st.sampled_from([1, 1, 1, 2]))
    est = 1
    for o in r["ops"]:
        if o["k"] == "m":
            for w in o["w"]:
                est *= r["dims"][w]
            if o.get("conf"):
                est *= 2 ** len(o["conf"][0])
        elif o["k"] == "pm":
            est *= 2
    if est > 24:
        r["reps"] = 1  # two repetitions square the number of outcome branches
    r["est_branches"] = est
    n = len(r["dims"])
    r["order"] = list(draw(st.permutations(list(range(n)))))
    return r


def _rec_key_from_records(records, rep):
    """canonical key of repetition ``rep`` of a cirq Result.records dict."""
    out = {}
    for k, arr in records.items():
        arr = np.asarray(arr)
        if arr.ndim != 3:
            raise Violation(f"Result.records[{k!r}] has ndim {arr.ndim}, documented shape is (repetitions, instances, qubits)")
        out[k] = tuple(tuple(int(x) for x in inst) for inst in arr[rep])
    return RI.records_key(out)


def _compare_tables(what, got, want, tol=1e-6):
    keys = set(got) | set(want)
    for k in sorted(keys):
        g, w = got.get(k, 0.0), want.get(k, 0.0)
        if abs(g - w) > tol:
            raise Violation(f"{what}: P[{k}] = {g:.6g} but quantum mechanics gives {w:.6g}")


def _labels(r, ref_branches, want):
    mid = sum(1 for p in want.values() if 0.01 < p < 0.99)
    keys = [o["key"] for o in r["ops"] if o["k"] in ("m", "pm")]
    feats = {
        "cond": any(o["k"] == "cg" for o in r["ops"]),
        "mask_or_conf": any(o["k"] == "m" and len(o["w"]) > 1 and (any(o.get("inv") or []) or o.get("conf")) for o in r["ops"]),
        "repeated_key": len(keys) != len(set(keys)),
        "qudit": any(d != 2 for d in r["dims"]),
        "terminal_only": MC.is_terminal_only(r),
        "reset": any(o["k"] == "r" for o in r["ops"]),
        "pauli_measure": any(o["k"] == "pm" for o in r["ops"]),
    }
    feats["nontrivial"] = mid >= 2 and (feats["cond"] or feats["mask_or_conf"] or feats["repeated_key"] or feats["qudit"] or feats["pauli_measure"])
    feats["sim"] = r["sim"]
    feats["entry"] = r["entry"]
    return feats


def oracle_distribution(r):
    if not any(o["k"] in ("m", "pm") for o in r["ops"]):
        raise Reject("no measurement")
    circuit, qs, ir, key_dims = MC.build(r, r["order"])
    order = [qs[i] for i in r["order"]]
    shape = [r["dims"][i] for i in r["order"]]
    ref = RI.run(ir, shape)
    want = RI.distribution(ref)
    if abs(sum(want.values()) - 1) > 1e-9:
        raise Reject("reference not normalised")
    entry, reps, simk = r["entry"], r["reps"], r["sim"]
    clifford = simk in ("clifford", "clifford_nosplit", "stab_sampler")
    if simk == "stab_sampler" and entry == "simulate":
        entry = "run"
    n_inst = {}
    for o in r["ops"]:
        if o["k"] in ("m", "pm"):
            n_inst[o["key"]] = n_inst.get(o["key"], 0) + 1

    if entry == "sample" and (any(v > 1 for v in n_inst.values()) or any(d != 2 for dd in key_dims.values() for d in dd)):
        # data frames are documented only for keys measured once per repetition, and as integers of *bits*
        entry = "run"

    def run(prng):
        sim = _make_sim(simk, prng)
        if entry == "run":
            return sim.run(circuit, repetitions=reps)
        if entry == "run_sweep":
            res = sim.run_sweep(circuit, params=cirq.UnitSweep, repetitions=reps)
            if len(res) != 1:
                raise Violation(f"run_sweep over the unit sweep returned {len(res)} results")
            return res[0]
        if entry == "sample":
            return sim.sample(circuit, repetitions=reps)
        if entry == "simulate":
            return sim.simulate(circuit, qubit_order=order)
        raise KeyError(entry)

    try:
        branches = enumerate_branches(run, max_branches=800, branch_vectors=2)
    except OverflowError:
        raise Reject("too many branches")
    tot = sum(p for p, *_ in branches)
    if abs(tot - 1) > 1e-6:
        raise Violation(f"{simk}.{entry}: branch probabilities logged by the simulator sum to {tot:.6g}")

    if entry in ("run", "run_sweep"):
        # joint table over `reps` repetitions must be the product of the single-repetition table
        got = {}
        for p, script, res, prng in branches:
            recs = res.records
            for k, cnt in n_inst.items():
                if k not in recs:
                    raise Violation(f"{simk}.{entry}: key {k!r} missing from Result.records")
                a = np.asarray(recs[k])
                if a.shape[:2] != (reps, cnt):
                    raise Violation(f"{simk}.{entry}: records[{k!r}].shape {a.shape} but {reps} repetitions x {cnt} instances were measured")
            if res.repetitions != reps:
                raise Violation(f"{simk}.{entry}: Result.repetitions {res.repetitions} != {reps}")
            kk = "##".join(_rec_key_from_records(recs, i) for i in range(reps))
            got[kk] = got.get(kk, 0.0) + p
        want_joint = {}
        for combo in itertools.product(sorted(want), repeat=reps):
            pr = 1.0
            for c in combo:
                pr *= want[c]
            want_joint["##".join(combo)] = pr
        _compare_tables(f"{simk}.{entry}(repetitions={reps})", got, want_joint)
    elif entry == "sample":
        got = {}
        for p, script, df, prng in branches:
            if len(df) != reps:
                raise Violation(f"{simk}.sample returned {len(df)} rows for {reps} repetitions")
            kk = "##".join(";".join(f"{k}={int(df[k][i])}" for k in sorted(n_inst)) for i in range(reps))
            got[kk] = got.get(kk, 0.0) + p
        single = {}
        for b in ref:
            kk = ";".join(f"{k}={L.digits_to_index(b.records[k][0], key_dims[k])}" for k in sorted(n_inst))
            single[kk] = single.get(kk, 0.0) + b.prob
        want_joint = {}
        for combo in itertools.product(sorted(single), repeat=reps):
            pr = 1.0
            for c in combo:
                pr *= single[c]
            want_joint["##".join(combo)] = pr
        _compare_tables(f"{simk}.sample(repetitions={reps})", got, want_joint)
    else:  # simulate: latest instance per key + final state per branch
        got = {}
        ref_by_last = {}
        for b in ref:
            kk = ";".join(f"{k}=" + "".join(str(d) for d in b.records[k][-1]) for k in sorted(b.records))
            ref_by_last.setdefault(kk, []).append(b)
        want_last = {kk: sum(b.prob for b in bs) for kk, bs in ref_by_last.items()}
        by_full = {}
        for p, script, res, prng in branches:
            kk = ";".join(f"{k}=" + "".join(str(int(d)) for d in res.measurements[k]) for k in sorted(res.measurements))
            got[kk] = got.get(kk, 0.0) + p
            by_full.setdefault(kk, []).append((p, res))
        _compare_tables(f"{simk}.simulate measurements", got, want_last)
        # final states: the probability-weighted mixture per visible outcome must agree
        D = L.dim(shape)
        for kk, lst in by_full.items():
            rho_got = np.zeros((D, D), dtype=complex)
            for p, res in lst:
                if simk.startswith("dm"):
                    rho_got += p * np.asarray(res.final_density_matrix)
                elif clifford:
                    v = np.asarray(res.final_state.state_vector()).reshape(-1)
                    rho_got += p * np.outer(v, v.conj())
                else:
                    v = np.asarray(res.final_state_vector).reshape(-1)
                    if abs(np.linalg.norm(v) - 1) > 1e-6:
                        raise Violation(f"{simk}.simulate: post-measurement state has norm {np.linalg.norm(v):.6g}")
                    rho_got += p * np.outer(v, v.conj())
            rho_want = sum(b.prob * b.rho for b in ref_by_last.get(kk, []))
            if L.max_abs_diff(rho_got, rho_want) > 1e-6:
                raise Violation(f"{simk}.simulate: final state for outcome [{kk}] differs from the collapsed state by {L.max_abs_diff(rho_got, rho_want):.3g}")
    return _labels(r, ref, want)


# ------------------------------------------------------------------------------- sampling never changes the state


@st.composite
def _sample_case(draw):
    r = draw(MC.meas_circuit_recipes(max_w=4, max_ops=8, qudits=draw(st.booleans()), conds=False, confusion=False))
    r["sim"] = draw(st.sampled_from(SIMS))
    n = len(r["dims"])
    r["pick"] = list(draw(st.permutations(list(range(n)))))[: draw(st.integers(1, n))]
    r["reps"] = draw(st.integers(1, 5))
    r["sel"] = draw(st.lists(st.integers(0, 63), min_size=5, max_size=5))
    return r


def oracle_sample_pure(r):
    """step.sample / sample_measurement_ops leave the state bit-identical and return rows that decode the drawn index."""
    circuit, qs, ir, key_dims = MC.build(r)
    unitary_part = cirq.Circuit(op for op in circuit.all_operations() if cirq.has_unitary(op))
    if len(unitary_part) == 0:
        raise Reject("empty")
    shape = list(r["dims"])
    ops = [(cirq.unitary(op), [qs.index(q) for q in op.qubits]) for op in unitary_part.all_operations()]
    psi = L.apply_ops_to_vector(ops, shape, L.basis_vector(0, L.dim(shape)))
    pick = [qs[i] for i in r["pick"]]
    pdims = [r["dims"][i] for i in r["pick"]]
    # marginal distribution over picked qubits in picked order (reference)
    t = (np.abs(psi) ** 2).reshape(shape)
    rest = tuple(i for i in range(len(shape)) if i not in r["pick"])
    marg = t.sum(axis=rest) if rest else t
    kept = [i for i in range(len(shape)) if i in r["pick"]]
    marg = np.transpose(marg, [kept.index(i) for i in r["pick"]]).reshape(-1)

    def vec(n, probs, cnt):
        sup = [i for i in range(n) if probs[i] > 1e-6] or [int(np.argmax(probs))]
        return [sup[s % len(sup)] for s in r["sel"][:cnt]]

    prng = ScriptedPRNG(vector_script=vec)
    sim = _make_sim(r["sim"], prng)
    step = None
    for step in sim.simulate_moment_steps(unitary_part, qubit_order=qs):
        pass
    dm = r["sim"].startswith("dm")
    before = np.array(step.density_matrix(copy=True) if dm else step.state_vector(copy=True))
    rows = step.sample(pick, repetitions=r["reps"], seed=prng)
    after = np.array(step.density_matrix(copy=True) if dm else step.state_vector(copy=True))
    if not np.array_equal(before, after):
        raise Violation(f"{r['sim']} step.sample changed the simulated state")
    rows = np.asarray(rows)
    if rows.shape != (r["reps"], len(pick)):
        raise Violation(f"step.sample returned shape {rows.shape}, expected {(r['reps'], len(pick))}")
    if not prng.vector_log:
        raise Reject("sampler did not use vector choice")
    for row in rows:
        idx = L.digits_to_index([int(x) for x in row], pdims)
        if marg[idx] < 1e-9:
            raise Violation(f"step.sample produced outcome {[int(x) for x in row]} on {r['pick']} which has probability {marg[idx]:.3g}")
    # exact decode: the product of the logged probabilities of the drawn indices (one vector draw per unentangled
    # factor) equals the Born probability of the returned row
    for rep, row in enumerate(rows):
        pr = 1.0
        for e in prng.vector_log:
            pr *= float(e["p"][e["idx"][rep]])
        idx = L.digits_to_index([int(x) for x in row], pdims)
        if abs(pr - marg[idx]) > 1e-6:
            raise Violation(f"step.sample row {[int(x) for x in row]} was drawn with probability {pr:.6g} but its Born probability is {marg[idx]:.6g}")
    # sample_measurement_ops with invert mask
    mops = [cirq.measure(*pick, key="zz", invert_mask=(True,) * 1 if all(d == 2 for d in pdims) else ())]
    prng2 = ScriptedPRNG(vector_script=vec)
    out = step.sample_measurement_ops(mops, repetitions=r["reps"], seed=prng2)
    after2 = np.array(step.density_matrix(copy=True) if dm else step.state_vector(copy=True))
    if not np.array_equal(before, after2):
        raise Violation(f"{r['sim']} step.sample_measurement_ops changed the simulated state")
    a = np.asarray(out["zz"])
    if a.shape != (r["reps"], len(pick)):
        raise Violation(f"sample_measurement_ops returned shape {a.shape}, documented (repetitions, qubits)")
    for rep in range(r["reps"]):
        row = [int(x) for x in a[rep]]
        if all(d == 2 for d in pdims):
            row[0] ^= 1
        idx = L.digits_to_index(row, pdims)
        pr = 1.0
        for e in prng2.vector_log:
            pr *= float(e["p"][e["idx"][rep]])
        if abs(pr - marg[idx]) > 1e-6:
            raise Violation("sample_measurement_ops row does not decode (after undoing the invert mask) to the drawn outcome")
    nz = int(np.sum(marg > 0.01))
    return {"nontrivial": nz >= 2 and len(pick) >= 2 and r["pick"] != sorted(r["pick"]), "dm": dm, "qudit": any(d != 2 for d in shape)}


SUBCHECKS = [
    SubCheck("distribution", _case(max_w=4, max_ops=9, max_branches=32), oracle_distribution, quick=3000, thorough=24000, shards_quick=8,
             essential={"cond": 0.15, "repeated_key": 0.05}),
    SubCheck("distribution_qudit", _case(max_w=3, max_ops=8, qudits=True), oracle_distribution, quick=400, thorough=5000, shards_quick=2),
    SubCheck("distribution_clifford", _case(sims=["clifford", "clifford_nosplit", "stab_sampler"], max_w=4, max_ops=9, clifford=True, max_branches=16),
             oracle_distribution, quick=480, thorough=4000, shards_quick=8),
    SubCheck("distribution_tableau", _case(sims=["stab_sampler"], max_w=4, max_ops=12, clifford=True, confusion=False, max_branches=16),
             oracle_distribution, quick=500, thorough=4000, shards_quick=4),
    SubCheck("sampling_is_pure", _sample_case(), oracle_sample_pure, quick=600, thorough=8000, shards_quick=2),
]
