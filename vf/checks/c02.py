"""C02 — measurement outcomes follow the Born rule exactly, including feed-forward."""
from __future__ import annotations

import itertools

import numpy as np
from hypothesis import strategies as st

import cirq
from vf.core import Reject, SubCheck, Violation
from vf.gen import gates as G
from vf.gen import meas_circuits as MC
from vf.prng import ScriptedPRNG, enumerate_branches
from vf.ref import interp as RI
from vf.ref import linalg as L

RULE = (
    "Hypothesis draws circuits with unitary gates, measurements (repeated keys, multi-qubit keys, invert masks shorter "
    "or equal to the qubit count, 1-/2-qubit confusion maps, qudits), resets and classically controlled gates "
    "(KeyCondition with index, SympyCondition ==, >, indexed bits, xor; BitMaskKeyCondition), a simulator (state-vector / "
    "density-matrix, split on/off, Clifford simulator / StabilizerSampler on the Clifford sub-grammar), an entry point (run, "
    "simulate, sample, run_sweep) and repetitions in {0,1,2,3}. The simulator is driven by a ScriptedPRNG passed as `seed`, "
    "every outcome branch is enumerated and its exact probability is the product of the logged probability vectors; the "
    "resulting table records->probability (and per-branch final state) must equal the table of the independent numpy "
    "interpreter. Non-trivial: >=2 branches with probability in (0.01,0.99) and at least one of: classical control whose "
    "truth differs across branches, multi-qubit key with mask/confusion, repeated key, qudit. Distinct = recipe hash."
)
ASSUMPTIONS = [
    "per-gate matrices come from cirq.unitary(gate) (C03/C04); measurement, collapse, masks, confusion, key bookkeeping and "
    "conditions are recomputed by vf.ref.interp from the recipe",
    "a simulator's `seed` may be any object with the RandomState methods it uses (documented: cirq.RANDOM_STATE_OR_SEED_LIKE)",
    "probabilities compared at 1e-6 (complex128 simulators) with identical support above 1e-9",
]

SIMS = ["sv", "sv_nosplit", "dm", "dm_nosplit"]


def _make_sim(kind, prng, clifford=False):
    if kind == "sv":
        return cirq.Simulator(seed=prng, dtype=np.complex128, split_untangled_states=True)
    if kind == "sv_nosplit":
        return cirq.Simulator(seed=prng, dtype=np.complex128, split_untangled_states=False)
    if kind == "dm":
        return cirq.DensityMatrixSimulator(seed=prng, dtype=np.complex128, split_untangled_states=True)
    if kind == "dm_nosplit":
        return cirq.DensityMatrixSimulator(seed=prng, dtype=np.complex128, split_untangled_states=False)
    if kind == "clifford":
        return cirq.CliffordSimulator(seed=prng)
    if kind == "clifford_nosplit":
        return cirq.CliffordSimulator(seed=prng, split_untangled_states=False)
    if kind == "stab_sampler":
        return cirq.StabilizerSampler(seed=prng)
    raise KeyError(kind)


@st.composite
def _case(draw, sims=SIMS, **kw):
    r = draw(MC.meas_circuit_recipes(**kw))
    if not any(o["k"] in ("m", "pm") for o in r["ops"]):
        n0 = len(r["dims"])
        w = list(draw(st.permutations(list(range(n0)))))[: draw(st.integers(1, min(3, n0)))]
        r["ops"].append({"k": "m", "key": "a", "w": w, "inv": [], "conf": None})
    if draw(st.integers(0, 3)) > 0:
        # make every (conditional) gate observable: terminal measurement of the wires that gates acted on last
        n0 = len(r["dims"])
        touched = []
        for o in r["ops"]:
            if o["k"] in ("g", "cg"):
                touched = [w for w in touched if w not in o["w"]] + list(o["w"])
            elif o["k"] == "m":
                touched = [w for w in touched if w not in o["w"]]
            elif o["k"] == "pm":  # the post-measurement state of an observable measurement is worth observing too
                touched = [w for w in touched if w not in o["w"]] + list(o["w"])
        fin = touched[-3:]
        size = 1
        for w in fin:
            size *= r["dims"][w]
        if fin and size <= 12:
            r["ops"].append({"k": "m", "key": "zfin", "w": fin, "inv": [], "conf": None})
    r["sim"] = draw(st.sampled_from(sims))
    r["entry"] = draw(st.sampled_from(["run", "run", "simulate", "sample", "run_sweep"]))
    r["reps"] = draw(st.sampled_from([1, 1, 1, 1, 1, 1, 2, 2, 3, 0]))
    est = 1
    for o in r["ops"]:
        if o["k"] == "m":
            for w in o["w"]:
                est *= r["dims"][w]
            if o.get("conf"):
                est *= 2 ** len(o["conf"][0])
        elif o["k"] == "pm":
            est *= 2
    if est > 24 and r["reps"] > 1:
        r["reps"] = 1  # two repetitions square the number of outcome branches
    if est > 6 and r["reps"] > 2:
        r["reps"] = 2
    r["est_branches"] = est
    n = len(r["dims"])
    r["order"] = list(draw(st.permutations(list(range(n)))))
    return r


def _rec_key_from_records(records, rep):
    """canonical key of repetition ``rep`` of a cirq Result.records dict."""
    out = {}
    for k, arr in records.items():
        arr = np.asarray(arr)
        if arr.ndim != 3:
            raise Violation(f"Result.records[{k!r}] has ndim {arr.ndim}, documented shape is (repetitions, instances, qubits)")
        out[k] = tuple(tuple(int(x) for x in inst) for inst in arr[rep])
    return RI.records_key(out)


def _compare_tables(what, got, want, tol=1e-6):
    keys = set(got) | set(want)
    for k in sorted(keys):
        g, w = got.get(k, 0.0), want.get(k, 0.0)
        if abs(g - w) > tol:
            raise Violation(f"{what}: P[{k}] = {g:.6g} but quantum mechanics gives {w:.6g}")


def _labels(r, ref_branches, want):
    mid = sum(1 for p in want.values() if 0.01 < p < 0.99)
    keys = [o["key"] for o in r["ops"] if o["k"] in ("m", "pm")]
    feats = {
        "cond": any(o["k"] == "cg" for o in r["ops"]),
        "mask_or_conf": any(o["k"] == "m" and len(o["w"]) > 1 and (any(o.get("inv") or []) or o.get("conf")) for o in r["ops"]),
        "repeated_key": len(keys) != len(set(keys)),
        "qudit": any(d != 2 for d in r["dims"]),
        "terminal_only": MC.is_terminal_only(r),
        "reset": any(o["k"] == "r" for o in r["ops"]),
        "pauli_measure": any(o["k"] == "pm" for o in r["ops"]),
    }
    feats["nontrivial"] = mid >= 2 and (feats["cond"] or feats["mask_or_conf"] or feats["repeated_key"] or feats["qudit"] or feats["pauli_measure"])
    feats["sim"] = r["sim"]
    feats["entry"] = r["entry"]
    return feats


def oracle_distribution(r):
    if not any(o["k"] in ("m", "pm") for o in r["ops"]):
        raise Reject("no measurement")
    circuit, qs, ir, key_dims = MC.build(r, r["order"])
    order = [qs[i] for i in r["order"]]
    shape = [r["dims"][i] for i in r["order"]]
    ref = RI.run(ir, shape)
    want = RI.distribution(ref)
    if abs(sum(want.values()) - 1) > 1e-9:
        raise Reject("reference not normalised")
    entry, reps, simk = r["entry"], r["reps"], r["sim"]
    clifford = simk in ("clifford", "clifford_nosplit", "stab_sampler")
    if simk == "stab_sampler" and entry == "simulate":
        entry = "run"
    n_inst = {}
    for o in r["ops"]:
        if o["k"] in ("m", "pm"):
            n_inst[o["key"]] = n_inst.get(o["key"], 0) + 1

    if entry == "sample" and (any(v > 1 for v in n_inst.values()) or any(d != 2 for dd in key_dims.values() for d in dd)):
        # data frames are documented only for keys measured once per repetition, and as integers of *bits*
        entry = "run"

    def run(prng):
        sim = _make_sim(simk, prng)
        if entry == "run":
            return sim.run(circuit, repetitions=reps)
        if entry == "run_sweep":
            res = sim.run_sweep(circuit, params=cirq.UnitSweep, repetitions=reps)
            if len(res) != 1:
                raise Violation(f"run_sweep over the unit sweep returned {len(res)} results")
            return res[0]
        if entry == "sample":
            return sim.sample(circuit, repetitions=reps)
        if entry == "simulate":
            return sim.simulate(circuit, qubit_order=order)
        raise KeyError(entry)

    try:
        branches = enumerate_branches(run, max_branches=800, branch_vectors=3)
    except OverflowError:
        raise Reject("too many branches")
    tot = sum(p for p, *_ in branches)
    if abs(tot - 1) > 1e-6:
        raise Violation(f"{simk}.{entry}: branch probabilities logged by the simulator sum to {tot:.6g}")

    if entry in ("run", "run_sweep"):
        # joint table over `reps` repetitions must be the product of the single-repetition table
        got = {}
        for p, script, res, prng in branches:
            recs = res.records
            for k, cnt in n_inst.items():
                if k not in recs:
                    raise Violation(f"{simk}.{entry}: key {k!r} missing from Result.records")
                a = np.asarray(recs[k])
                if a.shape[:2] != (reps, cnt):
                    raise Violation(f"{simk}.{entry}: records[{k!r}].shape {a.shape} but {reps} repetitions x {cnt} instances were measured")
            if res.repetitions != reps:
                raise Violation(f"{simk}.{entry}: Result.repetitions {res.repetitions} != {reps}")
            kk = "##".join(_rec_key_from_records(recs, i) for i in range(reps))
            got[kk] = got.get(kk, 0.0) + p
        want_joint = {}
        for combo in itertools.product(sorted(want), repeat=reps):
            pr = 1.0
            for c in combo:
                pr *= want[c]
            want_joint["##".join(combo)] = pr
        _compare_tables(f"{simk}.{entry}(repetitions={reps})", got, want_joint)
    elif entry == "sample":
        got = {}
        for p, script, df, prng in branches:
            if len(df) != reps:
                raise Violation(f"{simk}.sample returned {len(df)} rows for {reps} repetitions")
            kk = "##".join(";".join(f"{k}={int(df[k][i])}" for k in sorted(n_inst)) for i in range(reps))
            got[kk] = got.get(kk, 0.0) + p
        single = {}
        for b in ref:
            kk = ";".join(f"{k}={L.digits_to_index(b.records[k][0], key_dims[k])}" for k in sorted(n_inst))
            single[kk] = single.get(kk, 0.0) + b.prob
        want_joint = {}
        for combo in itertools.product(sorted(single), repeat=reps):
            pr = 1.0
            for c in combo:
                pr *= single[c]
            want_joint["##".join(combo)] = pr
        _compare_tables(f"{simk}.sample(repetitions={reps})", got, want_joint)
    else:  # simulate: latest instance per key + final state per branch
        got = {}
        ref_by_last = {}
        for b in ref:
            kk = ";".join(f"{k}=" + "".join(str(d) for d in b.records[k][-1]) for k in sorted(b.records))
            ref_by_last.setdefault(kk, []).append(b)
        want_last = {kk: sum(b.prob for b in bs) for kk, bs in ref_by_last.items()}
        by_full = {}
        for p, script, res, prng in branches:
            kk = ";".join(f"{k}=" + "".join(str(int(d)) for d in res.measurements[k]) for k in sorted(res.measurements))
            got[kk] = got.get(kk, 0.0) + p
            by_full.setdefault(kk, []).append((p, res))
        _compare_tables(f"{simk}.simulate measurements", got, want_last)
        # final states: the probability-weighted mixture per visible outcome must agree
        D = L.dim(shape)
        for kk, lst in by_full.items():
            rho_got = np.zeros((D, D), dtype=complex)
            for p, res in lst:
                if simk.startswith("dm"):
                    rho_got += p * np.asarray(res.final_density_matrix)
                elif clifford:
                    v = np.asarray(res.final_state.state_vector()).reshape(-1)
                    rho_got += p * np.outer(v, v.conj())
                else:
                    v = np.asarray(res.final_state_vector).reshape(-1)
                    if abs(np.linalg.norm(v) - 1) > 1e-6:
                        raise Violation(f"{simk}.simulate: post-measurement state has norm {np.linalg.norm(v):.6g}")
                    rho_got += p * np.outer(v, v.conj())
            rho_want = sum(b.prob * b.rho for b in ref_by_last.get(kk, []))
            if L.max_abs_diff(rho_got, rho_want) > 1e-6:
                raise Violation(f"{simk}.simulate: final state for outcome [{kk}] differs from the collapsed state by {L.max_abs_diff(rho_got, rho_want):.3g}")
    return _labels(r, ref, want)


# ------------------------------------------------------------------------------- sampling never changes the state


@st.composite
def _sample_case(draw):
    r = draw(MC.meas_circuit_recipes(max_w=4, max_ops=8, qudits=draw(st.booleans()), conds=False, confusion=False))
    r["sim"] = draw(st.sampled_from(SIMS))
    n = len(r["dims"])
    r["pick"] = list(draw(st.permutations(list(range(n)))))[: draw(st.integers(1, n))]
    r["reps"] = draw(st.integers(1, 5))
    r["sel"] = draw(st.lists(st.integers(0, 63), min_size=5, max_size=5))
    return r


def oracle_sample_pure(r):
    """step.sample / sample_measurement_ops leave the state bit-identical and return rows that decode the drawn index."""
    circuit, qs, ir, key_dims = MC.build(r)
    unitary_part = cirq.Circuit(op for op in circuit.all_operations() if cirq.has_unitary(op))
    if len(unitary_part) == 0:
        raise Reject("empty")
    shape = list(r["dims"])
    ops = [(cirq.unitary(op), [qs.index(q) for q in op.qubits]) for op in unitary_part.all_operations()]
    psi = L.apply_ops_to_vector(ops, shape, L.basis_vector(0, L.dim(shape)))
    pick = [qs[i] for i in r["pick"]]
    pdims = [r["dims"][i] for i in r["pick"]]
    # marginal distribution over picked qubits in picked order (reference)
    t = (np.abs(psi) ** 2).reshape(shape)
    rest = tuple(i for i in range(len(shape)) if i not in r["pick"])
    marg = t.sum(axis=rest) if rest else t
    kept = [i for i in range(len(shape)) if i in r["pick"]]
    marg = np.transpose(marg, [kept.index(i) for i in r["pick"]]).reshape(-1)

    def vec(n, probs, cnt):
        sup = [i for i in range(n) if probs[i] > 1e-6] or [int(np.argmax(probs))]
        return [sup[s % len(sup)] for s in r["sel"][:cnt]]

    prng = ScriptedPRNG(vector_script=vec)
    sim = _make_sim(r["sim"], prng)
    step = None
    for step in sim.simulate_moment_steps(unitary_part, qubit_order=qs):
        pass
    dm = r["sim"].startswith("dm")
    before = np.array(step.density_matrix(copy=True) if dm else step.state_vector(copy=True))
    rows = step.sample(pick, repetitions=r["reps"], seed=prng)
    after = np.array(step.density_matrix(copy=True) if dm else step.state_vector(copy=True))
    if not np.array_equal(before, after):
        raise Violation(f"{r['sim']} step.sample changed the simulated state")
    rows = np.asarray(rows)
    if rows.shape != (r["reps"], len(pick)):
        raise Violation(f"step.sample returned shape {rows.shape}, expected {(r['reps'], len(pick))}")
    if not prng.vector_log:
        raise Reject("sampler did not use vector choice")
    for row in rows:
        idx = L.digits_to_index([int(x) for x in row], pdims)
        if marg[idx] < 1e-9:
            raise Violation(f"step.sample produced outcome {[int(x) for x in row]} on {r['pick']} which has probability {marg[idx]:.3g}")
    # exact decode: the product of the logged probabilities of the drawn indices (one vector draw per unentangled
    # factor) equals the Born probability of the returned row
    for rep, row in enumerate(rows):
        pr = 1.0
        for e in prng.vector_log:
            pr *= float(e["p"][e["idx"][rep]])
        idx = L.digits_to_index([int(x) for x in row], pdims)
        if abs(pr - marg[idx]) > 1e-6:
            raise Violation(f"step.sample row {[int(x) for x in row]} was drawn with probability {pr:.6g} but its Born probability is {marg[idx]:.6g}")
    # sample_measurement_ops with invert mask
    mops = [cirq.measure(*pick, key="zz", invert_mask=(True,) * 1 if all(d == 2 for d in pdims) else ())]
    prng2 = ScriptedPRNG(vector_script=vec)
    out = step.sample_measurement_ops(mops, repetitions=r["reps"], seed=prng2)
    after2 = np.array(step.density_matrix(copy=True) if dm else step.state_vector(copy=True))
    if not np.array_equal(before, after2):
        raise Violation(f"{r['sim']} step.sample_measurement_ops changed the simulated state")
    a = np.asarray(out["zz"])
    if a.shape != (r["reps"], len(pick)):
        raise Violation(f"sample_measurement_ops returned shape {a.shape}, documented (repetitions, qubits)")
    for rep in range(r["reps"]):
        row = [int(x) for x in a[rep]]
        if all(d == 2 for d in pdims):
            row[0] ^= 1
        idx = L.digits_to_index(row, pdims)
        pr = 1.0
        for e in prng2.vector_log:
            pr *= float(e["p"][e["idx"][rep]])
        if abs(pr - marg[idx]) > 1e-6:
            raise Violation("sample_measurement_ops row does not decode (after undoing the invert mask) to the drawn outcome")
    nz = int(np.sum(marg > 0.01))
    return {"nontrivial": nz >= 2 and len(pick) >= 2 and r["pick"] != sorted(r["pick"]), "dm": dm, "qudit": any(d != 2 for d in shape)}


# ------------------------------------------------------------------------------- the public measure / sample functions


@st.composite
def _fn_case(draw):
    n = draw(st.integers(1, 4))
    qud = draw(st.integers(0, 2)) == 0
    dims = draw(st.lists(st.sampled_from([2, 2, 3] if qud else [2]), min_size=n, max_size=n))
    while L.dim(dims) > 36:
        dims = dims[:-1]
    n = len(dims)
    D = L.dim(dims)
    k = draw(st.integers(0, n))
    fn = draw(st.sampled_from(["measure_sv", "measure_sv", "sample_sv", "measure_dm", "measure_dm", "sample_dm"]))
    # sampling repeatedly multiplies the branches: few non-zero amplitudes there; measuring takes dense states too
    nnz = draw(st.integers(1, 3)) if fn.startswith("sample") else draw(st.sampled_from([1, 2, 3, D, D]))
    return {"dims": dims, "idx": list(draw(st.permutations(list(range(n)))))[:k], "fn": fn,
            "form": draw(st.sampled_from(["flat", "tensor"])), "out": draw(st.sampled_from(["none", "fresh", "same"])),
            "c64": draw(st.booleans()), "reps": draw(st.integers(0, 3)), "pass_shape": draw(st.booleans()),
            "v": draw(st.lists(G.small_floats(), min_size=2 * D, max_size=2 * D)),
            "v2": draw(st.lists(G.small_floats(), min_size=2 * D, max_size=2 * D)),
            "w": draw(st.sampled_from([1.0, 0.5, 0.25, 0.9])),
            "keep": sorted(draw(st.permutations(list(range(D))))[: max(1, min(nnz, D))])}


def _sparse_state(vals, D, keep):
    psi = L.state_from_floats(vals, D)
    m = np.zeros(D)
    m[list(keep)] = 1
    psi = psi * m
    if np.linalg.norm(psi) < 1e-6:
        psi = np.zeros(D, dtype=complex)
        psi[keep[0]] = 1
    return psi / np.linalg.norm(psi)


def oracle_functions(r):
    """cirq.measure_state_vector / sample_state_vector / measure_density_matrix / sample_density_matrix called directly: exact
    outcome probabilities (logged by the scripted PRNG), post-measurement state = projected and renormalised input, documented
    `out` aliasing, shape/dtype, purity of sampling."""
    dims = list(r["dims"])
    D = L.dim(dims)
    idx = [i for i in r["idx"] if i < len(dims)]
    is_dm = r["fn"].endswith("dm")
    dt = np.complex64 if r["c64"] else np.complex128
    ptol, stol = (2e-5, 2e-5) if r["c64"] else (1e-9, 1e-8)
    keep = [k for k in r["keep"] if k < D] or [0]
    psi = _sparse_state(r["v"], D, keep)
    rho = np.outer(psi, psi.conj())
    if is_dm and r["w"] < 1:
        psi2 = _sparse_state(r["v2"], D, keep[::-1] if len(keep) > 1 else [(keep[0] + 1) % D])
        rho = r["w"] * rho + (1 - r["w"]) * np.outer(psi2, psi2.conj())
    arr0 = (rho if is_dm else psi).astype(dt)
    if r["form"] == "tensor":
        arr0 = arr0.reshape(dims * 2 if is_dm else dims)
    kw = {}
    if any(d != 2 for d in dims) or r["pass_shape"]:
        kw["qid_shape"] = tuple(dims)
    # reference marginal and projectors from the rounded input actually handed over
    ref_rho = np.asarray(arr0, dtype=np.complex128).reshape(D, D) if is_dm else None
    ref_psi = None if is_dm else np.asarray(arr0, dtype=np.complex128).reshape(D)
    diag = np.real(np.diag(ref_rho)) if is_dm else np.abs(ref_psi) ** 2
    mdims = [dims[i] for i in idx]
    marg, members = {}, {}
    for b in range(D):
        digs = L.index_to_digits(b, dims)
        key = tuple(int(digs[i]) for i in idx)
        marg[key] = marg.get(key, 0.0) + float(diag[b])
        members.setdefault(key, []).append(b)
    name = {"measure_sv": "measure_state_vector", "sample_sv": "sample_state_vector", "measure_dm": "measure_density_matrix",
            "sample_dm": "sample_density_matrix"}[r["fn"]]
    f = getattr(cirq, name)
    if r["fn"].startswith("measure"):
        def run(prng):
            a = arr0.copy()
            out = None if r["out"] == "none" else (a if r["out"] == "same" else np.zeros_like(a))
            bits, res = f(a, idx, out=out, seed=prng, **kw)
            return bits, res, a, out

        try:
            branches = enumerate_branches(run, max_branches=64)
        except OverflowError:
            raise Reject("too many branches")
        seen = {}
        for p, script, (bits, res, a, out), prng in branches:
            key = tuple(int(b) for b in bits)
            if len(key) != len(idx) or any(not 0 <= x < d for x, d in zip(key, mdims)):
                raise Violation(f"cirq.{name}: returned digits {list(bits)} for indices {idx} of qid shape {dims}")
            seen[key] = seen.get(key, 0.0) + p
            if abs(p - marg[key]) > ptol:
                raise Violation(f"cirq.{name}: outcome {list(key)} on indices {idx} drawn with probability {p:.8g}, Born rule gives {marg[key]:.8g}")
            P = np.zeros(D)
            P[members[key]] = 1
            if is_dm:
                want = (P[:, None] * ref_rho * P[None, :]) / marg[key]
            else:
                want = P * ref_psi / np.sqrt(marg[key])
            got = np.asarray(res)
            if got.shape != arr0.shape or got.dtype != arr0.dtype:
                raise Violation(f"cirq.{name}: result has shape/dtype {got.shape}/{got.dtype}, documented: those of the input {arr0.shape}/{arr0.dtype}")
            e = L.max_abs_diff(np.asarray(got, dtype=np.complex128).reshape(want.shape), want)
            if e > stol:
                raise Violation(f"cirq.{name}: post-measurement state for outcome {list(key)} on indices {idx} differs from the projected, renormalised input by {e:.3g}")
            if r["out"] == "same":
                if res is not a:
                    raise Violation(f"cirq.{name}(out=state) did not return the state object it was told to modify in place")
            else:
                if not np.array_equal(a, arr0):
                    raise Violation(f"cirq.{name} modified its input although out is not the input")
                if r["out"] == "fresh" and res is not out:
                    raise Violation(f"cirq.{name}(out=buffer) returned a different array than `out`")
        if abs(sum(seen.values()) - 1) > 1e-6 + ptol * len(seen):
            raise Violation(f"cirq.{name}: branch probabilities sum to {sum(seen.values()):.8g}")
        lab_branches = len(seen)
    else:
        reps = r["reps"]

        def run(prng):
            a = arr0.copy()
            return f(a, idx, repetitions=reps, seed=prng, **kw), a

        try:
            branches = enumerate_branches(run, max_branches=600, branch_vectors=3)
        except OverflowError:
            raise Reject("too many branches")
        got = {}
        for p, script, (rows, a), prng in branches:
            rows = np.asarray(rows)
            if rows.shape != (reps, len(idx)):
                raise Violation(f"cirq.{name}: returned shape {rows.shape}, documented (repetitions, indices) = {(reps, len(idx))}")
            if not np.array_equal(a, arr0):
                raise Violation(f"cirq.{name} modified the state it samples from")
            kk = tuple(tuple(int(x) for x in row) for row in rows)
            got[kk] = got.get(kk, 0.0) + p
        want = {}
        single = {k: v for k, v in marg.items() if v > 1e-12}
        if len(idx) == 0 or reps == 0:
            want = {tuple(() for _ in range(reps)) if len(idx) == 0 else (): 1.0}
        else:
            for combo in itertools.product(sorted(single), repeat=reps):
                pr = 1.0
                for c in combo:
                    pr *= single[c]
                want[tuple(combo)] = pr
        for kk in set(got) | set(want):
            if abs(got.get(kk, 0.0) - want.get(kk, 0.0)) > ptol * 10 + 1e-9:
                raise Violation(f"cirq.{name}(repetitions={reps}): rows {kk} on indices {idx} have probability {got.get(kk, 0.0):.8g}, Born rule gives {want.get(kk, 0.0):.8g}")
        lab_branches = len(got)
    return {"nontrivial": lab_branches >= 2 and len(idx) >= 1 and (idx != sorted(idx) or len(idx) < len(dims)), "fn": r["fn"],
            "qudit": any(d != 2 for d in dims), "out": r["out"], "tensor_form": r["form"] == "tensor", "c64": r["c64"],
            "permuted_indices": idx != sorted(idx)}


SUBCHECKS = [
    SubCheck("distribution", _case(max_w=4, max_ops=9, max_branches=32), oracle_distribution, valid=MC.valid_recipe, quick=3000, thorough=24000, shards_quick=8,
             essential={"cond": 0.15, "repeated_key": 0.05}),
    SubCheck("distribution_qudit", _case(max_w=3, max_ops=8, qudits=True), oracle_distribution, valid=MC.valid_recipe, quick=400, thorough=5000, shards_quick=2),
    SubCheck("distribution_clifford", _case(sims=["clifford", "clifford_nosplit", "stab_sampler"], max_w=4, max_ops=9, clifford=True, max_branches=16),
             oracle_distribution, valid=MC.valid_recipe, quick=480, thorough=4000, shards_quick=8),
    SubCheck("distribution_tableau", _case(sims=["stab_sampler"], max_w=4, max_ops=12, clifford=True, confusion=False, max_branches=16),
             oracle_distribution, valid=MC.valid_recipe, quick=500, thorough=4000, shards_quick=4),
    SubCheck("sampling_is_pure", _sample_case(), oracle_sample_pure, valid=MC.valid_recipe, quick=600, thorough=8000, shards_quick=2),
    SubCheck("measure_functions", _fn_case(), oracle_functions, quick=1500, thorough=30000, shards_quick=2, frozen_keys=("dims",)),
]
