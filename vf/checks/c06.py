"""C06 — circuit transformers preserve what the circuit computes."""
from __future__ import annotations

import inspect

import numpy as np
from hypothesis import strategies as st

import cirq
import cirq_google
from vf.core import Reject, SubCheck, Violation
from vf.gen import c06_circuits as G6
from vf.gen import c06_harness as H
from vf.gen import c06_rows as R
from vf.gen import gates as G
from vf.ref import c06_ir as IR
from vf.ref import linalg as L

RULE = (
    "Hypothesis draws a transformer row from the option table (every export of cirq.transformers / gauge_compiling / "
    "cirq_google.transformers found by introspection; rows without options are listed by uncovered()), its options "
    "(tags_to_ignore on/off, deep, frozen input, atol, categories, schemas, k, rewriters, harness-supplied merge/map functions, "
    "prng seed) and a circuit from grammar G6 (unitary gate table with special+continuous parameters, transformer-specific "
    "boosted gates, insert strategies, empty moments, tags incl. the ignore tag, measurements with invert masks / confusion maps / "
    "repeated keys, Key/BitMask/Sympy classical control, channels, CircuitOperations nested <= 2 with repetitions, qubit "
    "permutations and key maps, symbols where supported). Oracle: unitary(out) == unitary(in) up to global phase by an independent "
    "numpy product on in's wire order (class 1), else equality of the full instrument {records -> unnormalised conditional state} "
    "from |0..0> and from a generic input state via vf.ref.interp on an IR read from public attributes (class 2; passes documented "
    "to keep only the measured statistics: probabilities only), plus always: input not modified, ignore-tagged operations present "
    "unchanged, sub-circuits untouched unless deep, no new qubits. Non-trivial: out != in structurally and (class 1) >= 2 "
    "non-commuting operations / (class 2) >= 2 distinct record outcomes. Distinct = distinct recipe hash."
)
ASSUMPTIONS = [
    "cirq.unitary(op)/cirq.kraus(op) are taken as the meaning of a single primitive operation (C03/C04/C09 decide those); "
    "composition, ordering, sub-circuit flattening, measurement/feed-forward semantics are recomputed independently",
    "cirq.resolve_parameters is trusted for resolving drawn symbol values before comparing (C10)",
    "tolerance: 1e-6 + 2e-7*#ops (+16*atol*#ops for passes that are approximate by contract; +2e-5*#ops for insertion_sort, whose "
    "swap criterion cirq.commutes compares matrices with numpy's rtol=1e-5)",
    "a generic input state (deterministic function of a drawn integer) plus |0..0> stand in for full channel equality",
]
def _mutant_names():
    import json
    import os

    path = os.path.join(os.path.dirname(os.path.dirname(os.path.dirname(os.path.abspath(__file__)))), "mutants", "c06.json")
    try:
        with open(path) as fh:
            return [m["name"] for m in json.load(fh)]
    except (OSError, ValueError):
        return []


SENSITIVITY = _mutant_names()  # kept in sync with mutants/c06.json by construction

BASE_TOL = 1e-6
SPECIAL_COVERS = []


# ------------------------------------------------------------------------------------------- strategies


def _rows_for(kind):
    out = []
    for r in R.ROWS.values():
        if getattr(r, kind) is not None:
            out += [r.name] * r.weight
    return out


@st.composite
def _case(draw, kind):
    name = draw(st.sampled_from(_rows_for(kind)))
    row = R.ROWS[name]
    cfg = getattr(row, kind)
    c = draw(G6.circuits6(cfg))
    o = {"deep": row.deep and draw(st.integers(0, 4)) < 2, "ign": row.tags and draw(st.integers(0, 5)) < row.ign_p,
         "frozen": draw(st.integers(0, 3)) == 0, "x": draw(row.opts) if row.opts is not None else {},
         "psi": draw(st.integers(0, 10 ** 6))}
    return {"row": name, "c": c, "o": o}


# ------------------------------------------------------------------------------------------- oracle pieces


def _tol(row, o, n):
    t = BASE_TOL + 2e-7 * n
    if row.tol is not None:
        t += row.tol(o, n)
    return t


def _resolve(c, recipe_c):
    if cirq.is_parameterized(c):
        return cirq.resolve_parameters(c, G6.resolver_of(recipe_c))
    return c


def _noncommuting(ir, shape):
    us = [e for e in ir if e["t"] == "u"][:8]
    if L.dim(shape) > 64:
        return False
    mats = [L.embed(e["m"], e["ax"], shape) for e in us]
    for i in range(len(mats)):
        for j in range(i + 1, len(mats)):
            if not np.allclose(mats[i] @ mats[j], mats[j] @ mats[i], atol=1e-9):
                return True
    return False


def semantic_compare(what, cin, cout, order, recipe_c, tol, psi_seed, dist_only=False, extra_order=(), forget=False, resolver=None,
                     resolver_out=None):
    """Raises Violation if ``cout`` does not compute what ``cin`` computes.  Returns labels."""
    if resolver is None:
        cin_r, cout_r = _resolve(cin, recipe_c), _resolve(cout, recipe_c)
    else:
        cin_r = cirq.resolve_parameters(cin, resolver)
        cout_r = cirq.resolve_parameters(cout, resolver_out if resolver_out is not None else resolver)
    if cirq.is_parameterized(cin_r):
        raise Reject("input keeps unresolved symbols")
    if cirq.is_parameterized(cout_r):
        raise Violation(f"{what}: output has symbols {sorted(cirq.parameter_names(cout_r))[:3]} that the input did not have")
    full = list(order) + list(extra_order)
    try:
        ir_in = IR.to_ir(cin_r, order)
    except IR.Unsupported as e:
        raise Reject(f"reference cannot express input: {e}")
    ir_out = IR.to_ir(cout_r, full)
    return compare_ir(what, ir_in, ir_out, [q.dimension for q in order], [q.dimension for q in full], tol, psi_seed, dist_only, forget)


def compare_ir(what, ir_in, ir_out, shape_in, shape, tol, psi_seed, dist_only=False, forget=False):
    lab = {"class": 1 if IR.is_unitary_ir(ir_in) else 2}
    same_space = len(shape) == len(shape_in)
    if IR.is_unitary_ir(ir_in) and IR.is_unitary_ir(ir_out) and same_space and not dist_only:
        u_in, u_out = IR.ir_unitary(ir_in, shape), IR.ir_unitary(ir_out, shape)
        d = L.diff_up_to_phase(u_out, u_in)
        if not d <= tol:
            raise Violation(f"{what}: unitary of the output differs from the input's (up to global phase) by {d:.3g} (tol {tol:.1g})")
        lab["noncommuting"] = _noncommuting(ir_in, shape)
        lab["outcomes"] = 1
        return lab
    D_in = L.dim(shape_in)
    n_extra = L.dim(shape) // D_in
    keep = list(range(len(shape_in)))
    outcomes = 1
    for which in ("zero", "generic"):
        psi = L.basis_vector(0, D_in) if which == "zero" else H.generic_state(psi_seed, D_in)
        psi_full = np.kron(psi, L.basis_vector(0, n_extra)) if n_extra > 1 else psi
        try:
            b = IR.instrument(ir_in, shape_in, psi0=psi, forget=forget)
        except OverflowError:
            raise Reject("too many measurement branches for the reference")
        try:
            a = IR.instrument(ir_out, shape, psi0=psi_full, keep=keep, forget=forget)
        except OverflowError:
            raise Reject("too many measurement branches for the reference")
        except (KeyError, IndexError) as e:
            # the input evaluated fine, so this is the output reading a measurement record that does not exist (yet)
            raise Violation(f"{what}: the output reads measurement key {e} before (or without) it being measured")
        msg = IR.compare_instruments(a, b, tol, states=not dist_only)
        if msg:
            raise Violation(f"{what}: from the {which} input state: {msg}")
        outcomes = max(outcomes, len(b))
    lab["outcomes"] = min(outcomes, 4)
    lab["noncommuting"] = _noncommuting(ir_in, shape_in)
    return lab


def structure_checks(row, o, cin, pristine, cout, given):
    what = row.name
    # 1. the argument is unchanged
    if H.moments_of(given) != H.moments_of(pristine) or type(given) is not (cirq.FrozenCircuit if o.get("frozen") else cirq.Circuit):
        raise Violation(f"{what}: the input circuit was modified by the transformer")
    if not isinstance(cout, cirq.AbstractCircuit):
        raise Violation(f"{what}: returned {type(cout).__name__}, not a circuit")
    # 2. no new qubits
    if not row.new_qubits:
        extra = set(cout.all_qubits()) - set(pristine.all_qubits())
        if extra:
            raise Violation(f"{what}: output acts on qubits the input does not have: {sorted(map(str, extra))[:3]}")
    # 3. ignored operations appear unchanged
    if o.get("ign") and row.tags:
        deep = bool(o.get("deep")) and row.sub_policy == "keep"  # passes that may consume whole sub-circuits: top level only
        want = H.ignored_ops(pristine, deep)
        have = H.all_ignored_ops(cout)
        for op, k in want.items():
            if have.get(op, 0) < k:
                raise Violation(f"{what}: operation tagged with a tag in tags_to_ignore is not in the output unchanged ({_short(op)})")
    # 4. sub-circuits untouched unless deep
    if not o.get("deep") and row.sub_policy != "any":
        ins = {}
        for op in H.top_circuit_ops(pristine):
            ins[op.untagged] = ins.get(op.untagged, 0) + 1
        outs = {}
        anywhere = _all_subs(pristine)
        for op in H.top_circuit_ops(cout):
            u = op.untagged
            if u in ins:
                outs[u] = outs.get(u, 0) + 1
            elif u in anywhere and row.sub_policy == "subset":
                pass  # a nested sub-circuit surfaced because its (opaque) parent was unrolled/decomposed as a whole
            elif not row.creates_subs:
                raise Violation(f"{what}: a CircuitOperation's inner circuit was rewritten although deep=False")
        if row.sub_policy == "keep" and outs != ins:
            raise Violation(f"{what}: CircuitOperations were dropped, duplicated or rewritten although deep=False")


def _all_subs(c):
    out = set()
    for op in c.all_operations():
        if isinstance(op.untagged, cirq.CircuitOperation):
            out.add(op.untagged)
            out |= _all_subs(op.untagged.circuit)
    return out


def _tb_functions(e):
    import traceback

    return [fr.name for fr in traceback.extract_tb(e.__traceback__)]


def _raise_site(e):
    names = _tb_functions(e)
    return names[-1] if names else "?"


def _has_nonterminal_measurement(c):
    """A measuring operation (a measurement, or a sub-circuit holding one) with a later operation on one of its qubits - at the top
    level or, recursively, inside a sub-circuit (also: a measuring sub-circuit that is repeated)."""
    ops_ = [(i, op) for i, m in enumerate(c) for op in m]
    for k, (i, op) in enumerate(ops_):
        if cirq.is_measurement(op):
            qs = set(op.qubits)
            if any(j > i and qs & set(other.qubits) for j, other in ops_[k + 1:]):
                return True
            u = op.untagged
            if isinstance(u, cirq.CircuitOperation):
                reps = u.repetitions
                if (isinstance(reps, (int, np.integer)) and abs(int(reps)) > 1) or _has_nonterminal_measurement(u.circuit):
                    return True
    return False


def _short(op):
    s = repr(op)
    return s if len(s) < 160 else s[:157] + "..."


def _run_row(row, o, given):
    try:
        return row.run(given, o)
    except Exception as e:  # noqa: documented rejections only; everything else propagates (-> crash bucket)
        if row.reject is not None:
            reason = row.reject(e, o)
            if reason:
                raise Reject(f"{row.name}: {reason}")
        raise


def oracle_general(r):
    row = R.ROWS[r["row"]]
    o = r["o"]
    b = G6.build(r["c"])
    pristine = G6.build(r["c"]).circuit  # independent second build = the snapshot
    cin = b.circuit
    if b.n_ops == 0:
        raise Reject("empty circuit")
    given = cin.freeze() if o.get("frozen") else cin
    out = _run_row(row, o, given)
    cout = out.unfreeze(copy=False) if isinstance(out, cirq.FrozenCircuit) else out
    structure_checks(row, o, cin, pristine, cout, given)
    changed = H.moments_of(cout) != H.moments_of(pristine)
    n = b.n_ops + sum(1 for _ in cout.all_operations())
    if row.tag_oracle is not None:
        msg = row.tag_oracle(pristine, cout, o)
        if msg:
            raise Violation(f"{row.name}: {msg}")
        lab = {"class": 0, "noncommuting": True, "outcomes": 2}
    else:
        lab = semantic_compare(row.name, pristine, cout, b.qubits, r["c"], _tol(row, o, n), int(o.get("psi", 0)), dist_only=row.dist_only)
    st_ = b.stats
    _imc = bool(o.get("ign")) and st_["ign"] >= 2 and H.ignored_moment_class(pristine)
    lab.update({
        "row": row.name, "changed": row.name if changed else "-",
        "nontrivial": bool(changed and (lab["noncommuting"] if lab["class"] == 1 else lab["outcomes"] >= 2)),
        "deep": bool(o.get("deep")), "ign_active": bool(o.get("ign") and st_["ign"]), "frozen": bool(o.get("frozen")),
        "ign_moment_class": _imc,
        "ign_moment_class_row": row.name if _imc else "-",
        "has_sub": st_["sub"] > 0, "has_cc": st_["cc_bound"] > 0, "has_meas": st_["meas"] > 0, "has_sym": st_["sym"] > 0,
        "has_zeroq": st_["zeroq"] > 0, "has_chan": st_["chan"] > 0, "nested": st_["nested"] > 0,
    })
    return lab


# ------------------------------------------------------------------------------------------- measurement passes (special oracles)

MP_CFG = {
    "defer_measurements": G6.Cfg(meas=0.5, cc=1.0, chan=0.05, sub=0.15, max_w=3, max_ops=6, repkeys=True, sub_tags=(0, 0, 2, 3, 4),
                                 meas_arity=(1, 1, 2, 2)),
    "dephase_measurements": G6.Cfg(meas=0.5, cc=0.04, chan=0.1, sub=0.2, max_w=3, max_ops=7, repkeys=True),
    "drop_terminal_measurements": G6.Cfg(meas=0.5, cc=0.0, chan=0.05, sub=0.15, max_w=4, max_ops=7, terminal_only=True),
    "drop_terminal_measurements_any": G6.Cfg(meas=0.3, cc=0.0, chan=0.05, sub=0.15, max_w=3, max_ops=6),
    "RandomizedMeasurements": G6.Cfg(sub=0.05, max_w=4, max_ops=6),
}
SPECIAL_COVERS.append(("defer_measurements", "dephase_measurements", "drop_terminal_measurements", "RandomizedMeasurements"))


@st.composite
def _mp_case(draw):
    name = draw(st.sampled_from(["defer_measurements"] * 5 + ["dephase_measurements"] * 3 + ["drop_terminal_measurements"] * 3 +
                                ["drop_terminal_measurements_any"] + ["RandomizedMeasurements"] * 2))
    c = draw(G6.circuits6(MP_CFG[name]))
    o = {"ign": draw(st.integers(0, 3)) == 0, "frozen": draw(st.integers(0, 3)) == 0, "psi": draw(st.integers(0, 10 ** 6)),
         "deep": draw(st.integers(0, 7)) != 0, "ctx": draw(st.integers(0, 5)) != 0}
    if name == "RandomizedMeasurements":
        o["x"] = {"sub": draw(st.one_of(st.none(), st.lists(st.integers(0, 5), min_size=1, max_size=3))),
                  "ens": draw(st.sampled_from(["pauli", "clifford", "cue", "Pauli", "CUE"])), "seed": draw(st.integers(0, 2 ** 31))}
    return {"row": name.replace("_any", ""), "c": c, "o": o}


def _ctx_of(o, default_deep):
    if not o.get("ctx"):
        return {}  # rely on the transformer's default context
    return {"context": cirq.TransformerContext(tags_to_ignore=(G6.IGN,) if o.get("ign") else (), deep=bool(o.get("deep", default_deep)))}


_CLIFFORD_US = None


def _is_clifford_1q(u):
    global _CLIFFORD_US
    if _CLIFFORD_US is None:
        _CLIFFORD_US = [cirq.unitary(g) for g in cirq.SingleQubitCliffordGate.all_single_qubit_cliffords]
    return any(L.diff_up_to_phase(u, c) < 1e-7 for c in _CLIFFORD_US)


def oracle_measurement_passes(r):
    name, o = r["row"], r["o"]
    b = G6.build(r["c"])
    pristine = G6.build(r["c"]).circuit
    if b.n_ops == 0:
        raise Reject("empty circuit")
    cin = b.circuit
    given = cin.freeze() if o.get("frozen") else cin
    order = b.qubits
    shape_in = [q.dimension for q in order]
    ign_on = bool(o.get("ign")) and bool(o.get("ctx"))
    ign_tags = (G6.IGN,) if ign_on else ()
    tol = BASE_TOL + 2e-7 * b.n_ops
    lab = {"row": name}

    def unchanged():
        if H.moments_of(given) != H.moments_of(pristine):
            raise Violation(f"{name}: the input circuit was modified by the transformer")

    if name == "defer_measurements":
        if ign_on:
            try:
                if any(e["ign"] and e["t"] in ("m", "c") for e in IR.to_ir(_resolve(pristine, r["c"]), order, ign_tags)):
                    raise Reject("defer_measurements: ignored operation with measurement/control keys (dependency cannot be kept)")
            except IR.Unsupported as e:
                raise Reject(f"reference cannot express input: {e}")
        try:
            out = cirq.defer_measurements(given, **_ctx_of(o, False))
        except ValueError as e:
            raise Reject("defer_measurements: ValueError raised in " + _raise_site(e))
        unchanged()
        try:
            sorted(out.all_qubits())  # what QubitOrder.DEFAULT / every simulator does with the result
        except TypeError as e:
            raise Violation(f"defer_measurements: the qubits of the output cannot be sorted (default qubit order fails): {e}")
        extra = sorted(set(out.all_qubits()) - set(order), key=repr)
        if not set(pristine.all_qubits()) >= set(out.all_qubits()) - set(extra):
            raise Violation("defer_measurements: lost track of qubits")
        if len(order) + len(extra) > 7:
            raise Reject("deferred circuit too wide for the reference")
        if not ign_on and not out.are_all_measurements_terminal():
            raise Violation("defer_measurements: output still has a non-terminal measurement")
        res = semantic_compare(name, pristine, out, order, r["c"], tol, int(o["psi"]), extra_order=extra)
        lab.update(res)
        lab["ancillas"] = min(len(extra), 4)
        changed = H.moments_of(out) != H.moments_of(pristine)
    elif name == "dephase_measurements":
        # documented: ValueError iff the circuit contains classical controls.  Decided from the recipe (the builder counts the
        # classically controlled operations it really emitted, at any depth), never from the wording of the message.
        has_cc = b.stats["cc_bound"] > 0
        try:
            out = cirq.dephase_measurements(given, **_ctx_of(o, True))
        except ValueError:
            if has_cc:
                raise Reject("dephase_measurements: documented ValueError (input has classical control)")
            raise  # in-domain input: stays a crash violation
        unchanged()
        if has_cc:
            raise Reject("dephase_measurements: classical control passed through (tagged / nested without deep)")
        if set(out.all_qubits()) - set(order):
            raise Violation("dephase_measurements: new qubits")
        res = semantic_compare(name, pristine, out, order, r["c"], tol, int(o["psi"]), forget=True)
        lab.update(res)
        deep = bool(o.get("deep", True)) if o.get("ctx") else True
        ir_out = IR.to_ir(out, order, ign_tags)
        left = [e for e in ir_out if e["t"] == "m" and not e["ign"]]
        if deep and left:
            raise Violation(f"dephase_measurements: {len(left)} measurement(s) left in the output with deep=True")
        changed = H.moments_of(out) != H.moments_of(pristine)
    elif name == "drop_terminal_measurements":
        # documented: ValueError iff a non-terminal measurement exists or deep=False.  "Non-terminal" is read off the circuit
        # the recipe builds: a top-level operation that measures (itself or inside its sub-circuit) with a later top-level
        # operation on one of its qubits.
        deep_false = bool(o.get("ctx")) and not o.get("deep", True)
        try:
            out = cirq.drop_terminal_measurements(given, **_ctx_of(o, True))
        except ValueError:
            if deep_false or _has_nonterminal_measurement(pristine):
                raise Reject("drop_terminal_measurements: documented ValueError (non-terminal measurement or deep=False)")
            raise  # in-domain input: stays a crash violation
        unchanged()
        if o.get("ctx") and not o.get("deep", True):
            raise Violation("drop_terminal_measurements: deep=False accepted although documented to raise")
        try:
            ir_in = IR.to_ir(pristine, order, ign_tags)
        except IR.Unsupported as e:
            raise Reject(f"reference cannot express input: {e}")
        expected = []
        for e in ir_in:
            if e["t"] == "m" and not e["ign"]:
                for a, inv in zip(e["ax"], e["inv"]):
                    if inv:
                        d = shape_in[a]
                        m = np.eye(d, dtype=complex)[[1, 0] + list(range(2, d))]
                        expected.append({"t": "u", "m": m, "ax": [a], "ign": False})
            else:
                expected.append(e)
        ir_out = IR.to_ir(out, order, ign_tags)
        if sum(e["t"] == "m" for e in ir_out) != sum(e["t"] == "m" for e in expected):
            raise Violation("drop_terminal_measurements: output still contains a terminal measurement that is not ignored")
        res = compare_ir(name, expected, ir_out, shape_in, shape_in, tol, int(o["psi"]))
        lab.update(res)
        changed = H.moments_of(out) != H.moments_of(pristine)
        lab["had_inversion"] = any(e["t"] == "m" and any(e["inv"]) for e in ir_in)
    else:  # RandomizedMeasurements
        x = o["x"]
        qs_sorted = sorted(pristine.all_qubits())
        if not qs_sorted:
            raise Reject("no qubits")
        sub = None if x.get("sub") is None else sorted({int(i) % len(qs_sorted) for i in x["sub"]})
        if any("m" == str(k) for k in cirq.measurement_key_names(pristine)):
            raise Reject("key m in use")
        tr = cirq.transformers.RandomizedMeasurements(subsystem=sub)
        out = tr(given, unitary_ensemble=x["ens"], rng=np.random.default_rng(int(x["seed"])), **_ctx_of(o, False))
        unchanged()
        n0 = len(pristine)
        if len(out) != n0 + 2 or tuple(out.moments[:n0]) != tuple(pristine.moments):
            raise Violation("RandomizedMeasurements: the prefix of the output is not the input circuit followed by exactly two moments")
        want_q = qs_sorted if sub is None else [qs_sorted[i] for i in sub]
        rot, mm = out.moments[n0], out.moments[n0 + 1]
        if sorted(rot.qubits) != sorted(want_q) or any(len(op.qubits) != 1 for op in rot):
            raise Violation("RandomizedMeasurements: rotation moment does not consist of one single-qubit gate per subsystem qubit")
        ens = x["ens"].lower()
        for op in rot:
            u = cirq.unitary(op)
            if ens == "pauli":
                ok = any(L.max_abs_diff(u, cirq.unitary(g)) < 1e-9 for g in (cirq.Ry(rads=-np.pi / 2), cirq.Rx(rads=np.pi / 2), cirq.I))
            elif ens == "clifford":
                ok = _is_clifford_1q(u)
            else:
                ok = L.is_unitary(u)
            if not ok:
                raise Violation(f"RandomizedMeasurements: rotation {op!r} is not from the documented {ens} ensemble")
        mops = list(mm.operations)
        if len(mops) != 1 or not isinstance(mops[0].gate, cirq.MeasurementGate) or list(mops[0].qubits) != list(want_q) \
                or str(mops[0].gate.key) != "m" or any(mops[0].gate.full_invert_mask()) or mops[0].gate.confusion_map:
            raise Violation("RandomizedMeasurements: final moment is not the single plain measurement of the subsystem with key 'm'")
        lab.update({"class": 1, "noncommuting": True, "outcomes": 2, "ensemble": ens, "subsystem": sub is not None})
        changed = True
    st_ = b.stats
    lab.update({"changed": name if changed else "-", "ign_active": bool(ign_on and st_["ign"]), "has_sub": st_["sub"] > 0,
                "has_cc": st_["cc_bound"] > 0, "has_meas": st_["meas"] > 0, "has_conf": st_["conf"] > 0, "has_inv": st_["inv"] > 0,
                "repkeys": bool(r["c"].get("repkeys")), "default_ctx": not o.get("ctx")})
    lab["nontrivial"] = bool(changed and (lab.get("outcomes", 1) >= 2 or lab.get("noncommuting")))
    return lab


# ------------------------------------------------------------------------------------------- sweeps / symbolize

SW_GAUGES = [n for n in R.GAUGES]
SPECIAL_COVERS.append(("symbolize_single_qubit_gates_by_indexed_tags", "merge_single_qubit_gates_to_phxz_symbolized", "SymbolizeTag",
                       "TwoQubitGateSymbolizer"))
SYM_CFG = G6.Cfg(sub=0.1, max_w=3, max_ops=7, max_arity=2)
PHXZ_SYM_CFG = G6.Cfg(sub=0.08, max_w=3, max_ops=8, max_arity=2, param=True,
                      boost=R.X_LIKE + R.Z_LIKE + [R.CZ1, ["CZPow", {"e": 0.5, "s": 0.0}]], boost_p=0.6, zeroq=False)


@st.composite
def _sw_case(draw):
    kind = draw(st.sampled_from(["as_sweep"] * 6 + ["symbolize"] * 2 + ["phxz_symbolized"] * 3))
    o = {"ign": draw(st.integers(0, 2)) == 0, "frozen": draw(st.integers(0, 3)) == 0, "psi": draw(st.integers(0, 10 ** 6)),
         "deep": False}
    if kind == "as_sweep":
        name = draw(st.sampled_from(SW_GAUGES))
        row = R.ROWS[name]
        c = draw(G6.circuits6(row.unitary if draw(st.integers(0, 3)) else row.records))
        o["x"] = {"seed": draw(st.integers(0, 2 ** 31)), "N": draw(st.integers(1, 3))}
        return {"row": "as_sweep:" + name, "c": c, "o": o}
    if kind == "symbolize":
        c = draw(G6.circuits6(SYM_CFG))
        o["deep"] = draw(st.integers(0, 2)) == 0
        o["x"] = {"idx": draw(st.lists(st.integers(0, 7), min_size=1, max_size=3)), "prefix": draw(st.sampled_from(["TO-PHXZ", "phxz", "a_b"]))}
        return {"row": "symbolize_single_qubit_gates_by_indexed_tags", "c": c, "o": o}
    c = draw(G6.circuits6(PHXZ_SYM_CFG))
    o["deep"] = draw(st.integers(0, 3)) == 0
    n = draw(st.integers(1, 3))
    o["x"] = {"vals": [[draw(G.exponents()), draw(G.exponents())] for _ in range(n)], "atol": draw(st.sampled_from([None, 1e-8]))}
    return {"row": "merge_single_qubit_gates_to_phxz_symbolized", "c": c, "o": o}


def _tag_nth_single_qubit_ops(circuit, idx, prefix):
    """Tag the idx[j]-th (mod count) untagged-for-symbolize single-qubit unitary gate operation with '<prefix>_<j>'."""
    cands = [(i, op) for i, m in enumerate(circuit) for op in m
             if len(op.qubits) == 1 and op.gate is not None and cirq.has_unitary(op) and not cirq.is_parameterized(op)]
    if not cands:
        return circuit, {}
    chosen = {}
    for j, x in enumerate(idx):
        k = int(x) % len(cands)
        if k not in chosen.values():
            chosen[j] = k
    repl = {cands[k]: j for j, k in chosen.items()}
    moments = []
    tagged = {}
    for i, m in enumerate(circuit):
        ops_ = []
        for op in m:
            j = repl.get((i, op))
            if j is not None and (i, op) in repl:
                new = op.with_tags(f"{prefix}_{j}")
                tagged[j] = op
                ops_.append(new)
            else:
                ops_.append(op)
        moments.append(cirq.Moment(ops_))
    return cirq.Circuit(moments), tagged


def oracle_sweeps(r):
    name, o = r["row"], r["o"]
    b = G6.build(r["c"])
    if b.n_ops == 0:
        raise Reject("empty circuit")
    order = b.qubits
    tol = BASE_TOL + 4e-7 * b.n_ops
    context = cirq.TransformerContext(tags_to_ignore=(G6.IGN,) if o.get("ign") else (), deep=bool(o.get("deep")))
    lab = {"row": name}
    x = o["x"]
    if name.startswith("as_sweep:"):
        tr = R.GAUGES[name.split(":", 1)[1]][0]
        pristine = G6.build(r["c"]).circuit
        cin = b.circuit
        given = cin.freeze() if o.get("frozen") else cin
        N = int(x["N"])
        pc, sweep = tr.as_sweep(given, N=N, context=context, prng=np.random.default_rng(int(x["seed"])))
        if H.moments_of(given) != H.moments_of(pristine):
            raise Violation(f"{name}: the input circuit was modified")
        resolvers = list(cirq.to_resolvers(sweep))
        changed = H.moments_of(pc) != H.moments_of(pristine)
        if len(resolvers) != N and cirq.is_parameterized(pc):
            raise Violation(f"{name}: sweep has {len(resolvers)} parameter sets, N={N} requested")
        if o.get("ign"):
            want, have = H.ignored_ops(pristine, False), H.all_ignored_ops(pc)
            for op, k in want.items():
                if have.get(op, 0) < k:
                    raise Violation(f"{name}: operation tagged with a tag in tags_to_ignore is not in the output unchanged ({_short(op)})")
        if set(pc.all_qubits()) - set(pristine.all_qubits()):
            raise Violation(f"{name}: new qubits")
        res = {}
        for i, rs in enumerate(resolvers or [cirq.ParamResolver({})]):
            res = semantic_compare(f"{name}[{i}]", pristine, pc, order, r["c"], tol, int(o["psi"]), resolver=cirq.ParamResolver({}), resolver_out=rs)
        lab.update(res)
        lab["N"] = N
    elif name == "symbolize_single_qubit_gates_by_indexed_tags":
        prefix = x["prefix"]
        base, tagged = _tag_nth_single_qubit_ops(b.circuit, x["idx"], prefix)
        if not tagged:
            raise Reject("no single-qubit gate to symbolize")
        # tags on ops inside sub-circuits are not added by the harness: only top-level symbolization is exercised (plus deep pass-through)
        snapshot = cirq.Circuit(base.moments)
        given = base.freeze() if o.get("frozen") else base
        out = cirq.symbolize_single_qubit_gates_by_indexed_tags(given, context=context, symbolize_tag=cirq.transformers.SymbolizeTag(prefix=prefix))
        if H.moments_of(given) != H.moments_of(snapshot):
            raise Violation(f"{name}: the input circuit was modified")
        vals = {}
        for j, op in tagged.items():
            ignored_here = o.get("ign") and G6.IGN in op.tags
            if ignored_here:
                continue
            g = cirq.PhasedXZGate.from_matrix(cirq.unitary(op))
            vals.update({f"x{j}": g.x_exponent, f"z{j}": g.z_exponent, f"a{j}": g.axis_phase_exponent})
        names = cirq.parameter_names(out)
        if names != set(vals):
            raise Violation(f"{name}: output symbols {sorted(names)} != expected {sorted(vals)}")
        la, lb = list(snapshot.all_operations()), list(out.all_operations())
        if len(la) != len(lb):
            raise Violation(f"{name}: number of operations changed")
        for p_, q_ in zip(la, lb):
            if cirq.is_parameterized(q_):
                if not isinstance(q_.gate, cirq.PhasedXZGate) or q_.qubits != p_.qubits:
                    raise Violation(f"{name}: symbolized operation is not a PhasedXZGate on the same qubit")
                if set(q_.tags) != {t for t in p_.tags if not str(t).startswith(prefix + "_")}:
                    raise Violation(f"{name}: tags of the symbolized operation are {q_.tags}, input had {p_.tags}")
            elif not o.get("deep") and p_ != q_:
                raise Violation(f"{name}: an operation without a matching tag was changed: {_short(p_)} -> {_short(q_)}")
        res = semantic_compare(name, snapshot, out, order, r["c"], tol, int(o["psi"]), resolver=cirq.ParamResolver({}),
                               resolver_out=cirq.ParamResolver(vals))
        lab.update(res)
        changed = True
        lab["n_symbolized"] = len(vals) // 3
    else:
        pristine = G6.build(r["c"]).circuit
        cin = b.circuit
        given = cin.freeze() if o.get("frozen") else cin
        sweep = cirq.ListSweep([cirq.ParamResolver({"s0": float(v[0]), "s1": float(v[1])}) for v in x["vals"]])
        kw = {} if x.get("atol") is None else {"atol": float(x["atol"])}
        try:
            out, new_sweep = cirq.merge_single_qubit_gates_to_phxz_symbolized(given, context=context, sweep=sweep, **kw)
        except ValueError as e:
            # documented on _calc_phxz_sweeps ("Raises: ValueError: Structural mismatch"); whether the resolved circuits merge to
            # different shapes cannot be read off the recipe, so the raise site is identified by function, not by message text
            if "_calc_phxz_sweeps" in _tb_functions(e):
                raise Reject("phxz_symbolized: documented ValueError (structural mismatch between resolved circuits)")
            raise
        if H.moments_of(given) != H.moments_of(pristine):
            raise Violation(f"{name}: the input circuit was modified")
        old, new = list(cirq.to_resolvers(sweep)), list(cirq.to_resolvers(new_sweep))
        if len(old) != len(new):
            raise Violation(f"{name}: new sweep has {len(new)} parameter sets, the input sweep {len(old)}")
        if set(out.all_qubits()) - set(pristine.all_qubits()):
            raise Violation(f"{name}: new qubits")
        if o.get("ign"):
            want, have = H.ignored_ops(pristine, False), H.all_ignored_ops(out)
            for op, k in want.items():
                if not cirq.is_parameterized(op) and have.get(op, 0) < k:
                    raise Violation(f"{name}: operation tagged with a tag in tags_to_ignore is not in the output unchanged ({_short(op)})")
        res = {}
        for i, (ra, rb) in enumerate(zip(old, new)):
            res = semantic_compare(f"{name}[{i}]", pristine, out, order, r["c"], tol + 1e-6, int(o["psi"]), resolver=ra, resolver_out=rb)
        lab.update(res)
        lab["symbolic_out"] = cirq.is_parameterized(out)
        changed = H.moments_of(out) != H.moments_of(pristine)
    st_ = b.stats
    lab.update({"changed": name if changed else "-", "ign_active": bool(o.get("ign") and st_["ign"]), "has_sub": st_["sub"] > 0,
                "has_sym": st_["sym"] > 0, "has_meas": st_["meas"] > 0})
    lab["nontrivial"] = bool(changed and (lab.get("noncommuting") or lab.get("outcomes", 1) >= 2))
    return lab


# ------------------------------------------------------------------------------------------- qubit management

SPECIAL_COVERS.append(("map_clean_and_borrowable_qubits",))
INVOLUTIONS = ["X", "Z", "Y", "H"]


@st.composite
def _qm_case(draw):
    n = draw(st.integers(2, 4))
    names = list(draw(st.permutations(list(range(n + 2)))))[:n]
    items = []
    for i_item in range(draw(st.integers(1, 6))):
        if i_item > 0 and draw(st.integers(0, 2)) == 0:
            g = draw(G.gate_recipes(lambda f: f.unitary and not f.qudit and "zeroq" not in f.tags, max_arity=min(2, n)))
            items.append({"k": "g", "g": g, "w": list(draw(st.permutations(list(range(n)))))[:G.arity(g)]})
        else:
            ab = list(draw(st.permutations(list(range(n)))))[:2]
            kind = draw(st.sampled_from(["clean", "dirty"]))
            it = {"k": "blk", "kind": kind, "t": draw(st.integers(0, 2)), "a": ab[0], "b": ab[1], "wrap": draw(st.integers(0, 4)) == 0,
                  "ins": draw(st.sampled_from([0, 0, 1]))}
            if kind == "clean":
                it["u"] = draw(G.gate_recipes(lambda f: f.unitary and not f.qudit and f.arity == 1, max_arity=1))
            else:
                it["u"] = draw(st.integers(0, 3))
            # an interleaved operation on a wire that the block does not depend on
            free = [w for w in range(n) if w not in ab]
            if free and draw(st.booleans()):
                g = draw(G.gate_recipes(lambda f: f.unitary and not f.qudit and f.arity == 1, max_arity=1))
                it["mid"] = {"g": g, "w": [draw(st.sampled_from(free))], "pos": draw(st.integers(1, 3))}
            items.append(it)
    return {"n": n, "names": names, "qkind": draw(st.sampled_from(["line", "grid", "named"])), "items": items,
            "qm": draw(st.integers(0, 3)), "frozen": draw(st.integers(0, 3)) == 0}


def _qm_build(r):
    from vf.gen import circuits as GC

    n = int(r["n"])
    fake = {"dims": [2] * n, "names": r["names"], "qkind": r.get("qkind", "line")}
    sys_q = GC.qubits_of(fake)
    c = cirq.Circuit()
    temps = {}
    kinds = {"clean": 0, "dirty": 0}
    for it in r["items"]:
        if it.get("k") == "g":
            g = G.build_gate(it["g"])
            w = [int(x) % n for x in it["w"]]
            if len(set(w)) != len(w) or len(w) != cirq.num_qubits(g):
                continue
            c.append(g.on(*[sys_q[x] for x in w]))
            continue
        a, b_ = int(it["a"]) % n, int(it["b"]) % n
        if a == b_:
            continue
        kind = "clean" if it.get("kind") == "clean" else "dirty"
        t = int(it.get("t", 0)) % 3 + (3 if it.get("wrap") else 0)  # temporaries used inside a sub-circuit are not shared with the outside
        anc = cirq.ops.CleanQubit(t, prefix="vftmp") if kind == "clean" else cirq.ops.BorrowableQubit(t, prefix="vftmp")
        temps[anc] = kind
        kinds[kind] += 1
        qa, qb = sys_q[a], sys_q[b_]
        if kind == "clean":
            cu = G.build_gate(it["u"]).on(qb).controlled_by(anc)
            ops_ = [cirq.CNOT(qa, anc), cu, cirq.CNOT(qa, anc)]
        else:
            u = getattr(cirq, INVOLUTIONS[int(it.get("u", 0)) % 4])
            cu = u.on(qb).controlled_by(anc)
            ops_ = [cu, cirq.CNOT(qa, anc), cu, cirq.CNOT(qa, anc)]
        mid = it.get("mid")
        if mid and not it.get("wrap"):
            w = int(mid["w"][0]) % n
            if w not in (a, b_):
                ops_.insert(int(mid.get("pos", 1)) % len(ops_) or 1, G.build_gate(mid["g"]).on(sys_q[w]))
        strat = [cirq.InsertStrategy.EARLIEST, cirq.InsertStrategy.NEW][int(it.get("ins", 0)) % 2]
        if it.get("wrap"):
            c.append(cirq.CircuitOperation(cirq.FrozenCircuit(ops_)), strategy=strat)
        else:
            for op in ops_:
                c.append(op, strategy=strat)
                strat = cirq.InsertStrategy.EARLIEST
    return c, sys_q, temps, kinds


def oracle_qubit_management(r):
    c, sys_q, temps, kinds = _qm_build(r)
    if not temps:
        raise Reject("no temporary qubit")
    pristine = _qm_build(r)[0]
    tq = sorted(temps, key=repr)
    order_in = list(sys_q) + tq
    ns, nt = len(sys_q), len(tq)
    Ds = 2 ** ns
    ir_in = IR.to_ir(c, order_in)
    U_in = IR.ir_unitary(ir_in, [2] * (ns + nt)).reshape(Ds, 2 ** nt, Ds, 2 ** nt)
    V = U_in[:, 0, :, 0]
    # generator invariants: clean temporaries return to |0>, dirty ones are restored and do not influence the system
    if L.max_abs_diff(V @ V.conj().T, np.eye(Ds)) > 1e-8:
        raise AssertionError("generator bug: block does not restore its clean ancilla")
    qm = [cirq.GreedyQubitManager(prefix="vfqm"), cirq.GreedyQubitManager(prefix="vfqm", maximize_reuse=True), cirq.SimpleQubitManager(), None][int(r.get("qm", 0)) % 4]
    given = c.freeze() if r.get("frozen") else c
    out = cirq.map_clean_and_borrowable_qubits(given, qm=qm) if qm is not None else cirq.map_clean_and_borrowable_qubits(given)
    if H.moments_of(given) != H.moments_of(pristine):
        raise Violation("map_clean_and_borrowable_qubits: the input circuit was modified")
    oq = set(out.all_qubits())
    left = [q for q in oq if q in temps]
    if left:
        raise Violation(f"map_clean_and_borrowable_qubits: temporary qubit {left[0]} is still in the output")
    extra = sorted(oq - set(sys_q), key=repr)
    if len(extra) > 4:
        raise Reject("too many allocated qubits for the reference")
    ir_out = IR.to_ir(out, list(sys_q) + extra)
    ne = len(extra)
    U_out = IR.ir_unitary(ir_out, [2] * (ns + ne)).reshape(Ds, 2 ** ne, Ds, 2 ** ne)
    tol = BASE_TOL + 2e-7 * len(ir_in)
    W = U_out[:, 0, :, 0]
    d = L.diff_up_to_phase(W, V)
    if not d <= tol:
        raise Violation(f"map_clean_and_borrowable_qubits: action on the system qubits (allocated qubits in |0>) differs by {d:.3g} (tol {tol:.1g})")
    leak = max([float(np.max(np.abs(U_out[:, k, :, 0]))) for k in range(1, 2 ** ne)] or [0.0])
    if leak > tol:
        raise Violation(f"map_clean_and_borrowable_qubits: allocated qubits are not returned to |0> (leak {leak:.3g})")
    borrowed_system = len(extra) < len(temps)
    return {"row": "map_clean_and_borrowable_qubits", "changed": "map_clean_and_borrowable_qubits", "nontrivial": True,
            "clean": kinds["clean"] > 0, "dirty": kinds["dirty"] > 0, "allocated": ne, "borrowed_or_reused": borrowed_system,
            "wrapped": any(it.get("wrap") for it in r["items"] if it.get("k") == "blk"), "qm": int(r.get("qm", 0)) % 4}


# ------------------------------------------------------------------------------------------- known findings (README rule 1)


def _ops_of(recipe):
    return list(G6.walk_ops((recipe.get("c") or {}).get("ops")))


def _f1(sub, recipe):
    """Condition.replace_key drops bitmask/target/index: a BitMask condition or an indexed KeyCondition inside a CircuitOperation."""
    for o in _ops_of(recipe):
        if o.get("k") == "sub":
            for o2 in G6.walk_ops(o.get("body")):
                if o2.get("k") == "cc" and any(isinstance(c, dict) and (c.get("t") == "bitmask" or c.get("index") == 0) for c in o2.get("conds", [])):
                    return True
    return False


def _f5(sub, recipe):
    return recipe.get("row") in ("expand_composite", "optimize_for_target_gateset") and any(
        o.get("k") in ("g", "cc") and o.get("g", [None])[0] == "ThreeQubitDiagonal" for o in _ops_of(recipe))


def _zero_qubit_ops(c):
    for op in c.all_operations():
        if len(op.qubits) == 0:
            return True
        if isinstance(op.untagged, cirq.CircuitOperation) and _zero_qubit_ops(op.untagged.circuit):
            return True
    return False


def _f6(sub, recipe):
    """stratified_circuit returns a wrong (shorter / empty) circuit when a zero-qubit operation is present."""
    return recipe.get("row") == "stratified_circuit" and _zero_qubit_ops(G6.build(recipe["c"]).circuit)


def _f7(sub, recipe):
    if recipe.get("row") != "add_dynamical_decoupling":
        return False
    b = G6.build(recipe["c"])
    for op in b.circuit.all_operations():
        if len(op.qubits) >= 1 and op.gate is not None and not cirq.control_keys(op) and cirq.has_unitary(op) and cirq.has_stabilizer_effect(op):
            try:
                cirq.PauliString({op.qubits[0]: cirq.X}).after([op])
            except (TypeError, ValueError):
                # TypeError: act_on cannot apply the gate's decomposition; ValueError: CliffordGate.from_op_list refuses it
                return True
    return False


def _f12(sub, recipe):
    return recipe.get("row") in ("eject_z", "drop_diagonal_before_measurement") and any(
        o.get("k") == "g" and o.get("sym") and o.get("g", [None])[0] == "ISwapPow" for o in _ops_of(recipe))


def _f13(sub, recipe):
    """add_dynamical_decoupling merges pulled-through Paulis into single-qubit operations that carry an ignored tag."""
    return recipe.get("row") == "add_dynamical_decoupling" and bool((recipe.get("o") or {}).get("ign")) and any(
        o.get("tag") == 1 and o.get("k") == "g" and len(o.get("w", [])) <= 1 for o in (recipe.get("c") or {}).get("ops", []) if isinstance(o, dict))


def _f14(sub, recipe):
    """CircuitOperation._unitary_ (single-qubit fast path) fails when the body also holds a zero-qubit operation."""
    for o in _ops_of(recipe):
        if o.get("k") == "sub" and any(o2.get("k") == "g" and o2.get("g", [None])[0] == "GlobalPhase" for o2 in G6.walk_ops(o.get("body"))):
            return True
    return False


def _f15(sub, recipe):
    """IdleMomentsGauge treats every single-qubit gate operation (measurement, channel) as a unitary it may merge a gauge into."""
    if recipe.get("row") != "IdleMomentsGauge":
        return False
    for o in (recipe.get("c") or {}).get("ops", []):
        if isinstance(o, dict) and o.get("k") in ("m", "ch") and len(set(o.get("w", []))) == 1:
            return True
    return False


def _f16(sub, recipe):
    """TaggedOperation._commutes_ ignores the caller's default= and raises TypeError: hits insertion_sort on tagged operations."""
    if recipe.get("row") != "insertion_sort_transformer":
        return False
    ops = list(G6.build(recipe["c"]).circuit.all_operations())
    for i, a in enumerate(ops):
        for b_ in ops[i + 1:]:
            if (a.tags or b_.tags) and set(a.qubits) & set(b_.qubits):
                try:
                    cirq.commutes(b_, a, default=False)
                except TypeError:
                    return True
    return False


def _f17(sub, recipe):
    """unroll_circuit_op_greedy_earliest (batch_insert/EARLIEST) lets later operations overtake the unrolled ones."""
    if recipe.get("row") != "unroll_circuit_op_greedy_earliest":
        return False
    return any(o.get("k") == "sub" and (len(o.get("body") or []) >= 2 or o.get("reps") == 2) for o in _ops_of(recipe))


def _f18(sub, recipe):
    """CPhaseGaugeTransformerMM drops operations without a gate (classically controlled ops, CircuitOperations) from target moments."""
    if recipe.get("row") != "CPhaseGaugeTransformerMM":
        return False
    for m in G6.build(recipe["c"]).circuit:
        if any(isinstance(op.gate, cirq.CZPowGate) for op in m) and any(op.gate is None for op in m):
            return True
    return False


def _f19(sub, recipe):
    """defer_measurements + repeated keys: a terminal (or ignored) measurement stays in place, earlier instances are appended after it."""
    return recipe.get("row") == "defer_measurements" and bool((recipe.get("c") or {}).get("repkeys"))


def _f21(sub, recipe):
    """merge_single_qubit_gates_to_phxz_symbolized: a symbol shared by a 1-qubit and a multi-qubit gate is frozen at the first sweep point."""
    if recipe.get("row") != "merge_single_qubit_gates_to_phxz_symbolized":
        return False
    one, multi = set(), set()
    for o in _ops_of(recipe):
        if o.get("k") == "g" and o.get("sym") and o.get("g", [None])[0] in G6.SYM_ALL:
            (one if len(o.get("w", [])) == 1 else multi).add((int(o["sym"]) - 1) % 2)
    return bool(one & multi)


def _f22(sub, recipe):
    """merge_single_qubit_gates_to_phxz_symbolized + symbols inside a CircuitOperation: resolve_parameters only attaches a resolver to
    the sub-circuit, so the first sweep point is baked in (deep=True) or CircuitOperation._unitary_ multiplies the unresolved body (crash)."""
    if recipe.get("row") != "merge_single_qubit_gates_to_phxz_symbolized":
        return False
    for o in _ops_of(recipe):
        if o.get("k") == "sub" and any(o2.get("k") == "g" and o2.get("sym") and o2.get("g", [None])[0] in G6.SYM_ALL
                                       for o2 in G6.walk_ops(o.get("body"))):
            return True
    return False


def _f23(sub, recipe):
    """map_clean_and_borrowable_qubits: sub-circuit recursion + a manager that allocates CleanQubit objects (SimpleQubitManager): KeyError."""
    return sub == "qubit_management" and int(recipe.get("qm", 0)) % 4 == 2 and any(
        isinstance(it, dict) and it.get("k") == "blk" and it.get("wrap") for it in recipe.get("items", []))


def _f24(sub, recipe):
    """drop_diagonal_before_measurement treats a CircuitOperation that contains a measurement as a measurement of all its qubits."""
    if recipe.get("row") != "drop_diagonal_before_measurement":
        return False
    return any(o.get("k") == "sub" and any(o2.get("k") == "m" for o2 in G6.walk_ops(o.get("body"))) for o in _ops_of(recipe))


def _f25(sub, recipe):
    """merge_operations(_to_circuit_op): a measurement merged to the right lands behind / beside an op controlled by its key."""
    row, x = recipe.get("row"), ((recipe.get("o") or {}).get("x") or {})
    hit = (row == "merge_operations" and int(x.get("f", 0)) % 4 == 3) or (row == "merge_operations_to_circuit_op" and int(x.get("f", 0)) % 4 == 2)
    if not hit:
        return False
    kinds = {o.get("k") for o in _ops_of(recipe)}
    return "m" in kinds and "cc" in kinds


def _f26(sub, recipe):
    """defer_measurements tests 'terminal' by op equality: a mid-circuit measurement equal to a terminal one is not deferred."""
    if recipe.get("row") != "defer_measurements" or not (recipe.get("c") or {}).get("repkeys"):
        return False
    seen = set()
    for o in _ops_of(recipe):
        if o.get("k") == "m":
            sig = (int(o.get("key", 0)) % 3, tuple(o.get("w", [])))
            if sig in seen:
                return True
            seen.add(sig)
        if o.get("k") == "sub" and o.get("reps") == 2 and any(o2.get("k") == "m" for o2 in G6.walk_ops(o.get("body"))):
            return True
    return False


def _f20(sub, recipe):
    """_MeasurementQid embeds the raw comparison key of the wrapped qid: ancillas of one multi-qubit measurement over different
    qubit classes (LineQubit / GridQubit / NamedQubit) cannot be ordered, so the deferred circuit cannot be simulated."""
    c = recipe.get("c") or {}
    if recipe.get("row") != "defer_measurements" or c.get("qkind") != "mixed":
        return False
    names = c.get("names") or []
    for o in _ops_of(recipe):
        if o.get("k") == "m" and names:
            kinds = {int(names[int(w) % len(names)]) % 3 for w in o.get("w", [])}
            if len(kinds) >= 2:
                return True
    return False


def _f27(sub, recipe):
    """synchronize_terminal_measurements moves several terminal measurements of one repeated key into a single moment in set order."""
    c = recipe.get("c") or {}
    if recipe.get("row") != "synchronize_terminal_measurements" or not c.get("repkeys"):
        return False
    seen = set()
    for o in _ops_of(recipe):
        if o.get("k") == "m":
            sig = (int(o.get("key", 0)) % 3, len(o.get("w", [])))
            if sig in seen:
                return True
            seen.add(sig)
        if o.get("k") == "sub" and o.get("reps") == 2 and any(o2.get("k") == "m" for o2 in G6.walk_ops(o.get("body"))):
            return True
    return False


def _f28(sub, recipe):
    """SqrtCZGauge compares `gate == CZ**0.5` exactly although its target gateset accepts CZ**+-0.5 up to global phase (global_shift != 0)."""
    if "SqrtCZGaugeTransformer" not in str(recipe.get("row")):
        return False
    for o in _ops_of(recipe):
        if o.get("k") in ("g", "cc") and o.get("g", [None])[0] == "CZPow" and not o.get("sym"):
            p = o["g"][1]
            if float(p.get("s", 0)) != 0 and abs((float(p.get("e", 0)) % 2) - 0.5) in (0.0, 1.0):
                return True
    return False


def _f29(sub, recipe):
    """unroll_circuit_op_greedy_frontier (Circuit.insert_at_frontier) orders the unrolled ops by qubit frontier only: whenever a
    sub-circuit is unrolled in a circuit that has both a measurement and an op controlled by a key, the control can land before the
    measurement of that key (both inside the sub-circuit, or one inside and one outside)."""
    if recipe.get("row") != "unroll_circuit_op_greedy_frontier":
        return False
    ops_ = _ops_of(recipe)
    kinds = {o.get("k") for o in ops_}
    return "sub" in kinds and "m" in kinds and "cc" in kinds


def _f30(sub, recipe):
    """as_sweep of SqrtCZGaugeTransformer: its symbolizer rejects a gate that the target gateset accepts up to global phase but that
    is not a CZPowGate (FSimGate(0, +-pi/2))."""
    if recipe.get("row") != "as_sweep:SqrtCZGaugeTransformer":
        return False
    tgt = R.GAUGES["SqrtCZGaugeTransformer"][0].target
    for op in G6.build(recipe["c"]).circuit.all_operations():
        if op.gate is not None and len(op.qubits) == 2 and not isinstance(op.gate, cirq.CZPowGate) and not cirq.is_parameterized(op) and op in tgt:
            return True
    return False


def _f31(sub, recipe):
    """defer_measurements drops the index of a BitMaskKeyCondition (only KeyCondition keeps it): with a repeated key the control is
    wired to the last instance."""
    if recipe.get("row") != "defer_measurements" or not (recipe.get("c") or {}).get("repkeys"):
        return False
    return any(o.get("k") == "cc" and any(isinstance(c, dict) and c.get("t") == "bitmask" and c.get("index") == 0 for c in o.get("conds", []))
               for o in _ops_of(recipe))


def _f33(sub, recipe):
    """merge_operations(_to_circuit_op) guard the order of a measurement against controls on its key, but not against ANOTHER
    measurement of the same (repeated) key: a merged measurement dragged to a later moment changes the order of the key's instances."""
    row, x = recipe.get("row"), ((recipe.get("o") or {}).get("x") or {})
    hit = (row == "merge_operations" and int(x.get("f", 0)) % 4 == 3) or (row == "merge_operations_to_circuit_op" and int(x.get("f", 0)) % 4 == 2)
    if not hit or not (recipe.get("c") or {}).get("repkeys"):
        return False
    seen = set()
    for o in _ops_of(recipe):
        if o.get("k") == "m":
            sig = (int(o.get("key", 0)) % 3, len(set(o.get("w", []))))
            if sig in seen:
                return True
            seen.add(sig)
        if o.get("k") == "sub" and o.get("reps") == 2 and any(o2.get("k") == "m" for o2 in G6.walk_ops(o.get("body"))):
            return True
    return False


KNOWN_FEATURES = {


    "F29_unroll_greedy_frontier_key_order": _f29,

    "F20_measurement_qid_unorderable": _f20,
    "F23_qubit_mapping_subcircuit_simple_manager": _f23,
    "F22_phxz_symbolized_symbols_in_subcircuit": _f22,
    "F21_phxz_symbolized_shared_symbol": _f21,
    "F17_unroll_greedy_earliest_order": _f17,
    "F13_dd_modifies_ignored_ops": _f13,
    "F7_dd_clifford_by_unitary": _f7,
}

# ------------------------------------------------------------------------------------------- coverage bookkeeping

DELEGATED = {
    "RouteCQC": "routing changes the qubit mapping; its equivalence-modulo-final-permutation oracle lives in C07",
}
NOT_TRANSFORMERS = {"TRANSFORMER", "TransformerContext", "TransformerLogger", "LogLevel", "transformer", "create_transformer_with_kwargs"}


def exported_transformers():
    """Names of everything that looks like a circuit transformer in the public transformer namespaces."""
    import cirq.transformers as T
    import cirq.transformers.gauge_compiling as GC_
    import cirq_google.transformers as GT

    found = {}
    for modname, m in (("cirq.transformers", T), ("cirq.transformers.gauge_compiling", GC_), ("cirq_google.transformers", GT)):
        for n in sorted(dir(m)):
            if n.startswith("_") or n in NOT_TRANSFORMERS:
                continue
            obj = getattr(m, n)
            if inspect.ismodule(obj):
                continue
            is_t = False
            if inspect.isclass(obj):
                call = getattr(obj, "__call__", None)
                try:
                    is_t = call is not None and "circuit" in inspect.signature(call).parameters
                except (TypeError, ValueError):
                    is_t = False
            elif inspect.isfunction(obj):
                try:
                    params = list(inspect.signature(obj).parameters)
                except (TypeError, ValueError):
                    params = []
                is_t = bool(params) and params[0] == "circuit"
            elif callable(obj):
                try:
                    is_t = "circuit" in inspect.signature(obj.__call__).parameters
                except (TypeError, ValueError):
                    is_t = False
            if is_t:
                found.setdefault(n, modname)
    return found


def covered_names():
    names = set()
    for r in R.ROWS.values():
        names.update(r.covers)
    for s in SPECIAL_COVERS:
        names.update(s)
    return names


def uncovered():
    cov = covered_names()
    out = []
    for n, mod in sorted(exported_transformers().items()):
        if n in cov:
            continue
        out.append(f"{mod}.{n}" + (f" (delegated: {DELEGATED[n]})" if n in DELEGATED else ""))
    return out


SUBCHECKS = [
    SubCheck("unitary", _case("unitary"), oracle_general, quick=9000, thorough=300000, shards_quick=10, shards_thorough=16, time_quick=600.0, time_thorough=3000.0,
             essential={"noncommuting": 0.3}),
    SubCheck("records", _case("records"), oracle_general, quick=7500, thorough=200000, shards_quick=10, shards_thorough=16, time_quick=600.0, time_thorough=3000.0,
             essential={"has_meas": 0.5}),
    SubCheck("qubit_management", _qm_case(), oracle_qubit_management, quick=700, thorough=25000, shards_quick=2, shards_thorough=8),
    SubCheck("sweeps", _sw_case(), oracle_sweeps, quick=1200, thorough=40000, shards_quick=2, shards_thorough=8),
    SubCheck("measurement_passes", _mp_case(), oracle_measurement_passes, quick=1800, thorough=60000, shards_quick=4, shards_thorough=16),
]
