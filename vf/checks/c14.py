"""C14 — Pauli-string algebra and expectation values match their matrices."""
from __future__ import annotations

import cmath
import hashlib
import itertools
import math
import os
import sys

import numpy as np
import sympy
from hypothesis import strategies as st

import cirq
from vf.core import Reject, SubCheck, Violation
from vf.gen import clifford_ops as CO
from vf.gen import gates as G
from vf.prng import ScriptedPRNG, enumerate_branches
from vf.ref import clifford_group as CG
from vf.ref import linalg as L

RULE = (
    "Exhaustive: all ordered pairs of Pauli strings on two qubits (16 labels incl. identity and one-qubit strings) x "
    "unit coefficients {1,i,-1,-i}^2 (products, sums, commutation, in-place products, dense forms, conjugation of one "
    "by the other); all 24 single-qubit Cliffords (own BFS words; as SingleQubitCliffordGate, op list, PhasedXZ, "
    "MatrixGate) x {X,Y,Z} x unit coefficients; all 11520 two-qubit Cliffords x 16 two-qubit Paulis for "
    "conjugated_by/after/before (thorough: all; quick: blake2(seed,index) mod 8 == 0). Random: Pauli strings on <=5 "
    "wires built by every constructor (dict / kwargs / product of ops / DensePauliString.on / MutablePauliString) with "
    "coefficients in {+-1,+-i} or drawn complex numbers; triples for associativity/distributivity; PauliSums from "
    "strings, scalars, gates, boolean expressions; powers; phasors, sum exponentials, Pauli measurements, projectors; "
    "expectation values for drawn states and arbitrary (permuted, superset) qubit maps and through both simulators; "
    "conjugation by drawn Clifford circuits over every Clifford gate family. Oracle: matrices from textbook sigmas. "
    "Non-trivial: a Y factor and a coefficient != 1, or a conjugator that changes the support. Distinct = recipe hash."
)
ASSUMPTIONS = [
    "oracle matrices: kron of textbook sigma matrices (vf.ref.linalg), dense matrix products, eigen-projector formula "
    "for rotations exp(i*pi*t) on the -1/+1 eigenspaces; conjugators: own BFS word matrices (exhaustive parts) or "
    "cirq.unitary(op) of each single Clifford operation (random circuits; C13/C03 decide those)",
    "in-place MutablePauliString products are specified through the immutable product they implement: "
    "inplace_left_multiply_by(b) == a*b, inplace_right_multiply_by(b) == b*a, m *= b == b*a (naming not judged)",
    "exponentials of sums are compared as the ordered product of their rotation factors, up to global phase "
    "(PauliSumExponential.matrix() is not judged)",
    "tolerances: 1e-9 for exact Pauli arithmetic, 1e-7 for unitaries/expectations (complex128), 2e-5 for complex64 states",
]
SENSITIVITY = [
    "_imul_atom_helper phase table entry",
    "_calc_conjugation uses the tableau instead of its inverse",
    "DensePauliString.__mul__ phase from swapped operands",
    "expectation_from_density_matrix applies the Pauli on the column index",
    "expectation_from_state_vector without conjugating the bra",
    "to_z_basis_ops maps Y to -Z",
    "PauliSum.__rmul__ multiplies on the wrong side",
    "PauliString.__rsub__ sign",
    "sparse_matrix little-endian bit position",
    "after() does not invert the operations",
    "conjugated_by applies the operations in circuit order",
    "inplace_before applies the operations in circuit order",
    "_calc_conjugation Y = -iXZ",
    "from_boolean_expression Xor coefficient",
    "PauliSumExponential swaps the phasor exponents",
    "PauliMeasurementGate ignores the -1 coefficient",
    "ProjectorString.expectation_from_density_matrix indexes only the rows",
    "PauliString.__pow__ multi-qubit drops the coefficient phase on the negative eigenspace",
    "PauliString.__rpow__ half-turn sign",
    "DensePauliString.__pow__ coefficient index",
    "Simulator.simulate_expectation_values maps qubits in sorted order",
    "PauliInteractionGate inverted eigenprojector of qubit 1",
    "PauliSum.__neg__ leaves one-term sums unchanged",
    "phasor decomposition counts identity positions in the parity (reverts the fix)",
    "dense * sparse drops the sparse coefficient (reverts the fix)",
    "single-qubit PauliString power ignores the coefficient (reverts the fix)",
    "apply_unitary decomposition mutates before giving up (reverts the fix)",
]

Q = cirq.LineQubit.range(6)
PG = {"X": cirq.X, "Y": cirq.Y, "Z": cirq.Z, "I": cirq.I}
UNIT = [1, 1j, -1, -1j]
TOL = 1e-7


def _seed() -> str:
    a = sys.argv
    for i, x in enumerate(a):
        if x == "--seed" and i + 1 < len(a):
            return a[i + 1]
        if x.startswith("--seed="):
            return x.split("=", 1)[1]
    return os.environ.get("VERIF_SEED") or "1"


def _in_slice(i: int, denom: int = 8) -> bool:
    h = hashlib.blake2b(f"c14|{_seed()}|{i}".encode(), digest_size=4).digest()
    return int.from_bytes(h, "big") % denom == 0


def _coef(c) -> complex:
    """recipe coefficient: int k -> i**k ; [re, im] -> complex."""
    if isinstance(c, (list, tuple)):
        return complex(float(c[0]), float(c[1]))
    return UNIT[int(c) % 4]


def _mat(label: str, c: complex = 1.0) -> np.ndarray:
    return L.pauli_string_matrix(label, c)


def _eq(what, got, want, tol=1e-9):
    got, want = np.asarray(got), np.asarray(want)
    if got.shape != want.shape:
        raise Violation(f"{what}: shape {got.shape} != expected {want.shape}")
    d = L.max_abs_diff(got, want)
    if not d <= tol:
        raise Violation(f"{what}: matrix differs from the reference by {d:.3g}")


def _phase_eq(what, got, want, tol=TOL):
    got, want = np.asarray(got), np.asarray(want)
    if got.shape != want.shape:
        raise Violation(f"{what}: shape {got.shape} != expected {want.shape}")
    d = L.diff_up_to_phase(got, want)
    if not d <= tol:
        raise Violation(f"{what}: differs (up to global phase) from the reference by {d:.3g}")


def _scalar_eq(what, got, want, tol=TOL):
    if isinstance(got, np.ndarray):
        got = got.item()
    if not abs(complex(got) - complex(want)) <= tol:
        raise Violation(f"{what}: {complex(got):.8g} != reference {complex(want):.8g}")


def _build_ps(label: str, coeff: complex, qs, how: str = "dict"):
    """cirq.PauliString with the given label (I allowed) on the wires qs, by one of the constructors."""
    label = (label + "I" * len(qs))[: len(qs)]
    items = [(q, ch) for q, ch in zip(qs, label) if ch != "I"]
    if how == "dict":
        return cirq.PauliString({q: PG[ch] for q, ch in zip(qs, label)}, coefficient=coeff)
    if how == "kw":
        return cirq.PauliString(qubit_pauli_map={q: PG[ch] for q, ch in items}, coefficient=coeff)
    if how == "ops":
        out = cirq.PauliString(coefficient=coeff)
        for q, ch in items:
            out = out * PG[ch](q)
        return out
    if how == "args":
        return cirq.PauliString(coeff, *[PG[ch](q) for q, ch in items])
    if how == "rmul":
        out = cirq.PauliString()
        for q, ch in items[::-1]:
            out = PG[ch](q) * out
        return coeff * out
    if how == "dense":
        return cirq.DensePauliString(label, coefficient=coeff).on(*qs)
    if how == "mutable":
        return cirq.MutablePauliString({q: ch for q, ch in zip(qs, label)}, coefficient=coeff).frozen()
    if how == "mutable2":
        m = cirq.MutablePauliString(coefficient=coeff)
        for q, ch in items:
            m[q] = ch
        return m.frozen()
    if how == "strs":
        return cirq.PauliString({q: ch.lower() for q, ch in zip(qs, label)}, coeff)
    raise ValueError(how)


HOWS = ["dict", "kw", "ops", "args", "rmul", "dense", "mutable", "mutable2", "strs"]


def _expect_ps(label, coeff, qs):
    return cirq.PauliString(qubit_pauli_map={q: PG[ch] for q, ch in zip(qs, label) if ch != "I"}, coefficient=coeff)


def _check_ps(what, got, label, coeff, qs, tol=1e-9, exact_obj=True):
    """got is a PauliString whose matrix on qs must be coeff*sigma(label); also the object itself must equal it."""
    if not isinstance(got, cirq.PauliString):
        raise Violation(f"{what}: result is {type(got).__name__}, not a PauliString")
    extra = set(got.qubits) - set(qs)
    if extra:
        raise Violation(f"{what}: result acts on foreign qubits {sorted(extra)}")
    _eq(what, got.matrix(qs), _mat(label, coeff), tol)
    if exact_obj:
        want = _expect_ps(label, coeff, qs)
        if not cirq.approx_eq(got, want, atol=tol) and not (got.equal_up_to_coefficient(want) and abs(complex(got.coefficient) - coeff) <= tol):
            raise Violation(f"{what}: {got!r} is not {want!r}")


def _mul_labels(a: str, b: str):
    """(label, phase) of sigma(a) sigma(b) by the textbook single-qubit table (independent of Cirq)."""
    nxt = {"X": "Y", "Y": "Z", "Z": "X"}
    ph = 1
    out = []
    for x, y in zip(a, b):
        if x == "I":
            out.append(y)
        elif y == "I":
            out.append(x)
        elif x == y:
            out.append("I")
        else:
            z = ({"X", "Y", "Z"} - {x, y}).pop()
            out.append(z)
            ph *= 1j if nxt[x] == y else -1j
    return "".join(out), ph


# =========================================================================================== exhaustive pairs


def _pair_recipes(tier):
    labs = CG.pauli_labels(2)
    return [{"a": a, "ca": ca, "b": b, "cb": cb} for a in labs for b in labs for ca in range(4) for cb in range(4)]


def oracle_pairs(r):
    qs = Q[:2]
    a, b = r["a"], r["b"]
    ca, cb = _coef(r["ca"]), _coef(r["cb"])
    A, B = _mat(a, ca), _mat(b, cb)
    pa, pb = _build_ps(a, ca, qs), _build_ps(b, cb, qs)
    _eq("matrix(a)", pa.matrix(qs), A)
    lab, ph = _mul_labels(a, b)
    _eq("reference self-test", _mat(lab, ph * ca * cb), A @ B)
    cab = ph * ca * cb
    _check_ps("a*b", pa * pb, lab, cab, qs)
    if hash(pa * pb) != hash(_expect_ps(lab, cab, qs)):
        raise Violation("hash(a*b) != hash of the equal string")
    comm = bool(np.allclose(A @ B, B @ A))
    if cirq.commutes(pa, pb) != comm:
        raise Violation(f"cirq.commutes(a, b) = {cirq.commutes(pa, pb)} but matrices commute: {comm}")
    lab_ba, ph_ba = _mul_labels(b, a)
    cba = ph_ba * ca * cb
    # in-place products, pinned through the immutable product they implement
    m = pa.mutable_copy()
    ret = m.inplace_left_multiply_by(pb)
    if ret is not m:
        raise Violation("inplace_left_multiply_by does not return self")
    _check_ps("MutablePauliString(a).inplace_left_multiply_by(b) vs a*b", m.frozen(), lab, cab, qs)
    m = pa.mutable_copy()
    m.inplace_right_multiply_by(pb)
    _check_ps("MutablePauliString(a).inplace_right_multiply_by(b) vs b*a", m.frozen(), lab_ba, cba, qs)
    m = pa.mutable_copy()
    m *= pb
    _check_ps("m = a; m *= b vs b*a", m.frozen(), lab_ba, cba, qs)
    _check_ps("MutablePauliString(a) * b", pa.mutable_copy() * pb, lab, cab, qs)
    _check_ps("a * MutablePauliString(b)", pa * pb.mutable_copy(), lab, cab, qs)
    if pa.mutable_copy() != pa.mutable_copy() or (pa.mutable_copy() == pb.mutable_copy()) != (a == b and ca == cb):
        raise Violation("MutablePauliString equality inconsistent with contents")
    # dense forms
    da, db = pa.dense(qs), pb.dense(qs)
    _eq("unitary(a.dense(qs))", cirq.unitary(da), A)
    if da.on(*qs) != pa:
        raise Violation("a.dense(qs).on(*qs) != a (documented invariant)")
    dab = da * db
    _eq("dense(a)*dense(b)", cirq.unitary(dab), A @ B)
    md = da.mutable_copy()
    md *= db
    _eq("m = dense(a); m *= dense(b)", cirq.unitary(md), A @ B)
    if cirq.commutes(da, db) != comm:
        raise Violation(f"cirq.commutes(dense a, dense b) = {cirq.commutes(da, db)} but matrices commute: {comm}")
    _eq("dense(a).tensor_product(dense(b))", cirq.unitary(da.tensor_product(db)), np.kron(A, B))
    _eq("-dense(a)", cirq.unitary(-da), -A)
    _eq("dense(a)**-1", cirq.unitary(da ** -1), np.linalg.inv(A))
    _eq("dense(a)**2", cirq.unitary(da ** 2), A @ A)
    _eq("dense(a)**3", cirq.unitary(da ** 3), A @ A @ A)
    # linear structure
    _eq("a+b", (pa + pb).matrix(qs), A + B)
    _eq("a-b", (pa - pb).matrix(qs), A - B)
    _eq("-a", (-pa).matrix(qs), -A)
    _eq("a*2.5", (pa * 2.5).matrix(qs), 2.5 * A)
    _eq("(1-2j)*a", ((1 - 2j) * pa).matrix(qs), (1 - 2j) * A)
    _eq("a/(2j)", (pa / 2j).matrix(qs), A / 2j)
    _eq("a**-1", (pa ** -1).matrix(qs), np.linalg.inv(A))
    if (+pa) != pa:
        raise Violation("+a != a")
    same = a == b and ca == cb
    if (pa == pb) != same or (same and hash(pa) != hash(pb)):
        raise Violation(f"a == b is {pa == pb} but the matrices are {'equal' if same else 'different'}")
    if pa.equal_up_to_coefficient(pb) != (a == b):
        raise Violation("equal_up_to_coefficient inconsistent with the Pauli labels")
    # one string conjugating the other (a Pauli string with a unit coefficient is a Clifford operation)
    if b != "II":
        Bd = B.conj().T
        want = CG.identify_pauli(Bd @ A @ B)
        _check_ps("a.conjugated_by(b) vs B^dagger A B", pa.conjugated_by(pb), want[0], want[1], qs)
        _check_ps("a.before(b) vs B^dagger A B", pa.before(pb), want[0], want[1], qs)
        want2 = CG.identify_pauli(B @ A @ Bd)
        _check_ps("a.after(b) vs B A B^dagger", pa.after(pb), want2[0], want2[1], qs)
        _check_ps("a.pass_operations_over([b]) vs B^-1 A B", pa.pass_operations_over([pb]), want[0], want[1], qs)
        _check_ps("a.pass_operations_over([b], after_to_before=True) vs B A B^-1", pa.pass_operations_over([pb], after_to_before=True),
                  want2[0], want2[1], qs)
        m = pa.mutable_copy()
        m.inplace_after(pb)
        _check_ps("MutablePauliString(a).inplace_after(b)", m.frozen(), want2[0], want2[1], qs)
        m = pa.mutable_copy()
        m.inplace_before(pb)
        _check_ps("MutablePauliString(a).inplace_before(b)", m.frozen(), want[0], want[1], qs)
    has_y = "Y" in a or "Y" in b
    return {"nontrivial": bool(has_y and (r["ca"] % 4 or r["cb"] % 4)), "commute": comm, "has_y": has_y}


# =========================================================================================== Clifford conjugation


def _conj1_recipes(tier):
    words, _ = CG.group1()
    return [{"w": w, "p": p, "c": c} for w in words for p in "XYZ" for c in range(4)]


def _check_conj(what_ops, pstr, label, coeff, ops, U, axes, qs, n):
    """conjugated_by / before / after / in-place versions of the string by ops whose matrix on `axes` is U."""
    Uf = L.embed(U, axes, [2] * n)
    P = _mat(label, coeff)
    before = CG.identify_pauli(Uf.conj().T @ P @ Uf / coeff)
    after = CG.identify_pauli(Uf @ P @ Uf.conj().T / coeff)
    if before is None or after is None:
        raise Violation(f"{what_ops}: reference conjugate is not a Pauli string (operation is not Clifford?)")
    _check_ps(f"conjugated_by({what_ops}) vs C^dagger P C", pstr.conjugated_by(ops), before[0], before[1] * coeff, qs, TOL)
    _check_ps(f"before({what_ops}) vs C^dagger P C", pstr.before(ops), before[0], before[1] * coeff, qs, TOL)
    _check_ps(f"after({what_ops}) vs C P C^dagger", pstr.after(ops), after[0], after[1] * coeff, qs, TOL)
    m = pstr.mutable_copy()
    if m.inplace_after(ops) is not m:
        raise Violation("inplace_after does not return self")
    _check_ps(f"inplace_after({what_ops}) vs C P C^dagger", m.frozen(), after[0], after[1] * coeff, qs, TOL)
    m = pstr.mutable_copy()
    m.inplace_before(ops)
    _check_ps(f"inplace_before({what_ops}) vs C^dagger P C", m.frozen(), before[0], before[1] * coeff, qs, TOL)
    return before, after


def oracle_conj1(r):
    U = CG.word_matrix(r["w"], 1)
    c = _coef(r["c"])
    qs = Q[:2]
    g = cirq.SingleQubitCliffordGate.from_unitary(U)
    forms = {
        "SingleQubitCliffordGate": g.on(qs[0]),
        "word ops": CO.word_ops(r["w"], [qs[0]]),
        "PhasedXZGate": g.to_phased_xz_gate().on(qs[0]),
        "MatrixGate": cirq.MatrixGate(U * np.exp(0.3j)).on(qs[0]),
        "nested op tree": [[op] for op in CO.word_ops(r["w"], [qs[0]])],
    }
    moved = False
    for spect in ("I", "Z", "Y"):
        label = r["p"] + spect
        pstr = _build_ps(label, c, qs)
        for name, ops in forms.items():
            if name != "SingleQubitCliffordGate" and spect == "Y":
                continue
            if name in ("word ops", "nested op tree") and not r["w"]:
                continue
            before, after = _check_conj(name, pstr, label, c, ops, U, [0], qs, 2)
            moved = moved or before[0] != label
        # pass_operations_over: documented C^-1 P C for ops *before* the string
        want = CG.identify_pauli(L.embed(U, [0], [2, 2]).conj().T @ _mat(label) @ L.embed(U, [0], [2, 2]))
        _check_ps("pass_operations_over([gate])", pstr.pass_operations_over([g.on(qs[0])]), want[0], want[1] * c, qs, TOL)
    # a Clifford acting on a qubit the string does not touch leaves it alone
    pstr = _build_ps(r["p"], c, qs[:1])
    if pstr.conjugated_by(g.on(qs[1])) != pstr or pstr.after(g.on(qs[1])) != pstr:
        raise Violation("conjugation by a Clifford on a disjoint qubit changes the string")
    return {"nontrivial": bool(moved and r["c"] % 4), "moved": moved}


def _conj2_recipes(tier):
    words, _ = CG.group2()
    idx = range(len(words)) if tier == "thorough" else [i for i in range(len(words)) if _in_slice(i)]
    return [{"i": i, "w": words[i]} for i in idx]


def oracle_conj2(r):
    w = r["w"]
    U = CG.word_matrix(w, 2)
    Ud = U.conj().T
    qs = Q[:2]
    ops = CO.word_ops(w, qs)
    gate_op = cirq.CliffordGate.from_op_list(ops, qs).on(*qs)
    moved = 0
    neg = 0
    labels = CG.pauli_labels(2)
    pick = int(r.get("i", 0))
    for j, lab in enumerate(labels):
        if lab == "II":
            continue
        P = _mat(lab)
        before = CG.identify_pauli(Ud @ P @ U)
        after = CG.identify_pauli(U @ P @ Ud)
        pstr = _build_ps(lab, 1, qs, "kw")
        if ops:
            _check_ps("conjugated_by(word ops) vs C^dagger P C", pstr.conjugated_by(ops), before[0], before[1], qs)
            if (j + pick) % 4 == 0:
                _check_ps("after(word ops) vs C P C^dagger", pstr.after(ops), after[0], after[1], qs)
        _check_ps("before(CliffordGate op) vs C^dagger P C", pstr.before(gate_op), before[0], before[1], qs)
        _check_ps("after(CliffordGate op) vs C P C^dagger", pstr.after(gate_op), after[0], after[1], qs)
        moved += before[0] != lab
        neg += before[1].real < 0
    return {"nontrivial": bool(moved and neg), "moved": min(moved, 15), "wordlen": min(len(w), 13)}


# =========================================================================================== random strings: strategies


def _coefs(unit_only=False):
    if unit_only:
        return st.integers(0, 3)
    return st.one_of(st.integers(0, 3), st.integers(0, 3),
                     st.tuples(G.small_floats(), G.small_floats()).map(lambda t: [t[0] * 3, t[1] * 3]),
                     st.sampled_from([[0.0, 0.0], [2.0, 0.0], [-0.5, 0.0], [0.0, 1e-9], [1e-9, 0.0]]))


def _real_coefs():
    return st.one_of(st.sampled_from([[1.0, 0.0], [-1.0, 0.0], [0.5, 0.0], [-2.0, 0.0], [0.0, 0.0]]),
                     G.small_floats().map(lambda x: [x * 3, 0.0]))


@st.composite
def _pstring(draw, n, coefs=None, min_weight=0):
    lab = "".join(draw(st.lists(st.sampled_from("IXYZ" + "XYZ"), min_size=n, max_size=n)))
    if sum(ch != "I" for ch in lab) < min_weight:
        lab = "Y" + lab[1:]
    return {"ps": lab, "c": draw(coefs if coefs is not None else _coefs()), "how": draw(st.sampled_from(HOWS))}


def _reg(draw, lo=1, hi=5):
    n = draw(st.integers(lo, hi))
    names = list(draw(st.permutations(list(range(n + 2)))))[:n]
    return n, names


def _qubits(r):
    n = int(r["n"])
    names = [int(x) for x in r["names"]][:n]
    if len(set(names)) != n or n < 1:
        raise ValueError("malformed register")
    return [cirq.LineQubit(x) for x in names]


def _string(d, qs):
    lab = (d["ps"] + "I" * len(qs))[: len(qs)]
    c = _coef(d["c"])
    return _build_ps(lab, c, qs, d.get("how", "dict")), lab, c


# ------------------------------------------------------------------------------------------- algebra on triples


@st.composite
def _algebra_case(draw):
    n, names = _reg(draw)
    return {"n": n, "names": names, "a": draw(_pstring(n)), "b": draw(_pstring(n)), "c": draw(_pstring(n)),
            "s": draw(st.tuples(G.small_floats(), G.small_floats()).map(lambda t: [t[0] * 2, t[1] * 2])),
            "order": list(draw(st.permutations(list(range(n))))), "extra": draw(st.booleans()), "pow": draw(st.integers(0, 4)),
            "dense_mixed": draw(st.booleans())}


def oracle_algebra(r):
    qs = _qubits(r)
    n = len(qs)
    (pa, la, ca), (pb, lb, cb), (pc, lc, cc) = _string(r["a"], qs), _string(r["b"], qs), _string(r["c"], qs)
    A, B, C = _mat(la, ca), _mat(lb, cb), _mat(lc, cc)
    s = complex(*r["s"])
    tol = 1e-9 * (1 + max(abs(ca), abs(cb), abs(cc), 1) ** 3)
    _check_ps(f"string built via {r['a'].get('how')}", pa, la, ca, qs, tol)
    lab, ph = _mul_labels(la, lb)
    _check_ps("a*b", pa * pb, lab, ph * ca * cb, qs, tol)
    _eq("(a*b)*c", ((pa * pb) * pc).matrix(qs), A @ B @ C, tol)
    _eq("a*(b*c)", (pa * (pb * pc)).matrix(qs), A @ B @ C, tol)
    if not cirq.approx_eq((pa * pb) * pc, pa * (pb * pc), atol=1e-8):
        raise Violation("(a*b)*c != a*(b*c)")
    # matrix in a permuted / extended qubit order
    order = [qs[i] for i in r["order"] if i < n]
    if len(order) == n:
        if r.get("extra"):
            order = order + [cirq.LineQubit(99)]
        perm = [qs.index(q) for q in order if q in qs]
        labp = "".join(la[i] for i in perm) + ("I" if r.get("extra") else "")
        _eq("a.matrix(permuted/extended qubit order)", pa.matrix(order), _mat(labp, ca), tol)
        _eq("a.sparse_matrix(permuted/extended qubit order)", pa.sparse_matrix(order).toarray(), _mat(labp, ca), tol)
        _eq("(a+b).matrix(permuted/extended qubit order)", (pa + pb).matrix(order),
            _mat(labp, ca) + _mat("".join(lb[i] for i in perm) + ("I" if r.get("extra") else ""), cb), tol)
        _eq("(a+b).sparse_matrix(permuted/extended qubit order)", (pa + pb).sparse_matrix(order).toarray(), (pa + pb).matrix(order), tol)
        # relabelling qubits
        new = [cirq.NamedQubit(f"n{i}") for i in range(n)]
        mp = pa.map_qubits(dict(zip(qs, new)))
        _eq("a.map_qubits", mp.matrix(new), A, tol)
        if len(pa.qubits) > 0:
            tgt = [cirq.GridQubit(0, i) for i in range(len(pa.qubits))]
            wq = pa.with_qubits(*tgt)
            _eq("a.with_qubits", wq.matrix(tgt), pa.matrix(pa.qubits), tol)
        tq = pa.mutable_copy().transform_qubits(lambda q: cirq.LineQubit(q.x + 100)).frozen()
        _eq("MutablePauliString.transform_qubits", tq.matrix([cirq.LineQubit(q.x + 100) for q in qs]), A, tol)
    # sums
    sa = cirq.PauliSum.from_pauli_strings([pa, pb, pc])
    _eq("PauliSum.from_pauli_strings([a,b,c])", sa.matrix(qs), A + B + C, tol)
    _eq("a+b+c", (pa + pb + pc).matrix(qs), A + B + C, tol)
    _eq("a-b-c", (pa - pb - pc).matrix(qs), A - B - C, tol)
    _eq("a*(b+c)", (pa * (pb + pc)).matrix(qs), A @ (B + C), tol)
    _eq("(b+c)*a", ((pb + pc) * pa).matrix(qs), (B + C) @ A, tol)
    if not cirq.approx_eq(pa * (pb + pc), pa * pb + pa * pc, atol=1e-7):
        raise Violation("a*(b+c) != a*b + a*c")
    _eq("(a+b)*(b+c)", ((pa + pb) * (pb + pc)).matrix(qs), (A + B) @ (B + C), tol)
    _eq("s*(a+b)", (s * (pa + pb)).matrix(qs), s * (A + B), tol)
    _eq("(a+b)*s", ((pa + pb) * s).matrix(qs), s * (A + B), tol)
    if abs(s) > 1e-3:
        _eq("(a+b)/s", ((pa + pb) / s).matrix(qs), (A + B) / s, tol / abs(s) + 1e-9)
    _eq("-(a+b)", (-(pa + pb)).matrix(qs), -(A + B), tol)
    _eq("s + a", (s + pa).matrix(qs), s * np.eye(2 ** n) + A, tol)
    _eq("a - s", (pa - s).matrix(qs), A - s * np.eye(2 ** n), tol)
    _eq("s - a", (s - pa).matrix(qs), s * np.eye(2 ** n) - A, tol)
    _eq("(a+b) - s", ((pa + pb) - s).matrix(qs), A + B - s * np.eye(2 ** n), tol)
    _eq("s - (a+b)", (s - (pa + pb)).matrix(qs), s * np.eye(2 ** n) - A - B, tol)
    _eq("PauliSum.wrap(s)", cirq.PauliSum.wrap(s).matrix(qs), s * np.eye(2 ** n), tol)
    _eq("PauliSum.wrap(a)", cirq.PauliSum.wrap(pa).matrix(qs), A, tol)
    k = int(r["pow"])
    _eq(f"(a+b)**{k}", ((pa + pb) ** k).matrix(qs), np.linalg.matrix_power(A + B, k), tol * 8 ** k)
    acc = cirq.PauliSum()
    acc += pa
    acc -= pb
    acc *= pc
    acc *= s
    _eq("in-place PauliSum: ((a - b) * c) * s", acc.matrix(qs), (A - B) @ C * s, tol)
    # sums with gates (single-qubit Pauli operations are PauliSum-like)
    gq = qs[0]
    X0 = _mat("X" + "I" * (n - 1))
    _eq("(a+b) + X(q0)", ((pa + pb) + cirq.X(gq)).matrix(qs), A + B + X0, tol)
    _eq("X(q0) + a", (cirq.X(gq) + pa).matrix(qs), A + X0, tol)
    _eq("X(q0) - a", (cirq.X(gq) - pa).matrix(qs), X0 - A, tol)
    _eq("X(q0) * a", (cirq.X(gq) * pa).matrix(qs), X0 @ A, tol)
    _eq("a * X(q0)", (pa * cirq.X(gq)).matrix(qs), A @ X0, tol)
    _eq("X(q0) * (a+b)", (cirq.X(gq) * (pa + pb)).matrix(qs), X0 @ (A + B), tol)
    _eq("(a+b) * X(q0)", ((pa + pb) * cirq.X(gq)).matrix(qs), (A + B) @ X0, tol)
    comm = bool(np.allclose(_mat(la) @ _mat(lb), _mat(lb) @ _mat(la)))
    if cirq.commutes(pa, pb) != comm:
        raise Violation(f"cirq.commutes(a,b) = {cirq.commutes(pa, pb)} but the Pauli parts commute: {comm}")
    # dense <-> sparse
    d = pa.dense(qs)
    _eq("unitary-like matrix of a.dense(qs)", complex(d.coefficient) * L.pauli_string_matrix("".join("IXYZ"[int(m)] for m in d.pauli_mask)), A, tol)
    if d.on(*qs) != pa or d.sparse(qs) != pa:
        raise Violation("a.dense(qs).on(*qs) != a")
    if pa.gate.on(*pa.qubits) != pa:
        raise Violation("a.gate.on(*a.qubits) != a")
    # products of dense strings with sparse operations keep coefficients
    if r.get("dense_mixed"):
        dl = cirq.DensePauliString(la, coefficient=ca)
        line = cirq.LineQubit.range(n)
        pbl, _, _ = _string(r["b"], line)
        dm = dl * pbl
        _eq("DensePauliString(a) * PauliString(b on LineQubits)", complex(dm.coefficient) * L.pauli_string_matrix(
            ("".join("IXYZ"[int(m)] for m in dm.pauli_mask) + "I" * n)[:n]), A @ B, tol)
        try:
            dm = pbl * dl
        except TypeError:
            raise Violation("PauliString(b on LineQubits) * DensePauliString(a) raises TypeError (the mirrored product is defined)")
        _eq("PauliString(b on LineQubits) * DensePauliString(a)", complex(dm.coefficient) * L.pauli_string_matrix(
            ("".join("IXYZ"[int(m)] for m in dm.pauli_mask) + "I" * n)[:n]), B @ A, tol)
        md = dl.mutable_copy()
        md *= pbl
        _eq("m = MutableDensePauliString(a); m *= PauliString(b)", complex(md.coefficient) * L.pauli_string_matrix(
            "".join("IXYZ"[int(m)] for m in md.pauli_mask)), A @ B, tol)
    has_y = "Y" in la + lb + lc
    nonunit = any(abs(x - 1) > 1e-9 for x in (ca, cb, cc))
    return {"nontrivial": bool(has_y and nonunit), "n": n, "how": r["a"].get("how", "dict"), "complex_coeff": isinstance(r["a"]["c"], list),
            "commute_ab": comm}


# ------------------------------------------------------------------------------------------- Clifford circuits


@st.composite
def _conj_case(draw):
    n, names = _reg(draw, 1, 5)
    ops = draw(st.lists(CO.unitary_op(n), min_size=1, max_size=6))
    nz = st.one_of(st.integers(0, 3), st.integers(0, 3), st.tuples(G.small_floats(), G.small_floats()).map(lambda t: [t[0] * 3 + 0.01, t[1] * 3]))
    return {"n": n, "names": names, "a": draw(_pstring(n, coefs=nz, min_weight=1)), "ops": ops, "neg": draw(st.sampled_from([0.5, 0.25, -0.3, 1.0])),
            "pos": draw(st.sampled_from([0.0, 0.1, -0.5]))}


def oracle_conj_random(r):
    qs = _qubits(r)
    n = len(qs)
    pa, la, ca = _string(r["a"], qs)
    if abs(ca) < 1e-6:
        raise Reject("zero coefficient")
    ops = []
    for o in r["ops"]:
        op = CO.build_op(o, qs)
        if cirq.has_stabilizer_effect(op) and len(op.qubits) > 0:
            ops.append(op)
    if not ops:
        raise Reject("no Clifford operation left")
    U = np.eye(2 ** n, dtype=complex)
    for op in ops:
        U = L.embed(cirq.unitary(op), [qs.index(q) for q in op.qubits], [2] * n) @ U
    before, after = _check_conj("drawn Clifford circuit", pa, la, ca, ops, U, list(range(n)), qs, n)
    # single operation forms and the deprecated pass_operations_over on one op (no ordering question)
    op = ops[0]
    U0 = L.embed(cirq.unitary(op), [qs.index(q) for q in op.qubits], [2] * n)
    b0 = CG.identify_pauli(U0.conj().T @ _mat(la) @ U0)
    _check_ps(f"pass_operations_over([{r['ops'][0]['k']}]) vs C^-1 P C", pa.pass_operations_over([op]), b0[0], b0[1] * ca, qs, TOL)
    # conjugating a phasor conjugates its string (documented C^dagger P C)
    if abs(abs(ca) - 1) < 1e-9 and abs(ca.imag) < 1e-9 and len(pa.qubits) > 0:
        ph = cirq.PauliStringPhasor(pa, exponent_neg=r["neg"], exponent_pos=r["pos"])
        got = ph.conjugated_by(ops)
        want = U.conj().T @ _phasor_matrix(la, ca.real, r["neg"], r["pos"]) @ U
        full = L.embed(cirq.unitary(got), [qs.index(q) for q in got.qubits], [2] * n) if got.qubits else cirq.unitary(got) * np.eye(2 ** n)
        _eq("PauliStringPhasor.conjugated_by(ops) vs C^dagger E C", full, want, TOL * (1 + len(ops)))
    kinds = sorted({o["k"] for o in r["ops"]})
    return {"nontrivial": bool(before[0] != la and ("Y" in la or abs(ca - 1) > 1e-9)), "moved": before[0] != la, "n": n,
            "support_changed": {i for i, ch in enumerate(before[0]) if ch != "I"} != {i for i, ch in enumerate(la) if ch != "I"},
            "kind0": r["ops"][0]["k"]}


def _phasor_matrix(label, sign, neg, pos):
    """exp(i pi pos) on the +1 eigenspace and exp(i pi neg) on the -1 eigenspace of sign*sigma(label)."""
    P = sign * L.pauli_string_matrix(label)
    d = P.shape[0]
    return np.exp(1j * np.pi * pos) * (np.eye(d) + P) / 2 + np.exp(1j * np.pi * neg) * (np.eye(d) - P) / 2


# ------------------------------------------------------------------------------------------- expectation values


@st.composite
def _expect_case(draw):
    n, names = _reg(draw, 1, 4)
    extra = draw(st.integers(0, 2 if n < 4 else 1))  # state lives on n + extra qubits
    m = n + extra
    positions = list(draw(st.permutations(list(range(m)))))[:n]  # wire i of the string sits at state axis positions[i]
    terms = draw(st.lists(_pstring(n, coefs=_real_coefs()), min_size=1, max_size=4))
    D = 2 ** m
    return {"n": n, "names": names, "m": m, "pos": positions, "terms": terms,
            "state": draw(st.lists(G.small_floats(), min_size=2 * D, max_size=2 * D)),
            "state2": draw(st.lists(G.small_floats(), min_size=2 * D, max_size=2 * D)), "mix": draw(st.sampled_from([0.0, 0.3, 0.5, 1.0])),
            "dtype": draw(st.sampled_from(["c128", "c128", "c64"])), "tensor": draw(st.booleans()),
            "superset_map": draw(st.booleans())}


def oracle_expect(r):
    qs = _qubits(r)
    n, m = len(qs), int(r["m"])
    pos = [int(p) for p in r["pos"]][:n]
    if len(set(pos)) != n or any(p >= m or p < 0 for p in pos) or m > 6:
        raise ValueError("malformed positions")
    D = 2 ** m
    psi = L.state_from_floats(r["state"], D)
    psi2 = L.state_from_floats(r["state2"], D)
    w = float(r["mix"])
    rho = (1 - w) * np.outer(psi, psi.conj()) + w * np.outer(psi2, psi2.conj())
    dt = np.complex64 if r["dtype"] == "c64" else np.complex128
    tol = 2e-5 if r["dtype"] == "c64" else TOL
    atol = 1e-5 if r["dtype"] == "c64" else 1e-7  # tolerance of the documented normalisation precondition
    qmap = {q: int(p) for q, p in zip(qs, pos)}
    if r.get("superset_map"):
        others = [p for p in range(m) if p not in pos]
        for j, p in enumerate(others):
            qmap[cirq.NamedQubit(f"spectator{j}")] = int(p)
    sv = psi.astype(dt)
    dm = rho.astype(dt)
    if r.get("tensor"):
        sv = sv.reshape((2,) * m)
        dm = dm.reshape((2, 2) * m)
    total_sv = total_dm = 0
    strings = []
    for d in r["terms"]:
        p, lab, c = _string(d, qs)
        full = ["I"] * m
        for i, ch in enumerate(lab):
            full[pos[i]] = ch
        M = _mat("".join(full), c)
        want_sv = np.vdot(psi, M @ psi)
        want_dm = np.trace(rho @ M)
        got = p.expectation_from_state_vector(sv, qmap, atol=atol)
        _scalar_eq(f"PauliString.expectation_from_state_vector ({lab})", got, want_sv, tol * (1 + abs(c)))
        got = p.expectation_from_density_matrix(dm, qmap, atol=atol)
        _scalar_eq(f"PauliString.expectation_from_density_matrix ({lab})", got, want_dm, tol * (1 + abs(c)))
        total_sv += want_sv
        total_dm += want_dm
        strings.append(p)
    psum = cirq.PauliSum.from_pauli_strings(strings)
    scale = 1 + sum(abs(_coef(d["c"])) for d in r["terms"])
    _scalar_eq("PauliSum.expectation_from_state_vector", psum.expectation_from_state_vector(sv, qmap, atol=atol), total_sv, tol * scale)
    _scalar_eq("PauliSum.expectation_from_density_matrix", psum.expectation_from_density_matrix(dm, qmap, atol=atol), total_dm, tol * scale)
    _scalar_eq("PauliSum.expectation_from_state_vector(check_preconditions=False)",
               psum.expectation_from_state_vector(sv, qmap, check_preconditions=False), total_sv, tol * scale)
    # projectors on the same register
    bits = [int(abs(x) * 10) % 2 for x in r["state"][:n]]
    keep = [i for i in range(n) if (int(abs(r["state2"][i]) * 10) % 3) != 0] or [0]
    pd = {qs[i]: bits[i] for i in keep}
    proj = cirq.ProjectorString(pd, coefficient=_coef(r["terms"][0]["c"]))
    full_map = {q: int(p) for q, p in zip(qs, pos)}
    others = [p for p in range(m) if p not in pos]
    for j, p in enumerate(others):
        full_map[cirq.NamedQubit(f"spectator{j}")] = int(p)
    order = sorted(full_map, key=lambda q: full_map[q])
    PM = np.zeros((D, D), dtype=complex)
    for idx in range(D):
        dig = L.index_to_digits(idx, [2] * m)
        if all(dig[full_map[q]] == b for q, b in pd.items()):
            PM[idx, idx] = proj.coefficient
    _eq("ProjectorString.matrix(all qubits)", proj.matrix(order).toarray(), PM, 1e-9)
    _scalar_eq("ProjectorString.expectation_from_state_vector", proj.expectation_from_state_vector(psi, full_map), np.vdot(psi, PM @ psi), TOL * 4)
    _scalar_eq("ProjectorString.expectation_from_density_matrix", proj.expectation_from_density_matrix(rho, full_map), np.trace(rho @ PM), TOL * 4)
    proj2 = cirq.ProjectorString({qs[0]: 1 - bits[0]}, coefficient=0.5)
    PM2 = np.zeros((D, D), dtype=complex)
    for idx in range(D):
        if L.index_to_digits(idx, [2] * m)[full_map[qs[0]]] == 1 - bits[0]:
            PM2[idx, idx] = 0.5
    ps_ = cirq.ProjectorSum.from_projector_strings([proj, proj2])
    _eq("ProjectorSum.matrix", ps_.matrix(order).toarray(), PM + PM2, 1e-9)
    _scalar_eq("ProjectorSum.expectation_from_state_vector", ps_.expectation_from_state_vector(psi, full_map), np.vdot(psi, (PM + PM2) @ psi), TOL * 4)
    _scalar_eq("ProjectorSum.expectation_from_density_matrix", ps_.expectation_from_density_matrix(rho, full_map), np.trace(rho @ (PM + PM2)), TOL * 4)
    _eq("(2*ProjectorSum - ProjectorString).matrix", (2 * ps_ - proj2).matrix(order).toarray(), 2 * PM + PM2, 1e-9)
    labs = "".join(d["ps"] for d in r["terms"])
    return {"nontrivial": bool("Y" in labs and pos != sorted(pos) or ("Y" in labs and m > n)), "permuted_map": pos != sorted(pos),
            "superset_state": m > n, "mixed": 0 < w < 1, "dtype": r["dtype"], "n_terms": len(r["terms"])}


@st.composite
def _sim_expect_case(draw):
    n, names = _reg(draw, 1, 4)
    ops = draw(st.lists(st.one_of(CO.unitary_op(n), st.fixed_dictionaries(
        {"k": st.just("G"), "g": G.gate_recipes(lambda f: f.unitary and not f.qudit and "zeroq" not in f.tags, max_arity=2),
         "w": st.permutations(list(range(n))).map(list)})), min_size=0, max_size=6))
    return {"n": n, "names": names, "ops": ops, "terms": draw(st.lists(st.lists(_pstring(n, coefs=_real_coefs()), min_size=1, max_size=3), min_size=1, max_size=3)),
            "order": list(draw(st.permutations(list(range(n))))), "init": draw(st.integers(0, 2 ** n - 1)),
            "noise": draw(st.sampled_from([0.0, 0.0, 0.1])), "permit_terminal": draw(st.booleans())}


def oracle_sim_expect(r):
    """Simulator / DensityMatrixSimulator simulate_expectation_values == <psi|O|psi> / tr(rho O)."""
    qs = _qubits(r)
    n = len(qs)
    order = [qs[i] for i in r["order"]]
    if sorted(r["order"]) != list(range(n)):
        raise ValueError("malformed order")
    circuit = cirq.Circuit()
    mats = []
    for o in r["ops"]:
        if o["k"] == "G":
            g = G.build_gate(o["g"])
            k = cirq.num_qubits(g)
            if k > n:
                continue
            op = g.on(*[qs[i] for i in o["w"][:k]])
        else:
            op = CO.build_op(o, qs)
        circuit.append(op)
        mats.append((cirq.unitary(op), [order.index(q) for q in op.qubits]))
    circuit.append(cirq.I.on_each(*qs))
    psi = L.apply_ops_to_vector(mats, [2] * n, L.basis_vector(int(r["init"]) % 2 ** n, 2 ** n))
    rho = np.outer(psi, psi.conj())
    p = float(r["noise"])
    if p:
        a = order.index(qs[0])
        ks = [np.sqrt(1 - p) * L.I2, np.sqrt(p / 3) * L.PX, np.sqrt(p / 3) * L.PY, np.sqrt(p / 3) * L.PZ]
        rho = L.apply_kraus_to_rho(ks, [a], [2] * n, rho)
    observables = []
    wants_sv, wants_dm = [], []
    for terms in r["terms"]:
        strings, M = [], np.zeros((2 ** n, 2 ** n), dtype=complex)
        for d in terms:
            s, lab, c = _string(d, qs)
            strings.append(s)
            M = M + _mat("".join(lab[qs.index(q)] for q in order), c)
        observables.append(strings[0] if len(strings) == 1 else cirq.PauliSum.from_pauli_strings(strings))
        wants_sv.append(np.vdot(psi, M @ psi))
        wants_dm.append(np.trace(rho @ M))
    init = int(r["init"]) % 2 ** n
    got = cirq.Simulator(dtype=np.complex128).simulate_expectation_values(circuit, observables, qubit_order=order, initial_state=init)
    if len(got) != len(observables):
        raise Violation(f"simulate_expectation_values returned {len(got)} values for {len(observables)} observables")
    for g_, w_ in zip(got, wants_sv):
        _scalar_eq("Simulator.simulate_expectation_values", g_, w_, TOL * (4 + len(mats)))
    c2 = circuit.copy()
    if p:
        c2.append(cirq.depolarize(p).on(qs[0]))
    got = cirq.DensityMatrixSimulator(dtype=np.complex128).simulate_expectation_values(c2, observables, qubit_order=order, initial_state=init)
    for g_, w_ in zip(got, wants_dm):
        _scalar_eq("DensityMatrixSimulator.simulate_expectation_values", g_, w_, TOL * (4 + len(mats)))
    if len(observables) == 1:
        got = cirq.Simulator(dtype=np.complex128).simulate_expectation_values(circuit, observables[0], qubit_order=order, initial_state=init)
        _scalar_eq("Simulator.simulate_expectation_values(single observable)", got[0], wants_sv[0], TOL * (4 + len(mats)))
    labs = "".join(d["ps"] for t in r["terms"] for d in t)
    return {"nontrivial": bool("Y" in labs and r["order"] != sorted(r["order"]) and len(mats) >= 2), "noisy": p > 0, "n": n,
            "permuted_order": r["order"] != sorted(r["order"])}


# ------------------------------------------------------------------------------------------- phasors / exponentials / powers


def _exps():
    return st.one_of(st.sampled_from([0.0, 0.5, -0.5, 1.0, 0.25, 1.5, -1.0, 2.0, 1 / 3]), st.floats(-2, 2, allow_nan=False).map(lambda x: round(x, 5)))


@st.composite
def _phasor_case(draw):
    n, names = _reg(draw, 1, 4)
    return {"n": n, "names": names, "a": draw(_pstring(n, coefs=st.sampled_from([0, 2]), min_weight=1)), "neg": draw(_exps()), "pos": draw(_exps()),
            "pow": draw(_exps()), "extra": draw(st.lists(st.integers(0, 4), max_size=2)),
            "sum": draw(st.lists(st.tuples(st.lists(st.sampled_from("IZ" + "Z"), min_size=n, max_size=n).map("".join), G.small_floats()), min_size=1, max_size=4)),
            "basis": draw(st.lists(st.sampled_from("XYZ"), min_size=n, max_size=n).map("".join)),
            "anti": draw(st.booleans()), "t": draw(_exps()), "base": draw(st.sampled_from([math.e, 2.0, 10.0, 1.5])),
            "pig": [draw(st.sampled_from("XYZ")), draw(st.booleans()), draw(st.sampled_from("XYZ")), draw(st.booleans())],
            "sym": draw(st.booleans()), "superset": draw(st.booleans()), "pc": draw(st.integers(0, 3))}


def oracle_phasor(r):
    qs = _qubits(r)
    n = len(qs)
    pa, la, ca = _string(r["a"], qs)
    sign = ca.real
    neg, pos = float(r["neg"]), float(r["pos"])
    sub = [q for q, ch in zip(qs, la) if ch != "I"]
    sublab = la.replace("I", "")
    want_sub = _phasor_matrix(sublab, sign, neg, pos)
    lab = {}
    if r.get("sym"):
        t = sympy.Symbol("t")
        ph = cirq.resolve_parameters(cirq.PauliStringPhasor(pa, exponent_neg=t, exponent_pos=pos), {"t": neg})
    else:
        ph = cirq.PauliStringPhasor(pa, exponent_neg=neg, exponent_pos=pos)
    if list(ph.qubits) != sub:
        raise Violation(f"PauliStringPhasor.qubits {ph.qubits} != qubits of its string {sub}")
    _eq("unitary(PauliStringPhasor) vs documented eigenspace phases", cirq.unitary(ph), want_sub, TOL)
    dec = cirq.decompose_once(ph)
    U = np.eye(2 ** len(sub), dtype=complex)
    for op in dec:
        U = L.embed(cirq.unitary(op), [sub.index(q) for q in op.qubits], [2] * len(sub)) @ U
    _eq("decomposition of PauliStringPhasor", U, want_sub, TOL)
    gate = cirq.PauliStringPhasorGate(cirq.DensePauliString(sublab, coefficient=sign), exponent_neg=neg, exponent_pos=pos)
    _eq("unitary(PauliStringPhasorGate)", cirq.unitary(gate), want_sub, TOL)
    e = float(r["pow"])
    # (the gate normalises a -1 coefficient away by swapping its exponents: its own exponents refer to +sigma(label))
    _eq(f"unitary(PauliStringPhasorGate**{e})", cirq.unitary(gate ** e), _phasor_matrix(sublab, 1, gate.exponent_neg * e, gate.exponent_pos * e), TOL)
    _eq(f"unitary(PauliStringPhasor**{e})", cirq.unitary(ph ** e), _phasor_matrix(sublab, 1, ph.exponent_neg * e, ph.exponent_pos * e), TOL)
    _eq("unitary(PauliStringPhasorGate) vs its own normalised exponents", cirq.unitary(gate), _phasor_matrix(sublab, 1, gate.exponent_neg, gate.exponent_pos), TOL)
    mg = ph.merged_with(cirq.PauliStringPhasor(pa, exponent_neg=pos, exponent_pos=e))
    _eq("unitary(phasor.merged_with(other))", cirq.unitary(mg), want_sub @ _phasor_matrix(sublab, sign, pos, e), TOL)
    new = [cirq.NamedQubit(f"m{i}") for i in range(n)]
    mp = ph.map_qubits(dict(zip(qs, new)))
    _eq("unitary(phasor.map_qubits)", cirq.unitary(mp), want_sub, TOL)
    # explicit qubits that are a superset of the string's qubits: extra qubits are acted on by the identity (documented)
    if r.get("superset"):
        _eq("unitary(PauliStringPhasor(string, qubits=all wires))", cirq.unitary(cirq.PauliStringPhasor(pa, qubits=qs, exponent_neg=neg, exponent_pos=pos)),
            _phasor_matrix(la, sign, neg, pos), TOL)
        _eq("unitary(PauliStringPhasorGate(dense string with identity entries))",
            cirq.unitary(cirq.PauliStringPhasorGate(cirq.DensePauliString(la, coefficient=sign), exponent_neg=neg, exponent_pos=pos)),
            _phasor_matrix(la, sign, neg, pos), TOL)
        # all-identity string: every state is a +1 (coefficient -1: a -1) eigenstate -> a pure phase
        allid = cirq.PauliStringPhasorGate(cirq.DensePauliString("I" * n, coefficient=sign), exponent_neg=neg, exponent_pos=pos)
        _eq("unitary(PauliStringPhasorGate(all-identity string))", cirq.unitary(allid),
            np.exp(1j * np.pi * (pos if sign > 0 else neg)) * np.eye(2 ** n), TOL)
    lab["identity_wires"] = bool("I" in la and r.get("superset"))
    # PauliString ** t: integer t for any unit coefficient (unambiguous matrix power); real t for coefficient +1
    # (documented Pauli power convention: +1 eigenspace -> 1, -1 eigenspace -> exp(i pi t))
    t = float(r["t"])
    P1 = L.pauli_string_matrix(sublab)
    cu = UNIT[int(r.get("pc", 0)) % 4]
    pu = _build_ps(la, cu, qs, "kw")
    for k in (-1, 0, 1, 2, 3, 4):
        powd = pu ** k
        gotp = powd.matrix(sub) if isinstance(powd, cirq.PauliString) else cirq.unitary(powd)
        _eq(f"(c*P)**{k} for c={cu} vs matrix power", gotp, np.linalg.matrix_power(cu * P1 if k >= 0 else np.linalg.inv(cu * P1), abs(k)), TOL)
    powd = _build_ps(la, 1, qs, "kw") ** t
    gotp = powd.matrix(sub) if isinstance(powd, cirq.PauliString) else cirq.unitary(powd)
    _eq(f"unitary(P**{t}) vs eigenvalue powers (+1 -> 1, -1 -> exp(i pi t))", gotp, _phasor_matrix(sublab, 1, t, 0.0), TOL)
    P = sign * P1
    base = float(r["base"])
    ex = base ** (1j * t * pa)  # exp(ln(base) * i t P)
    ang = math.log(base) * t
    want = np.cos(ang) * np.eye(P.shape[0]) + 1j * np.sin(ang) * P
    _eq(f"unitary({base}**(i*{t}*P)) vs cos + i sin P", cirq.unitary(ex), want, TOL)
    if base == math.e:
        _eq("unitary(np.exp(i t P))", cirq.unitary(np.exp(1j * t * pa)), want, TOL)
    # PauliSumExponential of commuting sums: product of its rotation factors, up to global phase
    terms = []
    M = np.zeros((2 ** n, 2 ** n), dtype=complex)
    basis = r["basis"]
    for zl, cf in r["sum"]:
        lab_t = "".join(b if z == "Z" else "I" for z, b in zip(zl, basis))  # commuting family: a fixed Pauli per wire
        c = cf * 2 * (1j if r["anti"] else 1)
        terms.append(_build_ps(lab_t, c, qs, "kw"))
        M = M + _mat(lab_t, c)
    psum = cirq.PauliSum.from_pauli_strings(terms)
    expo = float(r["t"]) if abs(float(r["t"])) > 1e-9 else 0.7
    if r.get("sym"):
        pse = cirq.resolve_parameters(cirq.PauliSumExponential(psum, exponent=sympy.Symbol("t")), {"t": expo})
    else:
        pse = cirq.PauliSumExponential(psum, exponent=expo)
    U = np.eye(2 ** n, dtype=complex)
    nfac = 0
    for fac in pse:
        if not isinstance(fac, cirq.PauliStringPhasor):
            raise Violation("PauliSumExponential yields a non-phasor factor")
        if fac.qubits:
            U = L.embed(cirq.unitary(fac), [qs.index(q) for q in fac.qubits], [2] * n) @ U
        nfac += 1
    H = M if not r["anti"] else M / 1j  # hermitian generator
    wv, V = np.linalg.eigh(H)
    want = (V * np.exp(1j * expo * wv)) @ V.conj().T  # exp(i*expo*PS) for hermitian PS, exp(expo*PS) for anti-hermitian PS
    _phase_eq("product of PauliSumExponential factors vs exp(i*exponent*sum)", U, want, TOL * (2 + nfac))
    # PauliInteractionGate: phases the state where qubit k is in the (-1 unless inverted) eigenstate of pauli k
    p0, i0, p1, i1 = r["pig"]
    pg = cirq.PauliInteractionGate(PG[p0], bool(i0), PG[p1], bool(i1), exponent=e)
    pr0 = (L.I2 - (-1 if i0 else 1) * L.PAULI[p0]) / 2
    pr1 = (L.I2 - (-1 if i1 else 1) * L.PAULI[p1]) / 2
    cond = np.kron(pr0, pr1)
    _eq("unitary(PauliInteractionGate) vs projector definition", cirq.unitary(pg), np.eye(4) + (np.exp(1j * np.pi * e) - 1) * cond, TOL)
    lab.update({"nontrivial": bool("Y" in la and (sign < 0 or "I" in la)), "n": n, "anti_hermitian_sum": bool(r["anti"]), "symbolic": bool(r.get("sym"))})
    return lab


# ------------------------------------------------------------------------------------------- Pauli measurement


@st.composite
def _pmeas_case(draw):
    n, names = _reg(draw, 1, 4)
    m = max(draw(st.integers(1, n)), draw(st.integers(1, n)))
    return {"n": n, "names": names, "w": list(draw(st.permutations(list(range(n)))))[:m],
            "obs": "".join(draw(st.lists(st.sampled_from("XYZ"), min_size=m, max_size=m))), "neg": draw(st.booleans()),
            "state": draw(st.lists(G.small_floats(), min_size=2 * 2 ** n, max_size=2 * 2 ** n)), "eig": draw(st.integers(0, 3)),
            "api": draw(st.sampled_from(["gate", "measure_single_paulistring", "dm"]))}


def oracle_pmeas(r):
    qs = _qubits(r)
    n = len(qs)
    w = [qs[int(i) % n] for i in r["w"]]
    if len(set(w)) != len(w) or not w:
        raise ValueError("malformed wires")
    obs = (r["obs"] + "Z" * len(w))[: len(w)]
    sign = -1 if r["neg"] else 1
    psi = L.state_from_floats(r["state"], 2 ** n)
    full = ["I"] * n
    for q, ch in zip(w, obs):
        full[qs.index(q)] = ch
    P = sign * L.pauli_string_matrix("".join(full))
    proj = {0: (np.eye(2 ** n) + P) / 2, 1: (np.eye(2 ** n) - P) / 2}
    if r["eig"] in (1, 2):  # start in an eigenstate: deterministic outcome
        v = proj[r["eig"] - 1] @ psi
        if np.linalg.norm(v) < 1e-3:
            raise Reject("state orthogonal to the eigenspace")
        psi = v / np.linalg.norm(v)
    if r["api"] == "measure_single_paulistring":
        op = cirq.measure_single_paulistring(cirq.PauliString({q: PG[ch] for q, ch in zip(w, obs)}, coefficient=sign), key="m")
    else:
        op = cirq.PauliMeasurementGate(cirq.DensePauliString(obs, coefficient=sign), key="m").on(*w)
    circuit = cirq.Circuit(op)

    def run(prng):
        if r["api"] == "dm":
            return cirq.DensityMatrixSimulator(dtype=np.complex128, seed=prng).simulate(circuit, qubit_order=qs, initial_state=np.outer(psi, psi.conj()))
        return cirq.Simulator(dtype=np.complex128, seed=prng).simulate(circuit, qubit_order=qs, initial_state=psi)

    seen = {}
    for p, script, res, prng in enumerate_branches(run, max_branches=16):
        bit = int(res.measurements["m"][0])
        rho = res.final_density_matrix if r["api"] == "dm" else np.outer(res.final_state_vector, res.final_state_vector.conj())
        seen.setdefault(bit, [0.0, 0])
        seen[bit][0] += p
        want_p = float(np.real(np.vdot(psi, proj[bit] @ psi)))
        post = proj[bit] @ psi
        post = post / np.linalg.norm(post)
        _eq(f"state after Pauli measurement outcome {bit}", rho, np.outer(post, post.conj()), 1e-6)
    for bit in (0, 1):
        want_p = float(np.real(np.vdot(psi, proj[bit] @ psi)))
        got_p = seen.get(bit, [0.0])[0]
        if abs(got_p - want_p) > 1e-6:
            raise Violation(f"Pauli measurement outcome {bit} (eigenvalue {'+' if bit == 0 else '-'}1) has probability {got_p:.6g}, reference {want_p:.6g}")
    return {"nontrivial": bool("Y" in obs and (r["neg"] or len(w) > 1)), "api": r["api"], "deterministic": len(seen) == 1, "weight": len(w)}



# ------------------------------------------------------------------------------------------- dense strings, linear combinations


def _dlabel(d):
    return "".join("IXYZ"[int(m)] for m in d.pauli_mask)


def _dmat(d, n=None):
    lab = _dlabel(d)
    if n is not None:
        lab = (lab + "I" * n)[:n]
    return complex(d.coefficient) * L.pauli_string_matrix(lab)


@st.composite
def _dense_case(draw):
    la = "".join(draw(st.lists(st.sampled_from("IXYZ"), min_size=1, max_size=4)))
    lb = "".join(draw(st.lists(st.sampled_from("IXYZ"), min_size=1, max_size=4)))
    return {"a": la, "ca": draw(_coefs()), "b": lb, "cb": draw(_coefs()), "i": draw(st.integers(0, 3)), "j": draw(st.integers(0, 4)),
            "p": draw(st.sampled_from("IXYZ")), "k": draw(st.integers(-3, 5)), "s": draw(st.tuples(G.small_floats(), G.small_floats()).map(list)),
            "gates": draw(st.lists(st.tuples(st.sampled_from(["X", "Y", "Z", "H", "S", "T", "I"]), G.small_floats(), G.small_floats()), min_size=1, max_size=4)),
            "mat": draw(st.lists(G.small_floats(), min_size=8, max_size=8)), "rows": draw(st.lists(st.lists(st.sampled_from("IXYZ"), min_size=3, max_size=3).map("".join), min_size=1, max_size=4))}


def oracle_dense(r):
    la, lb = r["a"], r["b"]
    ca, cb = _coef(r["ca"]), _coef(r["cb"])
    da, db = cirq.DensePauliString(la, coefficient=ca), cirq.DensePauliString(lb, coefficient=cb)
    n = max(len(la), len(lb))
    tol = 1e-9 * (1 + abs(ca) + abs(cb)) ** 2
    A, B = _dmat(da, n), _dmat(db, n)
    _eq("DensePauliString matrix", _dmat(da), L.pauli_string_matrix(la, ca), tol)
    _eq("DensePauliString(list of ints)", _dmat(cirq.DensePauliString(["IXYZ".index(ch) for ch in la], coefficient=ca)), L.pauli_string_matrix(la, ca), tol)
    _eq("DensePauliString(list of gates)", _dmat(cirq.DensePauliString([PG[ch] for ch in la], coefficient=ca)), L.pauli_string_matrix(la, ca), tol)
    if abs(abs(ca) - 1) < 1e-9:
        _eq("unitary(DensePauliString)", cirq.unitary(da), L.pauli_string_matrix(la, ca), 1e-9)
        qs = cirq.LineQubit.range(len(la))
        U = np.eye(2 ** len(la), dtype=complex)
        for op in cirq.decompose_once(cirq.GateOperation(da, qs)):
            U = (L.embed(cirq.unitary(op), [qs.index(q) for q in op.qubits], [2] * len(la)) if op.qubits else cirq.unitary(op)[0, 0] * np.eye(2 ** len(la))) @ U
        _eq("decomposition of a DensePauliString gate", U, L.pauli_string_matrix(la, ca), 1e-9)
    prod = da * db
    if len(prod) != n:
        raise Violation(f"product of dense strings of lengths {len(la)},{len(lb)} has length {len(prod)}")
    _eq("dense a * dense b (shorter one padded with identities)", _dmat(prod), A @ B, tol)
    want_comm = bool(np.allclose(L.pauli_string_matrix((la + "I" * n)[:n]) @ L.pauli_string_matrix((lb + "I" * n)[:n]),
                                 L.pauli_string_matrix((lb + "I" * n)[:n]) @ L.pauli_string_matrix((la + "I" * n)[:n])))
    if cirq.commutes(da, db) != want_comm:
        raise Violation(f"cirq.commutes(dense a, dense b) = {cirq.commutes(da, db)}, padded matrices commute: {want_comm}")
    s = complex(*r["s"])
    _eq("dense a * scalar", _dmat(da * s), A[: 2 ** len(la), : 2 ** len(la)] * s if False else L.pauli_string_matrix(la, ca * s), tol)
    _eq("scalar * dense a", _dmat(s * da), L.pauli_string_matrix(la, ca * s), tol)
    if abs(s) > 1e-3:
        _eq("dense a / scalar", _dmat(da / s), L.pauli_string_matrix(la, ca / s), tol / abs(s) + 1e-9)
    _eq("-dense a", _dmat(-da), L.pauli_string_matrix(la, -ca), tol)
    _eq("abs(dense a)", _dmat(abs(da)), L.pauli_string_matrix(la, abs(ca)), tol)
    _eq("a.tensor_product(b)", _dmat(da.tensor_product(db)), np.kron(L.pauli_string_matrix(la, ca), L.pauli_string_matrix(lb, cb)), tol)
    k = int(r["k"])
    if abs(ca) > 1e-3:
        M = L.pauli_string_matrix(la, ca)
        _eq(f"dense a ** {k}", _dmat(da ** k), np.linalg.matrix_power(M if k >= 0 else np.linalg.inv(M), abs(k)), 1e-7 * (1 + abs(ca) ** abs(k) + abs(1 / ca) ** abs(k)))
    i = int(r["i"]) % len(la)
    if da[i] != PG[la[i]]:
        raise Violation(f"dense[{i}] is not the gate {la[i]} of the string {la}")
    j = i + int(r["j"])
    if _dlabel(da[i:j]) != la[i:j]:
        raise Violation(f"dense[{i}:{j}] is {_dlabel(da[i:j])} for the string {la}")
    if len(da) != len(la) or any(g != PG[ch] for g, ch in zip(da, la)) or len(list(da)) != len(la):
        raise Violation("iteration over a dense string does not give its Paulis")
    oh = cirq.DensePauliString.one_hot(index=i, length=len(la), pauli=r["p"])
    if _dlabel(oh) != "I" * i + r["p"] + "I" * (len(la) - i - 1) or oh.coefficient != 1:
        raise Violation(f"one_hot(index={i}, length={len(la)}, pauli={r['p']}) is {oh!r}")
    if _dlabel(cirq.DensePauliString.eye(len(la))) != "I" * len(la):
        raise Violation("eye is not the identity string")
    # mutable version
    m = da.mutable_copy()
    m[i] = r["p"]
    want = la[:i] + r["p"] + la[i + 1:]
    if _dlabel(m) != want or _dlabel(da) != la:
        raise Violation("MutableDensePauliString item assignment wrong (or it mutated the frozen original)")
    m[i:j] = lb[: len(la[i:j])].ljust(len(la[i:j]), "Z")
    want = want[:i] + lb[: len(la[i:j])].ljust(len(la[i:j]), "Z") + want[i + len(la[i:j]):]
    if _dlabel(m) != want:
        raise Violation(f"MutableDensePauliString slice assignment gives {_dlabel(m)} expected {want}")
    m = da.mutable_copy()
    m *= s
    _eq("mutable dense a *= scalar", _dmat(m), L.pauli_string_matrix(la, ca * s), tol)
    if len(lb) <= len(la):
        m = da.mutable_copy()
        m *= db
        _eq("mutable dense a *= dense b", _dmat(m), A @ B, tol)
    if m.frozen() != cirq.DensePauliString(_dlabel(m), coefficient=m.coefficient) or da.mutable_copy().frozen() != da:
        raise Violation("frozen()/mutable_copy() round trip changes the string")
    # sparse <-> dense
    qs = [cirq.LineQubit(3 * t + 1) for t in range(len(la))]
    sp = da.on(*qs)
    _eq("dense.on(qubits).matrix", sp.matrix(qs), L.pauli_string_matrix(la, ca), tol)
    if sp.dense(qs) != da:
        raise Violation("dense.on(*qs).dense(qs) != dense")
    # Gaussian elimination keeps the generated group: every output row is a product of input rows and vice versa (rank)
    rows = [cirq.MutableDensePauliString(x) for x in r["rows"]]
    before = [_dmat(x) for x in rows]
    cirq.MutableDensePauliString.inline_gaussian_elimination(rows)
    span = {CG.phase_key(np.eye(8))}
    mats = [np.eye(8, dtype=complex)]
    for b in before:
        mats = mats + [x @ b for x in mats]
    span = {CG.phase_key(x) for x in mats}
    for x in rows:
        if CG.phase_key(_dmat(x)) not in span:
            raise Violation("inline_gaussian_elimination produced a row outside the group generated by the input rows")
    mats2 = [np.eye(8, dtype=complex)]
    for x in rows:
        mats2 = mats2 + [y @ _dmat(x) for y in mats2]
    if {CG.phase_key(x) for x in mats2} != span:
        raise Violation("inline_gaussian_elimination changed the group generated by the rows")
    # linear combinations of gates / operations and Pauli expansions
    GM = {"X": L.PX, "Y": L.PY, "Z": L.PZ, "H": (L.PX + L.PZ) / np.sqrt(2), "S": np.diag([1, 1j]), "T": np.diag([1, np.exp(0.25j * np.pi)]), "I": L.I2}
    GG = {"X": cirq.X, "Y": cirq.Y, "Z": cirq.Z, "H": cirq.H, "S": cirq.S, "T": cirq.T, "I": cirq.I}
    comb = None
    M = np.zeros((2, 2), dtype=complex)
    for name, re, im in r["gates"]:
        c = complex(re, im)
        term = c * GG[name]
        comb = term if comb is None else comb + term
        M = M + c * GM[name]
    if not isinstance(comb, cirq.LinearCombinationOfGates):
        raise Violation(f"scalar * gate sum is {type(comb).__name__}")
    if len(comb) > 0:  # (an empty combination has no qubit count: documented ValueError)
        _eq("LinearCombinationOfGates.matrix", comb.matrix(), M, 1e-9)
        kk = abs(k) + 1
        if all(name in "IXYZ" for name, _, _ in r["gates"]):  # powers are implemented for single-qubit Pauli combinations
            powd = comb ** kk
            want = np.linalg.matrix_power(M, kk)
            got = powd.matrix() if len(powd) > 0 else np.zeros((2, 2))
            _eq(f"LinearCombinationOfGates(Pauli basis) ** {kk}", got, want, 1e-7 * (1 + np.abs(want).max()))
            ops1 = cirq.LinearCombinationOfOperations({GG[name](cirq.LineQubit(5)): complex(re, im) for name, re, im in r["gates"]})
            Mo = sum((c * GM[name] for name, c in {name: complex(re, im) for name, re, im in r["gates"]}.items()), np.zeros((2, 2), dtype=complex))
            if len(ops1) > 0:
                po = ops1 ** kk
                wo = np.linalg.matrix_power(Mo, kk)
                _eq(f"LinearCombinationOfOperations(Pauli basis) ** {kk}", po.matrix() if len(po) > 0 else np.zeros((2, 2)), wo, 1e-7 * (1 + np.abs(wo).max()))
        pe = cirq.pauli_expansion(comb)
        _eq("pauli_expansion(LinearCombinationOfGates) re-summed", sum((v * L.PAULI[key] for key, v in pe.items()), np.zeros((2, 2), dtype=complex)), M, 1e-9)
    q0, q1 = cirq.LineQubit.range(2)
    lco = cirq.LinearCombinationOfOperations({GG[name](q1 if t % 2 else q0): complex(re, im) for t, (name, re, im) in enumerate(r["gates"])})
    M2 = np.zeros((4, 4), dtype=complex)
    seen_ops = {}
    for t, (name, re, im) in enumerate(r["gates"]):
        seen_ops[(name, t % 2)] = complex(re, im)  # dict semantics: later equal keys overwrite
    for (name, w), c in seen_ops.items():
        M2 = M2 + c * (np.kron(L.I2, GM[name]) if w else np.kron(GM[name], L.I2))
    if set(lco.qubits) == {q0, q1}:
        _eq("LinearCombinationOfOperations.matrix", lco.matrix(), M2, 1e-9)
        pe2 = cirq.pauli_expansion(lco)
        _eq("pauli_expansion(LinearCombinationOfOperations) re-summed", sum((v * L.pauli_string_matrix(key) for key, v in pe2.items()), np.zeros((4, 4), dtype=complex)), M2, 1e-9)
    Um = L.random_unitary_from_floats(r["mat"], 2)
    pe3 = cirq.pauli_expansion(cirq.MatrixGate(Um))
    _eq("pauli_expansion(MatrixGate) re-summed", sum((v * L.PAULI[key] for key, v in pe3.items()), np.zeros((2, 2), dtype=complex)), Um, 1e-9)
    return {"nontrivial": bool("Y" in la + lb and (abs(ca - 1) > 1e-9 or abs(cb - 1) > 1e-9)), "len_differs": len(la) != len(lb),
            "commute": want_comm}


# ------------------------------------------------------------------------------------------- boolean expressions / misc


@st.composite
def _bool_expr(draw, depth=3):
    if depth == 0 or draw(st.integers(0, 3)) == 0:
        return draw(st.sampled_from(["x0", "x1", "x2"]))
    k = draw(st.sampled_from(["and", "or", "xor", "not"]))
    if k == "not":
        return ["not", draw(_bool_expr(depth - 1))]
    return [k] + draw(st.lists(_bool_expr(depth - 1), min_size=2, max_size=3))


def _to_sympy(e):
    if isinstance(e, str):
        return sympy.Symbol(e)
    args = [_to_sympy(x) for x in e[1:]]
    return {"and": sympy.And, "or": sympy.Or, "xor": sympy.Xor, "not": sympy.Not}[e[0]](*args, evaluate=False) if e[0] != "not" else sympy.Not(args[0], evaluate=False)


def _eval_bool(e, env_):
    if isinstance(e, str):
        return env_[e]
    vals = [_eval_bool(x, env_) for x in e[1:]]
    if e[0] == "and":
        return all(vals)
    if e[0] == "or":
        return any(vals)
    if e[0] == "xor":
        return sum(vals) % 2 == 1
    return not vals[0]


def _u2ps(u):
    from cirq.transformers.analytical_decompositions.pauli_string_decomposition import unitary_to_pauli_string

    return unitary_to_pauli_string(u)


def oracle_misc(r):
    qs = Q[:3]
    lab = {}
    # boolean expression -> diagonal Hamiltonian whose diagonal is the truth table
    expr = _to_sympy(r["expr"])
    if not isinstance(expr, (sympy.Symbol, sympy.And, sympy.Or, sympy.Xor, sympy.Not)):
        raise Reject("expression simplified to a constant")
    # recipe-side: did sympy fold a sub-expression into a constant (a node type the method documents as unsupported)?
    folded = any(not isinstance(node, (sympy.Symbol, sympy.And, sympy.Or, sympy.Xor, sympy.Not)) for node in sympy.preorder_traversal(expr))
    if folded:
        try:
            ps = cirq.PauliSum.from_boolean_expression(expr, {"x0": qs[0], "x1": qs[1], "x2": qs[2]})
        except ValueError:
            raise Reject("documented ValueError: sympy folded a sub-expression into a constant (unsupported node type)")
    else:
        ps = cirq.PauliSum.from_boolean_expression(expr, {"x0": qs[0], "x1": qs[1], "x2": qs[2]})
    M = ps.matrix(qs)
    diag = np.array([float(_eval_bool(r["expr"], {"x0": bool(b0), "x1": bool(b1), "x2": bool(b2)}))
                     for b0, b1, b2 in itertools.product([0, 1], repeat=3)])
    _eq("PauliSum.from_boolean_expression matrix vs truth table", M, np.diag(diag), 1e-9)
    lab["truth_ones"] = int(diag.sum())
    # unitary_to_pauli_string on signed Pauli matrices and on non-Paulis
    pl = r["ps"]
    c = _coef(r["c"])
    U = _mat(pl, c)
    got = _u2ps(U)
    if got is None:
        raise Violation(f"unitary_to_pauli_string is None for {c}*{pl}")
    _eq("unitary_to_pauli_string", cirq.unitary(got), U, 1e-9)
    H = np.kron((L.PX + L.PZ) / np.sqrt(2), np.eye(2 ** (len(pl) - 1)))
    if _u2ps(H) is not None:
        raise Violation("unitary_to_pauli_string(H x I) is not None")
    # pauli_expansion of strings and sums
    pe = cirq.pauli_expansion(_build_ps(pl, c, Q[: len(pl)], "kw"))
    nz = {k: v for k, v in pe.items() if abs(v) > 1e-12}
    short = "".join(ch for ch in pl if ch != "I")
    if short and (set(nz) != {short} or abs(nz[short] - c) > 1e-9):
        raise Violation(f"pauli_expansion of {c}*{pl} is {dict(nz)}")
    lab["nontrivial"] = bool("Y" in pl and r["c"] % 4)
    return lab


# =========================================================================================== repaired findings
#
# Defects found by this check that were repaired in the repository (fix: commits) and are generated again; their
# minimal recipes are replayed as explicit examples via known_findings.json (status fixed):
#   C14-phasor-identity-wires        PauliStringPhasor(Gate) with identity positions computed the parity over all qubits
#   C14-dense-times-sparse           DensePauliString * PauliString dropped the sparse string's coefficient
#   C14-single-qubit-pow             PauliString.__pow__ of a one-qubit string ignored the coefficient
#   C14-dm-pauli-measurement         DensityMatrixSimulator corrupted its state on a PauliMeasurementGate operation
#   C14-identity-string-times-dense  (qubit-less PauliString) * DensePauliString raised TypeError
# Observed but deliberately not asserted: the deprecated PauliString.pass_operations_over with a multi-operation list
# (only single-operation lists are checked, where the documented and the legacy reading coincide).

KNOWN_FEATURES = {}


# =========================================================================================== registry

_CONJ_SLICE_DOC = "quick: blake2(seed,index) % 8 == 0 slice of the 11520 words; thorough: all"

SUBCHECKS = [
    SubCheck("pairs_2q", None, oracle_pairs, enumerate=_pair_recipes, exhaustive_in=("quick", "thorough"), shards_quick=12, shards_thorough=12, time_quick=600.0),
    SubCheck("conj_1q", None, oracle_conj1, enumerate=_conj1_recipes, exhaustive_in=("quick", "thorough"), shards_quick=4, shards_thorough=4, time_quick=600.0),
    SubCheck("conj_2q", None, oracle_conj2, enumerate=_conj2_recipes, exhaustive_in=("thorough",), shards_quick=16, shards_thorough=16, time_quick=600.0, time_thorough=3000.0, doc=_CONJ_SLICE_DOC),
    SubCheck("algebra", _algebra_case(), oracle_algebra, quick=3000, thorough=80000, shards_quick=4, shards_thorough=16,
             essential={"complex_coeff": 0.2}),
    SubCheck("conj_random", _conj_case(), oracle_conj_random, quick=1500, thorough=40000, shards_quick=4, shards_thorough=16,
             essential={"moved": 0.3}),
    SubCheck("expectation", _expect_case(), oracle_expect, quick=2500, thorough=60000, shards_quick=4, shards_thorough=16,
             essential={"permuted_map": 0.3}),
    SubCheck("sim_expectation", _sim_expect_case(), oracle_sim_expect, quick=1200, thorough=30000, shards_quick=4, shards_thorough=16),
    SubCheck("phasor", _phasor_case(), oracle_phasor, quick=2000, thorough=50000, shards_quick=4, shards_thorough=16),
    SubCheck("pauli_measure", _pmeas_case(), oracle_pmeas, quick=1000, thorough=25000, shards_quick=2, shards_thorough=8),
    SubCheck("dense", _dense_case(), oracle_dense, quick=2000, thorough=50000, shards_quick=2, shards_thorough=8),
    SubCheck("misc", st.fixed_dictionaries({"expr": _bool_expr(), "ps": st.lists(st.sampled_from("IXYZ"), min_size=1, max_size=3).map("".join),
                                            "c": st.integers(0, 3)}), oracle_misc, quick=800, thorough=20000, shards_quick=2, shards_thorough=8),
]
