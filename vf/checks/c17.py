"""C17 — vendor job payloads mean the same as the circuit they were built from (IonQ, AQT, Pasqal)."""
from __future__ import annotations

import contextlib
import copy
import json
import json as _json
import math
import os
from collections import Counter

import numpy as np
from hypothesis import strategies as st

import cirq
import cirq_aqt
import cirq_ionq
import cirq_pasqal
from cirq_aqt import aqt_sampler as _aqt_sampler_mod
from cirq_ionq import ionq_client as _ionq_client_mod
from cirq_ionq.ionq_exceptions import IonQSerializerMixedGatesetsException, NotSupportedPauliexpParameters
from cirq_pasqal import pasqal_sampler as _pasqal_sampler_mod
from vf.core import Reject, SubCheck, Violation
from vf.gen import gates as G
from vf.prng import ScriptedPRNG
from vf.ref import aqt as RA
from vf.ref import ionq as RI
from vf.ref import linalg as L

RULE = (
    "IonQ: Hypothesis draws 1-3 circuits on a drawn subset/order of LineQubit(0..5) (gaps = idle wires) over the QIS "
    "vocabulary (X/Y/Z/Rx/Ry/Rz pow gates whose exponent is base+period+delta with base in the special-cased values, "
    "period shifts by whole turns and delta in {0, +-0.1, +-0.5, +-0.9, +-2, +-10, +-1e3, +-1e5}*atol or continuous; "
    "H/CNOT/SWAP near odd exponents; XX/YY/ZZ/ms pow; PauliStringPhasorGate on 1-4 permuted qubits, gate and operation "
    "form; tags, global shifts) or the native vocabulary (GPI/GPI2/MS/ZZ, phases in turns), terminal measurements with "
    "1-4 keys on ordered subsets (key alphabets incl. spaces/commas/unicode, total metadata length steered to the 40/80 "
    "character chunk boundaries), drawn Serializer atol, job settings / compilation / error-mitigation / noise / user "
    "metadata / dry_run; single and batch serialisation, and the same through cirq_ionq.Service with a fake HTTP layer. "
    "Oracle: vf.ref.ionq.interpret(body) (IonQ's documented gate matrices) == Circuit.unitary on LineQubit.range(qubits) "
    "up to global phase within 10*atol*#gates; metadata parsed back by the documented format == key -> LineQubit.x in "
    "order; every chunk <= 40 chars; pass-through fields equal deep copies; unsupported content must raise. "
    "Results: drawn histograms over n<=6 qubits and drawn key -> target maps (overlaps, partial, any order) are encoded "
    "with IonQ's little-endian keys and the documented metadata format by the harness, served by a fake client to "
    "cirq_ionq.Job; counts/probabilities/ordered_results/to_cirq_result must equal the per-key bit extraction done by the "
    "harness (joint multisets across keys; sampled conversion driven by a scripted RandomState). "
    "AQT: circuits over PhasedXPow/ZPow/XXPow(ms) on LineQubit chains (symbols + resolvers) -> AQTSampler with fake "
    "post/get: Arnica payload and legacy JSON interpreted by vf.ref.aqt == unitary; drawn sample arrays -> Result; "
    "AQTSamplerLocalSimulator(simulate_ideal) rows must lie in the support of |U|0>|^2 (circuits built from quarter/half "
    "turns so that interference makes many outcomes deterministic). Pasqal: request body read back with cirq.read_json "
    "== resolved circuit, served result returned unchanged. "
    "Non-trivial: >=2 keys with different qubit orders, or an exponent within 10*atol of a special value (not exact), or a "
    "pauliexp on permuted/non-palindromic qubits, or a histogram asymmetric under bit reversal, or (AQT) an R gate with a "
    "phase that is not a multiple of a half turn followed by a non-commuting op. Distinct = distinct recipe hash."
)
ASSUMPTIONS = [
    "IonQ gate semantics are the ones written in vf/ref/ionq.py (IonQ API gate table; native-gate matrices as quoted in "
    "cirq_ionq.ionq_native_gates docstrings; pauliexp = exp(-i time sum c_k P_k) with little-endian Pauli strings as "
    "stated by the serializer's comment); the native ZZ angle is read from the field 'phase' the serializer uses",
    "AQT gate semantics are R(theta,phi)/RZ(phi)/RXX(theta) with angles in units of pi (vf/ref/aqt.py)",
    "Circuit.unitary(qubit_order=LineQubit.range(n)) is trusted as the meaning of the circuit (C01/C03 decide that)",
    "tolerance: 10*atol*max(1,#gates) on the max-abs entry difference after aligning the global phase (atol = the "
    "Serializer's atol, default 1e-8); AQT/Pasqal: 1e-8*(1+#gates); probabilities 1e-12",
    "results are fed through cirq_ionq.Job with a duck-typed client (get_results) and a duck-typed RandomState; the "
    "HTTP layer of Service/AQTSampler/PasqalSampler is replaced by module-level fakes for the duration of one case",
]
SENSITIVITY = [
    "ionq z-pow 'ti' also emitted for exponent 0.75 (special case tested modulo 1) [repo tests pass]",
    "ionq swap accepted at every integer exponent [repo tests pass]",
    "ionq y special case also at even exponents [repo tests pass]",
    "ionq batch drops dry_run [repo tests pass]",
    "ionq job measurement_dict sorts targets [repo tests pass]",
    "ionq SimulatorResult.to_cirq_result sorts the weights away from their outcomes [repo tests pass]",
    "ionq service batch job_settings dropped [repo tests pass]",
    "ionq service passes noise as error_mitigation for batches [repo tests pass]",
    "ionq cnot control/target by index instead of by role [repo tests pass]",
    "aqt R phase sign [repo tests pass]",
    "aqt result columns reversed [repo tests pass]",
    "aqt local simulator negates the R phase [repo tests pass]",
    "aqt Z gate sent as half exponent [repo tests pass]",
    "pasqal repetitions header fixed to 1 [repo tests pass]",
    "ionq sampler pairs results with resolvers in reverse [repo tests pass]",
    "ionq sampler resolves every job with the first resolver [repo tests pass]",
    "aqt register sized by the number of used qubits [repo tests pass]",
    "ionq invert_mask of a measurement silently dropped [repo tests pass]",
    "aqt measurement ops serialised as gates again [repo tests pass]",
    "ionq pauliexp string not reversed [repo tests catch it]",
    "ionq measurement targets sorted in metadata [repo tests catch it]",
    "ionq qubit count = number of used qubits [repo tests catch it]",
    "ionq metadata chunk loses the 40th character [repo tests catch it]",
    "ionq MSGate.phases swapped [repo tests catch it]",
    "ionq job keeps little-endian keys for simulator results [repo tests catch it]",
    "ionq QPUResult per-key value bits reversed [repo tests catch it]",
    "aqt legacy->arnica swaps theta and phi [repo tests catch it]",
    "pasqal body not resolved [repo tests catch it]",
]


def uncovered():
    return [
        "the real vendor services: IonQ/AQT gate semantics are taken from the definitions quoted in the repository (vf/ref/ionq.py, vf/ref/aqt.py); a definition that the repository and the vendor both get wrong the same way is invisible",
        "field names of the wire formats beyond what the repository documents (e.g. the native ZZ angle travels as 'phase'; IonQ's own examples call it 'angle')",
        "calibration / job listing endpoints, retry and polling logic of the HTTP clients",
        "AQT noisy local simulation (simulate_ideal=False) and sampled distributions beyond support membership (the local simulator exposes no seed)",
        "Pasqal: only the request/response plumbing (the body is Cirq JSON, whose fidelity is C11's subject)",
        "IonQ API limits (max qubits per backend, metadata key count) are not part of the property",
    ]


ATOLS = [1e-8, 1e-8, 1e-8, 1e-6, 1e-4]


# ======================================================================================== feature predicates
# (F17a-d were genuine defects found by this check; all four are fixed in /repo, so the features are generated and
#  checked like everything else: AQT circuits with a terminal measurement / an idle ion, IonQ measurements with an
#  invert_mask / a repeated key -- the latter two must now be rejected with ValueError.)

def _has_aqt_measure(sub, r):
    return sub.startswith("aqt") and bool(r.get("meas"))


def _has_aqt_idle(sub, r):
    return sub.startswith("aqt") and bool(r.get("idle"))


def _has_ionq_invert_mask(sub, r):
    return sub.startswith("ionq") and any(any(m.get("inv") or []) for c in r.get("circs", []) for m in c.get("meas", []))


def _has_ionq_repeated_key(sub, r):
    for c in r.get("circs", []) if sub.startswith("ionq") else []:
        keys = [m["key"] for m in c.get("meas", [])]
        if len(set(keys)) != len(keys):
            return True
    return False


# ======================================================================================== generic helpers

def _one_in(k):
    """True with probability ~1/k (Hypothesis favours the ends of integer ranges, so test an interior value)."""
    return st.integers(0, k - 1).map(lambda v: v == k // 2)


def _wires(idx, n):
    w = [int(i) % n for i in idx]
    if len(set(w)) != len(w):
        raise Reject("repeated wire after shrinking")
    return w


def _cmp_unitary(what, got, want, tol):
    got = np.asarray(got)
    want = np.asarray(want)
    if got.shape != want.shape:
        raise Violation(f"{what}: payload unitary has shape {got.shape}, circuit {want.shape}")
    d = L.diff_up_to_phase(got, want)
    if not d <= tol:
        raise Violation(f"{what}: interpreted payload differs from the circuit unitary by {d:.3g} (tol {tol:.1g})")
    return d


def _circuit_unitary(circuit, n):
    return circuit.unitary(qubit_order=cirq.LineQubit.range(n), ignore_terminal_measurements=True, dtype=np.complex128)


def _jsonable(x, what):
    try:
        return json.loads(json.dumps(x))
    except (TypeError, ValueError) as e:
        raise Violation(f"{what} is not JSON-serialisable: {e}")


# ======================================================================================== IonQ circuit recipes

SPECIAL_1Q = [0.0, 0.25, -0.25, 0.5, -0.5, 1.0, 0.75, -0.75, 1 / 3, 0.125]
PERIODS = [0, 0, 0, 0, 1, -1, 2, -2, 3, 4]
DELTAS = [0, 0, 0, 0, 0.1, -0.1, 0.5, -0.5, 0.9, -0.9, 0.9, -0.9, 2, -2, 10, -10, 1e3, -1e3, 1e5, -1e5]
DELTAS_ODD = [0, 0, 0, 0, 0.1, -0.1, 0.5, -0.5, 0.9, -0.9, 0.9, -0.9, 0.5, -0.5, 0.1, -0.1, 0.9, -0.9, 2, 1e3]
KEY_ALPHABET = "abcdefgXYZ0123456789_ ,.-=é"


def _espec(bases=SPECIAL_1Q, periods=PERIODS, deltas=DELTAS):
    return st.one_of(
        st.fixed_dictionaries({"b": st.sampled_from(bases), "k": st.sampled_from(periods), "d": st.sampled_from(deltas)}),
        st.fixed_dictionaries({"b": st.sampled_from(bases), "k": st.sampled_from(periods), "d": st.sampled_from(deltas)}),
        st.fixed_dictionaries({"b": st.floats(-4, 4, allow_nan=False).map(lambda x: round(x, 6)), "k": st.just(0), "d": st.just(0)}),
    )


def _odd_espec():
    return st.fixed_dictionaries({"b": st.just(1.0), "k": st.sampled_from([0, 0, 0, 2, -2, 4, -4, 6]), "d": st.sampled_from(DELTAS_ODD)})


def _exp(e, atol):
    return float(e["b"]) + int(e["k"]) + float(e["d"]) * atol


def _near(e):
    return e["d"] != 0 and abs(e["d"]) <= 10


@st.composite
def _qis_op(draw, n):
    kinds = ["X", "Y", "Z", "X", "Y", "Z", "Rx", "Ry", "Rz", "H", "XX", "YY", "ZZ", "MS", "PSP", "PSP"]
    if n >= 2:
        kinds += ["CNOT", "CNOT", "SWAP", "CXBY", "XX", "YY", "ZZ", "PSP", "PSP", "PSP", "PSP"]
    k = draw(st.sampled_from(kinds))
    if k in ("XX", "YY", "ZZ", "MS") and n < 2:
        k = "Z"
    perm = list(draw(st.permutations(list(range(n)))))
    o = {"k": k, "tag": draw(_one_in(10))}
    if k in ("X", "Y", "Z"):
        o.update(e=draw(_espec()), s=draw(G.shifts()), w=perm[:1])
    elif k in ("Rx", "Ry", "Rz"):
        o.update(e=draw(_espec()), w=perm[:1])
    elif k == "H":
        o.update(e=draw(_odd_espec()), s=draw(G.shifts()), w=perm[:1])
    elif k in ("CNOT", "SWAP"):
        o.update(e=draw(_odd_espec()), s=draw(G.shifts()), w=perm[:2])
    elif k == "CXBY":
        o.update(w=perm[:2])
    elif k in ("XX", "YY", "ZZ"):
        o.update(e=draw(_espec()), s=draw(G.shifts()), w=perm[:2])
    elif k == "MS":
        o.update(r=draw(G.rads()), w=perm[:2])
    else:
        m = draw(st.integers(max(1, min(2, n)), min(4, n))) if draw(st.integers(0, 3)) else 1
        ps = draw(st.lists(st.sampled_from("IXYZXYZ"), min_size=m, max_size=m))
        # stored (canonical, in (-1, 1] half turns) exponents: pos = a, neg = a + gap; IonQ time = pi * gap / 2 >= 0
        a = draw(st.one_of(st.sampled_from([0.0, -0.5, 0.5, 1.0, -0.75, 0.25]), st.floats(-0.999, 1).map(lambda x: round(x, 6))))
        f = draw(st.one_of(st.sampled_from([0.0, 1.0, 0.5, 0.25, 1e-9]), st.floats(0, 1).map(lambda x: round(x, 6))))
        gap = round(f * (1 - a), 9)
        if draw(_one_in(12)):
            gap = -draw(st.sampled_from([0.5, 0.25, 1e-3, 1.0]))  # negative time: documented rejection
        o.update(ps="".join(ps), pos=a, gap=gap, sign=draw(st.sampled_from([1, 1, -1])), w=perm[:m], form=draw(st.integers(0, 2)),
                 turns=[draw(st.sampled_from([0, 0, 0, 1, -1, 2])) for _ in range(2)])
    return o


def _phase():
    return st.one_of(st.sampled_from([0, 0.0, 0.25, 0.5, -0.25, 0.125, 1.0, -0.5, 0.75, 1 / 3, 1e-9]),
                     st.floats(-1, 1, allow_nan=False).map(lambda x: round(x, 6)))


@st.composite
def _native_op(draw, n):
    kinds = ["GPI", "GPI2", "GPI2"] + (["MS", "MS", "ZZ"] if n >= 2 else [])
    k = draw(st.sampled_from(kinds))
    perm = list(draw(st.permutations(list(range(n)))))
    o = {"k": k, "tag": draw(_one_in(10))}
    if k in ("GPI", "GPI2"):
        o.update(phi=draw(_phase()), w=perm[:1])
    elif k == "MS":
        th = draw(st.one_of(st.sampled_from([0.25, 0.25, 0.125, 0.0, 0.1]), st.floats(0, 0.25).map(lambda x: round(x, 6))))
        o.update(phi0=draw(_phase()), phi1=draw(_phase()), theta=th, w=perm[:2], inv=draw(_one_in(8)))
    else:
        th = draw(st.one_of(st.sampled_from([0.25, 0.125, -0.25, 0.1, 0.0]), st.floats(-0.25, 0.25).map(lambda x: round(x, 6))))
        o.update(theta=th, w=perm[:2], inv=draw(_one_in(8)))
    return o


@st.composite
def _keys(draw, n, allow_candidates=True):
    """Terminal measurements: disjoint ordered subsets of the wires under distinct keys."""
    nk = draw(st.sampled_from([0, 1, 2, 2, 3, 3, 4]))
    perm = list(draw(st.permutations(list(range(n)))))
    out = []
    for i in range(nk):
        if not perm:
            break
        m = draw(st.integers(1, len(perm)))
        t, perm = perm[:m], perm[m:]
        style = draw(st.integers(0, 5))
        if style == 0:
            key = None  # default key of cirq.measure
        else:
            key = draw(st.text(KEY_ALPHABET, min_size=1, max_size=[3, 3, 8, 14, 20, 30][style])) + str(i)
        out.append({"key": key, "t": t, "inv": []})
    if out and allow_candidates and draw(_one_in(20)):
        m = out[draw(st.integers(0, len(out) - 1))]
        m["inv"] = [draw(st.booleans()) for _ in m["t"]]
    if len(out) >= 2 and allow_candidates and draw(_one_in(40)):
        out[1]["key"] = out[0]["key"]
    return out


@st.composite
def _ionq_circ(draw, native, max_q=6, max_ops=8, min_ops=0):
    n = draw(st.sampled_from([1, 2, 2, 3, 3, 4, 4, 5]))
    xs = list(draw(st.permutations(list(range(max_q)))))[:n]
    nops = draw(st.integers(min_ops, max_ops))
    ops = [draw(_native_op(n) if native else _qis_op(n)) for _ in range(nops)]
    meas = draw(_keys(n))
    if not ops and not meas:
        meas = [{"key": "k", "t": [0], "inv": []}]
    pad = draw(st.sampled_from([0, 0, 0, 38, 39, 40, 41, 42, 78, 79, 80, 81, 82, 119, 120, 121, 200, 359, 360, 361]))
    return {"xs": xs, "ops": ops, "meas": meas, "pad": pad}


def _settings():
    val = st.one_of(st.integers(-3, 1000), st.booleans(), st.text("abc-1E3", max_size=5), st.floats(0, 1).map(lambda x: round(x, 3)))
    d = st.dictionaries(st.sampled_from(["opt", "precision", "debiasing", "model", "seed", "note", "x", "error_mitigation"]), val, max_size=3)
    return st.fixed_dictionaries({
        "job_settings": st.one_of(st.none(), d), "compilation": st.one_of(st.none(), d),
        "error_mitigation": st.one_of(st.none(), st.fixed_dictionaries({"debiasing": st.booleans()}), d),
        "noise": st.one_of(st.none(), st.fixed_dictionaries({"model": st.sampled_from(["ideal", "aria-1"]), "seed": st.integers(0, 99)})),
        "metadata": st.one_of(st.none(), st.dictionaries(st.sampled_from(["note", "user", "tag"]), st.text("abc 12", max_size=6), max_size=2)),
        "dry_run": st.booleans(),
    })


@st.composite
def _ionq_case(draw, native):
    batch = draw(_one_in(3))
    ncirc = draw(st.integers(1, 3)) if batch else 1
    return {"native": native, "batch": batch, "atol": draw(st.integers(0, len(ATOLS) - 1)),
            "circs": [draw(_ionq_circ(native, min_ops=1 if batch else 0)) for _ in range(ncirc)], "settings": draw(_settings())}


def _psp_exponents(o):
    """(exponent_neg, exponent_pos) as *given* to the constructor.  The recipe fixes the stored values (after cirq swaps
    the two for a -1 coefficient and reduces them to (-1, 1]): pos = o["pos"], neg = o["pos"] + o["gap"]."""
    t = (list(o.get("turns") or []) + [0, 0])[:2]
    neg, pos = o["pos"] + o["gap"] + 2 * t[0], o["pos"] + 2 * t[1]
    return (neg, pos) if o["sign"] > 0 else (pos, neg)


def _build_ionq_op(o, qs, atol):
    k = o["k"]
    w = [qs[i] for i in _wires(o["w"], len(qs))]
    if k in ("X", "Y", "Z"):
        cls = {"X": cirq.XPowGate, "Y": cirq.YPowGate, "Z": cirq.ZPowGate}[k]
        op = cls(exponent=_exp(o["e"], atol), global_shift=o["s"]).on(*w)
    elif k in ("Rx", "Ry", "Rz"):
        op = {"Rx": cirq.rx, "Ry": cirq.ry, "Rz": cirq.rz}[k](_exp(o["e"], atol) * math.pi).on(*w)
    elif k == "H":
        op = cirq.HPowGate(exponent=_exp(o["e"], atol), global_shift=o["s"]).on(*w)
    elif k == "CNOT":
        op = cirq.CNotPowGate(exponent=_exp(o["e"], atol), global_shift=o["s"]).on(*w)
    elif k == "SWAP":
        op = cirq.SwapPowGate(exponent=_exp(o["e"], atol), global_shift=o["s"]).on(*w)
    elif k == "CXBY":
        op = cirq.X(w[1]).controlled_by(w[0])
    elif k in ("XX", "YY", "ZZ"):
        cls = {"XX": cirq.XXPowGate, "YY": cirq.YYPowGate, "ZZ": cirq.ZZPowGate}[k]
        op = cls(exponent=_exp(o["e"], atol), global_shift=o["s"]).on(*w)
    elif k == "MS":
        op = cirq.ms(o["r"]).on(*w)
    elif k == "PSP":
        ps = o["ps"][: len(w)]
        w = w[: len(ps)]
        if not ps:
            raise Reject("empty pauli string after shrinking")
        neg, pos = _psp_exponents(o)
        form = o["form"] if any(c != "I" for c in ps) else 0
        if form == 0:
            g = cirq.PauliStringPhasorGate(cirq.DensePauliString(ps, coefficient=o["sign"]), exponent_neg=neg, exponent_pos=pos)
            op = g.on(*w)
        else:
            pstr = cirq.PauliString({q: getattr(cirq, c) for q, c in zip(w, ps) if c != "I"}, coefficient=o["sign"])
            kw = {"qubits": w} if form == 2 else {}
            op = cirq.PauliStringPhasor(pstr, exponent_neg=neg, exponent_pos=pos, **kw)
    elif k == "GPI":
        op = cirq_ionq.GPIGate(phi=o["phi"]).on(*w)
    elif k == "GPI2":
        op = cirq_ionq.GPI2Gate(phi=o["phi"]).on(*w)
    else:
        raise KeyError(k)
    return op.with_tags("vf") if o.get("tag") else op


def _build_native_op(o, qs):
    k = o["k"]
    w = [qs[i] for i in _wires(o["w"], len(qs))]
    if k == "GPI":
        g = cirq_ionq.GPIGate(phi=o["phi"])
    elif k == "GPI2":
        g = cirq_ionq.GPI2Gate(phi=o["phi"])
    elif k == "MS":
        g = cirq_ionq.MSGate(phi0=o["phi0"], phi1=o["phi1"], theta=o["theta"])
    elif k == "ZZ":
        g = cirq_ionq.ZZGate(theta=o["theta"])
    else:
        raise KeyError(k)
    if o.get("inv"):
        g = g ** -1  # documented __pow__(-1) of the native gates
    op = g.on(*w)
    return op.with_tags("vf") if o.get("tag") else op


def _record_len(key, targets):
    return len(key) + 1 + len(",".join(str(t) for t in targets))


def _build_ionq_circuit(c, native, atol):
    """-> (circuit, n_wires_of_program, expected [(key, [x...])], number of gate ops)."""
    if not c["xs"]:
        raise Reject("no qubits")
    qs = [cirq.LineQubit(int(x)) for x in c["xs"]]
    ops = [_build_native_op(o, qs) if native else _build_ionq_op(o, qs, atol) for o in c["ops"]]
    circuit = cirq.Circuit(ops)
    meas = []
    for m in c["meas"]:
        t = [qs[i] for i in _wires(m["t"], len(qs))]
        if not t:
            raise Reject("measurement without targets")
        key = m["key"] if m["key"] is not None else cirq.measure(*t).gate.key
        meas.append([key, t, m.get("inv") or []])
    # steer the total metadata string length to a chunk boundary by padding the first key
    if meas and c.get("pad"):
        total = sum(_record_len(k, [q.x for q in t]) for k, t, _ in meas) + len(meas) - 1
        if c["pad"] > total:
            meas[0][0] = meas[0][0] + "p" * (c["pad"] - total)
    for key, t, inv in meas:
        kw = {"invert_mask": tuple(bool(b) for b in inv[: len(t)])} if any(inv) else {}
        circuit.append(cirq.measure(*t, key=key, **kw))
    if len(circuit) == 0:
        raise Reject("empty circuit")
    n = max(q.x for q in circuit.all_qubits()) + 1
    return circuit, n, [(k, [q.x for q in t]) for k, t, _ in meas], len(ops)


def _canon(x):
    y = x % 2
    return y - 2 if y > 1 else y


def _must_accept(c, native, atol):
    """True when every op of the recipe is inside the documented IonQ vocabulary with room to spare."""
    if native:
        return True
    for o in c["ops"]:
        if o["k"] in ("H", "CNOT", "SWAP"):
            e = _exp(o["e"], atol)
            if abs((e % 2) - 1) > 0.95 * atol:
                return False
        if o["k"] == "PSP":
            # cirq stores both exponents canonicalised into (-1, 1] half turns; the serializer documents a rejection
            # of negative evolution times computed from the stored values
            neg, pos = _canon(o["pos"] + o["gap"]), _canon(o["pos"])
            if neg - pos < 1e-12:
                return False
    return True


def _md_may_be_too_long(built):
    """Decided from the recipe, not from the message: the documented metadata format has at most ten values
    (measurement0..9) of 40 characters; the serializer rejects more than nine.  A circuit whose key/target records need
    more than 9 * 40 characters may therefore legitimately be rejected (any ValueError message)."""
    for _, _, expected, _ in built:
        if expected and sum(_record_len(k, xs) for k, xs in expected) + len(expected) - 1 > 9 * 40:
            return True
    return False


def _check_metadata(what, md, expected):
    got = RI.parse_measurement_metadata(md)
    keys = [k for k, _ in got]
    if len(set(keys)) != len(keys):
        raise Violation(f"{what}: measurement metadata repeats a key: {keys}")
    if dict(got) != dict(expected) or len(got) != len(expected):
        raise Violation(f"{what}: measurement metadata decodes to {got}, circuit measures {expected}")
    sizes = RI.chunk_sizes(md)
    if any(s > 40 or s == 0 for s in sizes):
        raise Violation(f"{what}: metadata chunk sizes {sizes} violate the 40 character limit of IonQ metadata values")
    return sizes


def _serialize_ionq(r):
    atol = ATOLS[r["atol"] % len(ATOLS)]
    native = bool(r["native"])
    built = [_build_ionq_circuit(c, native, atol) for c in r["circs"]]
    s = r["settings"]
    kw = {k: copy.deepcopy(s[k]) for k in ("job_settings", "compilation", "error_mitigation", "noise", "metadata")}
    ser = cirq_ionq.Serializer(atol=atol) if r["atol"] % len(ATOLS) else cirq_ionq.Serializer()
    before = [c.copy() for c, *_ in built]
    try:
        if r["batch"]:
            prog = ser.serialize_many_circuits([c for c, *_ in built], dry_run=s["dry_run"], **kw)
        else:
            prog = ser.serialize_single_circuit(built[0][0], dry_run=s["dry_run"], **kw)
    except (ValueError, NotSupportedPauliexpParameters) as e:
        return built, atol, None, e
    except IonQSerializerMixedGatesetsException as e:
        # documented for batches; a circuit without any gate (measurements only) counts as "native" for the serializer
        if r["batch"] and any(nops == 0 for *_, nops in built):
            raise Reject("documented rejection: gate-less circuit in a QIS batch counts as native")
        raise Violation(f"batch of circuits over one vocabulary rejected as mixed: {e}")
    for (c, *_), b in zip(built, before):
        if c != b:
            raise Violation("serializer modified the circuit it was given")
    return built, atol, prog, None


def _check_program(r, built, atol, prog, what="Serializer"):
    """Checks one SerializedProgram-like triple (input body, metadata, pass-through) against the circuits."""
    body = _jsonable(prog.input, f"{what} input")
    native = bool(r["native"])
    want_gateset = "native" if native and any(nops for *_, nops in built) else None
    if want_gateset and body.get("gateset") != want_gateset:
        raise Violation(f"{what}: gateset {body.get('gateset')!r} for a circuit of native gates")
    if not native and any(nops for *_, nops in built) and body.get("gateset") != "qis":
        raise Violation(f"{what}: gateset {body.get('gateset')!r} for a circuit of QIS gates")
    nmax = max(n for _, n, _, _ in built)
    if body.get("qubits") != nmax:
        raise Violation(f"{what}: body declares {body.get('qubits')} qubits, circuits need {nmax}")
    if ("circuits" in body) != bool(r["batch"]):
        raise Violation(f"{what}: batch/single body shape mismatch")
    try:
        us = RI.interpret(body)
    except RI.PayloadError as e:
        raise Violation(f"{what}: payload is not a well-formed IonQ program: {e}")
    if len(us) != len(built):
        raise Violation(f"{what}: {len(us)} programs for {len(built)} circuits")
    worst = 0.0
    for i, (u, (circuit, n, expected, nops)) in enumerate(zip(us, built)):
        tol = 10 * atol * max(1, nops)
        worst = max(worst, _cmp_unitary(f"{what} circuit {i}", u, _circuit_unitary(circuit, nmax), tol))
    md = _jsonable(prog.metadata, f"{what} metadata")
    chunks = []
    if r["batch"]:
        try:
            per = json.loads(md["measurements"])
            qn = json.loads(md["qubit_numbers"])
        except (KeyError, ValueError, TypeError) as e:
            raise Violation(f"{what}: batch metadata lacks JSON 'measurements'/'qubit_numbers': {e}")
        if qn != [n for _, n, _, _ in built]:
            raise Violation(f"{what}: qubit_numbers {qn} != per-circuit qubit counts {[n for _, n, _, _ in built]}")
        if len(per) != len(built):
            raise Violation(f"{what}: {len(per)} measurement records for {len(built)} circuits")
        for i, (m, (_, _, expected, _)) in enumerate(zip(per, built)):
            chunks += _check_metadata(f"{what} circuit {i}", m, expected)
    else:
        chunks = _check_metadata(what, md, built[0][2])
    return worst, chunks


def _check_passthrough(r, prog):
    s = r["settings"]
    for field, key in (("settings", "job_settings"), ("compilation", "compilation"), ("error_mitigation", "error_mitigation"),
                       ("noise", "noise")):
        if getattr(prog, field) != (s[key] or {}):
            raise Violation(f"SerializedProgram.{field} = {getattr(prog, field)!r}, caller passed {s[key]!r}")
    if prog.dry_run != s["dry_run"]:
        raise Violation(f"SerializedProgram.dry_run = {prog.dry_run!r}, caller passed {s['dry_run']!r}")
    for k, v in (s["metadata"] or {}).items():
        if prog.metadata.get(k) != v:
            raise Violation(f"user metadata entry {k!r} changed to {prog.metadata.get(k)!r}")


def _ionq_labels(r, built, chunks):
    ops = [o for c in r["circs"] for o in c["ops"]]
    keysets = [c["meas"] for c in r["circs"]]
    near = any(_near(o["e"]) for o in ops if "e" in o)
    psp_perm = any(o["k"] == "PSP" and len(o["ps"]) >= 2 and (o["ps"] != o["ps"][::-1]) for o in ops)
    multi = any(len(m) >= 2 and any(list(x["t"]) != sorted(x["t"]) for x in m) for m in keysets)
    gaps = any(sorted(c["xs"]) != list(range(len(c["xs"]))) for c in r["circs"])
    ms_asym = any(o["k"] == "MS" and "phi0" in o and o["phi0"] != o["phi1"] and o["theta"] != 0 for o in ops)
    return {
        "nontrivial": bool(near or psp_perm or multi or ms_asym), "near_special": near, "ms_asym_phases": ms_asym,
        "period_shift": any(o["e"]["k"] != 0 for o in ops if "e" in o),
        "pauliexp_asym": psp_perm, "multi_key_unordered": multi, "gaps": gaps, "batch": bool(r["batch"]),
        "chunks>=2": len(chunks) >= 2, "chunk_exact_40": any(s == 40 for s in chunks) and len(chunks) >= 1,
        "custom_atol": r["atol"] % len(ATOLS) != 0, "two_qubit": any(len(o["w"]) >= 2 for o in ops),
    }


def oracle_ionq_serializer(r):
    sub = "ionq_native" if r["native"] else "ionq_qis"
    built, atol, prog, err = _serialize_ionq(r)
    if err is not None:
        if _has_ionq_invert_mask(sub, r) or _has_ionq_repeated_key(sub, r):
            return {"nontrivial": False, "unsupported_measurement_rejected": True}
        if all(_must_accept(c, r["native"], atol) for c in r["circs"]) and not _md_may_be_too_long(built):
            raise Violation(f"circuit inside the documented IonQ vocabulary was rejected: {type(err).__name__}: {err}")
        raise Reject(f"documented rejection: {type(err).__name__}")
    _check_invert_and_repeats(r)
    worst, chunks = _check_program(r, built, atol, prog)
    _check_passthrough(r, prog)
    return _ionq_labels(r, built, chunks)


def _check_invert_and_repeats(r):
    for c in r["circs"]:
        for m in c["meas"]:
            if any(m.get("inv") or []):
                raise Violation("measurement with an invert_mask was serialised as a plain measurement (mask silently dropped)")


# ======================================================================================== IonQ: unsupported content

UNSUPPORTED = ["gate", "gate", "gate", "oddexp", "oddexp", "oddexp", "grid", "named", "negative", "midmeas", "param", "sepkey", "empty", "circuitop",
               "classical", "mixed_batch", "longkeys", "invert_mask", "confusion", "repeated_key"]

@st.composite
def _reject_case(draw):
    kind = draw(st.sampled_from(UNSUPPORTED))
    base = draw(_ionq_circ(False, max_ops=3))
    r = {"kind": kind, "base": base, "pos": draw(st.integers(0, 3)), "batch": draw(st.booleans())}
    if kind == "gate":
        r["g"] = draw(G.gate_recipes(lambda f: f.unitary and not f.qudit and "zeroq" not in f.tags and f.name not in
                                     ("XPow", "YPow", "ZPow", "Rx", "Ry", "Rz", "XXPow", "YYPow", "ZZPow", "MS", "GPI", "GPI2",
                                      "IonqMS", "IonqZZ"), max_arity=3))
        r["w"] = list(draw(st.permutations(list(range(6)))))[:3]
    if kind == "oddexp":
        r["g"] = [draw(st.sampled_from(["HPow", "CXPow", "SwapPow"])),
                  {"e": draw(st.sampled_from([0.0, 2.0, -2.0, 4.0, 0.5, -0.5, 1.5, 0.25, 1.00001, 0.99, 1e-9, 2 + 1e-9, 3.0, -1.0, 1 / 3])),
                   "s": draw(G.shifts())}]
        r["w"] = list(draw(st.permutations(list(range(6)))))[:3]
    return r


def oracle_ionq_rejects(r):
    kind = r["kind"]
    base = json.loads(json.dumps(r["base"]))
    for m in base["meas"]:
        m["inv"] = []
    keys = [m["key"] for m in base["meas"]]
    if len(set(keys)) != len(keys):
        raise Reject("repeated key")
    base["pad"] = 0
    base["ops"] = [o for o in base["ops"] if _must_accept({"ops": [o]}, False, 1e-8)]
    circuit, n, expected, nops = _build_ionq_circuit(base, False, 1e-8)
    gates_part = cirq.Circuit(op for op in circuit.all_operations() if not cirq.is_measurement(op))
    meas_part = [op for op in circuit.all_operations() if cirq.is_measurement(op)]
    extra_exc = ()
    must_raise = True
    circuits = None
    if kind in ("gate", "oddexp"):
        g = G.build_gate(r["g"])
        k = cirq.num_qubits(g)
        qs = [cirq.LineQubit(i) for i in r["w"][:k]]
        if len(qs) < k:
            raise Reject("not enough wires")
        planted = cirq.Circuit(gates_part, g.on(*qs), [op for op in meas_part if not (set(op.qubits) & set(qs))])
        must_raise = False
        extra_exc = (NotSupportedPauliexpParameters,)
    elif kind in ("grid", "named", "negative"):
        q = {"grid": cirq.GridQubit(0, 1), "named": cirq.NamedQubit("a"), "negative": cirq.LineQubit(-1)}[kind]
        planted = cirq.Circuit(gates_part, cirq.X(q) ** 0.5, meas_part)
    elif kind == "midmeas":
        q = cirq.LineQubit(base["xs"][0])
        planted = cirq.Circuit(gates_part, cirq.measure(q, key="mid"), cirq.X(q))
    elif kind == "param":
        import sympy

        q = cirq.LineQubit(base["xs"][0])
        planted = cirq.Circuit(gates_part, [cirq.X, cirq.Z, cirq.XX, cirq.H][r["pos"] % 4].on(
            *cirq.LineQubit.range(7, 7 + (2 if r["pos"] % 4 == 2 else 1))) ** sympy.Symbol("t"), meas_part)
    elif kind == "sepkey":
        q = cirq.LineQubit(9)
        planted = cirq.Circuit(gates_part, meas_part, cirq.measure(q, key="a" + chr(30 + r["pos"] % 2) + "b"))
    elif kind == "empty":
        planted = cirq.Circuit()
    elif kind == "circuitop":
        planted = cirq.Circuit(cirq.CircuitOperation(cirq.FrozenCircuit(gates_part, cirq.X(cirq.LineQubit(0)))), meas_part)
    elif kind == "classical":
        q = cirq.LineQubit(9)
        planted = cirq.Circuit(gates_part, cirq.measure(q, key="c"), cirq.X(cirq.LineQubit(8)).with_classical_controls("c"))
    elif kind == "mixed_batch":
        q = cirq.LineQubit(0)
        circuits = [cirq.Circuit(cirq.X(q) ** 0.3, gates_part), cirq.Circuit(cirq_ionq.GPI2Gate(phi=0.1).on(q))]
        if r["pos"] % 2:
            circuits.reverse()
        extra_exc = (IonQSerializerMixedGatesetsException,)
        planted = None
    elif kind == "invert_mask":
        qs = cirq.LineQubit.range(7, 9)
        planted = cirq.Circuit(gates_part, meas_part, cirq.measure(*qs, key="inv", invert_mask=(bool(r["pos"] % 2), True)))
    elif kind == "confusion":
        q = cirq.LineQubit(9)
        planted = cirq.Circuit(gates_part, meas_part, cirq.measure(q, key="cm", confusion_map={(0,): np.array([[0.9, 0.1], [0.2, 0.8]])}))
    elif kind == "repeated_key":
        qs = cirq.LineQubit.range(7, 9)
        planted = cirq.Circuit(gates_part, meas_part, cirq.measure(qs[0], key="rep"), cirq.measure(qs[1], key="rep"))
    elif kind == "longkeys":
        qs = cirq.LineQubit.range(6)
        planted = cirq.Circuit(gates_part, [cirq.measure(q, key="k" * (80 + r["pos"]) + str(i)) for i, q in enumerate(qs)])
    else:
        raise KeyError(kind)
    ser = cirq_ionq.Serializer()
    try:
        if circuits is not None:
            prog = ser.serialize_many_circuits(circuits)
        elif r["batch"]:
            prog = ser.serialize_many_circuits([planted])
        else:
            prog = ser.serialize_single_circuit(planted)
    except (ValueError,) + extra_exc as e:
        return {"nontrivial": True, "rejected": True, "kind": kind, "family": r["g"][0] if kind in ("gate", "oddexp") else "-"}
    if must_raise:
        raise Violation(f"unsupported content ({kind}) was serialised instead of raising ValueError")
    # a gate outside the listed vocabulary got through: it must at least mean the same
    nn = max(q.x for q in planted.all_qubits()) + 1
    body = _jsonable(prog.input, "input")
    try:
        us = RI.interpret(body)
    except RI.PayloadError as e:
        raise Violation(f"accepted gate {r['g']} gives a malformed payload: {e}")
    nops = sum(1 for _ in planted.all_operations())
    d = L.diff_up_to_phase(us[0], _circuit_unitary(planted, nn))
    if not d <= 1e-7 * nops:
        raise Violation(f"gate outside the IonQ vocabulary ({r['g'][0]}) was altered instead of rejected: payload differs by {d:.3g}")
    return {"nontrivial": False, "accepted_equivalent": True, "kind": kind, "family": r["g"][0]}


# ======================================================================================== IonQ results

@st.composite
def _hist(draw, n):
    k = draw(st.integers(1, min(6, 2 ** n)))
    outcomes = draw(st.lists(st.integers(0, 2 ** n - 1), min_size=k, max_size=k, unique=True))
    weights = draw(st.lists(st.integers(1, 40), min_size=k, max_size=k))
    return [[o, w] for o, w in zip(outcomes, weights)]


@st.composite
def _result_keys(draw, n):
    nk = draw(st.sampled_from([0, 1, 1, 2, 2, 3, 3, 4]))
    out = []
    for i in range(nk):
        m = draw(st.integers(1, n))
        t = list(draw(st.permutations(list(range(n)))))[:m]
        key = draw(st.text(KEY_ALPHABET, min_size=1, max_size=draw(st.sampled_from([2, 6, 12, 30])))) + str(i)
        out.append({"key": key, "t": t})
    return out


@st.composite
def _results_case(draw):
    batch = draw(_one_in(3))
    nc = draw(st.integers(1, 3)) if batch else 1
    circs = []
    for _ in range(nc):
        n = draw(st.integers(1, 6))
        circs.append({"n": n, "hist": draw(_hist(n)), "keys": draw(_result_keys(n))})
    return {"batch": batch, "target": draw(st.sampled_from(["qpu", "qpu.aria-1", "qpu.forte-1", "simulator"])), "circs": circs,
            "strings": draw(st.booleans()), "mult": draw(st.integers(1, 3)), "chunk": draw(st.sampled_from([40, 40, 40, 7, 13])),
            "order": draw(st.integers(0, 5)), "qubits_as_str": draw(st.booleans())}


def _bits_of(outcome, n):
    """Outcome index -> bits[q] (harness convention: big-endian in q, i.e. qubit 0 is the most significant bit)."""
    return [(outcome >> (n - 1 - q)) & 1 for q in range(n)]


def _encode_md(keys, chunk):
    full = chr(30).join(k["key"] + chr(31) + ",".join(str(t) for t in k["t"]) for k in keys)
    return {f"measurement{i}": full[p: p + chunk] for i, p in enumerate(range(0, len(full), chunk))}


class _FakeResultsClient:
    def __init__(self, payload):
        self.payload = payload
        self.calls = 0

    def get_results(self, job_id, sharpen=None, extra_query_params=None):
        self.calls += 1
        return self.payload

    def get_job(self, job_id):  # the job is terminal; a refresh would be a defect of its own
        raise AssertionError("get_job called for a completed job")


def oracle_ionq_results(r):
    circs = r["circs"]
    for c in circs:
        ks = [k["key"] for k in c["keys"]]
        if len(set(ks)) != len(ks) or c["n"] < 1 or not c["hist"] or any(not k["t"] for k in c["keys"]):
            raise Reject("degenerate after shrinking")
        if len({o for o, _ in c["hist"]}) != len(c["hist"]) or any(o >= 2 ** c["n"] or w < 1 for o, w in c["hist"]):
            raise Reject("degenerate histogram")
        if any(t >= c["n"] for k in c["keys"] for t in k["t"]) or any(len(set(k["t"])) != len(k["t"]) for k in c["keys"]):
            raise Reject("bad targets")
    sim = r["target"] == "simulator"
    totals = [sum(w for _, w in c["hist"]) for c in circs]
    shots = max(totals)
    hists = []
    for c, tot in zip(circs, totals):
        h = [[o, w] for o, w in c["hist"]]
        h[0][1] += shots - tot  # every circuit of a batch shares the shot count
        hists.append(h)
    if sim:
        for h in hists:  # a unique most likely outcome (the scripted sampler asks for it by its weight)
            top = max(w for _, w in h)
            if sum(1 for _, w in h if w == top) > 1:
                next(x for x in h if x[1] == top)[1] += 1
        shots = r["mult"] * (len(hists[0]) + 1)
    # ---- what IonQ would send
    payloads = []
    for c, h in zip(circs, hists):
        items = [(RI.little_endian_key(_bits_of(o, c["n"])), w / sum(w2 for _, w2 in h)) for o, w in h]
        if r["order"] % 2:
            items.reverse()
        payloads.append({str(k): (repr(v) if r["strings"] else v) for k, v in items})
    chunk = r["chunk"]
    if r["batch"]:
        md = {"measurements": json.dumps([_encode_md(c["keys"], chunk) for c in circs]),
              "qubit_numbers": json.dumps([c["n"] for c in circs])}
        served = {f"0190070f-{i:04d}": p for i, p in enumerate(payloads)}
    else:
        md = _encode_md(circs[0]["keys"], chunk)
        served = payloads[0]
    md["shots"] = str(shots) if r["strings"] else shots
    nmax = max(c["n"] for c in circs)
    job_dict = {"id": "job-1", "status": "completed", "backend": r["target"], "name": "n",
                "stats": {"qubits": str(nmax) if r["qubits_as_str"] else nmax}, "metadata": md}
    client = _FakeResultsClient(served)
    job = cirq_ionq.Job(client, job_dict)
    res = job.results()
    res = res if isinstance(res, list) else [res]
    if len(res) != len(circs):
        raise Violation(f"Job.results() returned {len(res)} results for {len(circs)} circuits")
    asym = False
    for ci, (c, h, one) in enumerate(zip(circs, hists, res)):
        n = c["n"]
        keys = c["keys"]
        want_md = {k["key"]: list(k["t"]) for k in keys}
        tag = f"circuit {ci}: " if r["batch"] else ""
        if isinstance(one, cirq_ionq.SimulatorResult) != sim:
            raise Violation(f"{tag}target {r['target']} produced a {type(one).__name__}")
        if one.num_qubits() != n:
            raise Violation(f"{tag}num_qubits() = {one.num_qubits()}, expected {n}")
        if {k: list(v) for k, v in one.measurement_dict().items()} != want_md:
            raise Violation(f"{tag}measurement_dict() = {dict(one.measurement_dict())}, metadata encodes {want_md}")
        if one.repetitions() != shots:
            raise Violation(f"{tag}repetitions() = {one.repetitions()}, expected {shots}")
        outcomes = [(_bits_of(o, n), w) for o, w in h]
        asym = asym or Counter({tuple(b): w for b, w in outcomes}) != Counter({tuple(b[::-1]): w for b, w in outcomes})
        tot = sum(w for _, w in outcomes)
        if not sim:
            full = Counter({RI.big_endian_value(b): w for b, w in outcomes})
            if one.counts() != full:
                raise Violation(f"{tag}counts() = {dict(one.counts())}, expected {dict(full)} (big-endian over qubits 0..{n - 1})")
            joint_want = Counter()
            for b, w in outcomes:
                joint_want[(RI.big_endian_value(b),) + tuple(RI.big_endian_value([b[t] for t in k["t"]]) for k in keys)] += w
            cols = [one.ordered_results()] + [one.ordered_results(k["key"]) for k in keys]
            if any(len(col) != tot for col in cols):
                raise Violation(f"{tag}ordered_results lengths {[len(col) for col in cols]}, expected {tot}")
            if Counter(zip(*cols)) != joint_want:
                raise Violation(f"{tag}ordered_results (all qubits + per key, position-wise) disagree with the histogram")
            for k in keys:
                want = Counter()
                for b, w in outcomes:
                    want[RI.big_endian_value([b[t] for t in k["t"]])] += w
                if one.counts(k["key"]) != want:
                    raise Violation(f"{tag}counts(key) for targets {k['t']} = {dict(one.counts(k['key']))}, expected {dict(want)}")
            if keys:
                cr = one.to_cirq_result()
                _check_cirq_result(tag + "QPUResult.to_cirq_result", cr, keys, Counter({tuple(b): w for b, w in outcomes}), tot)
            else:
                try:
                    one.to_cirq_result()
                except ValueError:
                    pass
                else:
                    raise Violation(f"{tag}to_cirq_result() without measurement keys did not raise ValueError")
        else:
            full = {RI.big_endian_value(b): w / tot for b, w in outcomes}
            got = one.probabilities()
            if set(got) != set(full) or any(abs(got[x] - full[x]) > 1e-12 for x in full):
                raise Violation(f"{tag}probabilities() = {got}, expected {full}")
            for k in keys:
                want = {}
                for b, w in outcomes:
                    v = RI.big_endian_value([b[t] for t in k["t"]])
                    want[v] = want.get(v, 0.0) + w / tot
                got = one.probabilities(k["key"])
                if set(got) != set(want) or any(abs(got[x] - want[x]) > 1e-12 for x in want):
                    raise Violation(f"{tag}probabilities(key) for targets {k['t']} = {got}, expected {want}")
            if keys:
                m = r["mult"]
                reps = m * (len(outcomes) + 1)

                def script(nn, probs, cnt, m=m):
                    # every index m times, then m times the index that carries the largest weight
                    return ([i % nn for i in range(m * nn)] + [int(np.argmax(probs))] * cnt)[:cnt]

                prng = ScriptedPRNG(vector_script=script)
                override = None if (shots == reps and r["order"] % 3) else reps
                cr = one.to_cirq_result(seed=prng, override_repetitions=override)
                if len(prng.vector_log) != 1:
                    raise Violation(f"{tag}SimulatorResult.to_cirq_result drew {len(prng.vector_log)} vectors from the seed object")
                p = sorted(prng.vector_log[0]["p"].tolist())
                if len(p) != len(outcomes) or max(abs(a - b) for a, b in zip(p, sorted(w / tot for _, w in outcomes))) > 1e-9:
                    raise Violation(f"{tag}SimulatorResult.to_cirq_result samples with weights {p}")
                wtop = max(w for _, w in outcomes)
                _check_cirq_result(tag + "SimulatorResult.to_cirq_result", cr, keys,
                                   Counter({tuple(b): m * (2 if w == wtop else 1) for b, w in outcomes}), reps)
        for bad in ("", "nokey\u0000"):
            if bad not in want_md:
                try:
                    (one.probabilities if sim else one.counts)(bad)
                except ValueError:
                    pass
                else:
                    raise Violation(f"{tag}unknown measurement key did not raise ValueError")
    multi = any(len(c["keys"]) >= 2 and len({tuple(k["t"]) for k in c["keys"]}) >= 2 for c in circs)
    overlap = any(len({t for k in c["keys"] for t in k["t"]}) < sum(len(k["t"]) for k in c["keys"]) for c in circs)
    partial = any(c["keys"] and len({t for k in c["keys"] for t in k["t"]}) < c["n"] for c in circs)
    return {"nontrivial": bool(asym and any(c["keys"] for c in circs)), "asymmetric_hist": asym, "multi_key": multi, "overlap": overlap,
            "partial": partial, "batch": bool(r["batch"]), "sim": sim, "n>=3": any(c["n"] >= 3 for c in circs),
            "md_chunks>=2": any(len(_encode_md(c["keys"], chunk)) >= 2 for c in circs)}


def _check_cirq_result(what, cr, keys, outcome_counts, reps):
    ms = cr.measurements
    if set(ms) != {k["key"] for k in keys}:
        raise Violation(f"{what}: keys {sorted(ms)} expected {sorted(k['key'] for k in keys)}")
    for k in keys:
        a = np.asarray(ms[k["key"]])
        if a.shape != (reps, len(k["t"])):
            raise Violation(f"{what}: measurements[{k['key']!r}] has shape {a.shape}, expected {(reps, len(k['t']))}")
    got = Counter(tuple(tuple(int(x) for x in ms[k["key"]][i]) for k in keys) for i in range(reps))
    want = Counter()
    for bits, w in outcome_counts.items():
        want[tuple(tuple(bits[t] for t in k["t"]) for k in keys)] += w
    if got != want:
        raise Violation(f"{what}: joint rows over keys {[k['t'] for k in keys]} = {dict(got)}, expected {dict(want)}")


# ======================================================================================== IonQ service end to end

class _Resp:
    def __init__(self, payload, text=None):
        self._p = payload
        self.ok = True
        self.status_code = 200
        self.reason = "OK"
        self.text = text if text is not None else json.dumps(payload)

    def json(self):
        return self._p

    def raise_for_status(self):
        return None


class _FakeIonQ:
    """requests-like object standing in for the IonQ REST API (documented semantics via vf.ref.ionq)."""

    class RequestException(Exception):
        pass

    class codes:  # noqa
        unauthorized = 401
        not_found = 404

    def __init__(self):
        self.posted = []
        self.jobs = {}

    def post(self, url, json=None, headers=None):  # noqa: A002
        body = _json.loads(_json.dumps(json))
        self.posted.append(body)
        jid = f"job-{len(self.posted)}"
        self.jobs[jid] = {"id": jid, "status": "completed", "backend": body["backend"], "name": body.get("name", ""),
                          "metadata": body["metadata"], "stats": {"qubits": str(body["input"]["qubits"])}}
        return _Resp({"id": jid, "status": "ready"})

    def get(self, url, params=None, headers=None):
        jid = max((j for j in self.jobs if j in url), key=len)  # the job id the client put into the URL
        if "/results" in url:
            body = self.posted[int(jid.split("-")[1]) - 1]
            batch = body.get("type") == "ionq.multi-circuit.v1"
            n = body["input"]["qubits"]
            us = RI.interpret(body["input"])
            out = {}
            qn = json.loads(body["metadata"]["qubit_numbers"]) if batch else [n]
            for i, (u, ni) in enumerate(zip(us, qn)):
                psi = u[:, 0]
                h = {}
                for idx in range(2 ** n):
                    p = float(abs(psi[idx]) ** 2)
                    if p > 1e-12:
                        bits = L.index_to_digits(idx, [2] * n)[:ni]  # wires beyond the circuit's own count stay idle in |0>
                        key = str(RI.little_endian_key(bits))
                        h[key] = h.get(key, 0.0) + p
                out[f"uuid-{i}"] = h
            return _Resp(out if batch else out["uuid-0"])
        return _Resp(self.jobs[jid])


@contextlib.contextmanager
def _patched(mod, **attrs):
    old = {k: getattr(mod, k) for k in attrs}
    for k, v in attrs.items():
        setattr(mod, k, v)
    try:
        yield
    finally:
        for k, v in old.items():
            setattr(mod, k, v)


def oracle_ionq_service(r):
    sub = "ionq_service"
    r = dict(r, atol=0)
    atol = 1e-8
    native = bool(r["native"])
    built = [_build_ionq_circuit(c, native, atol) for c in r["circs"]]
    for c in r["circs"]:
        ks = [m["key"] for m in c["meas"]]
        if len(set(ks)) != len(ks) or any(any(m.get("inv") or []) for m in c["meas"]):
            raise Reject("repeated key / invert mask: covered by ionq_qis")
    s = r["settings"]
    fake = _FakeIonQ()
    target = ["simulator", "qpu"][r.get("tgt", 0) % 2]
    svc = cirq_ionq.Service(remote_host="http://example.com", api_key="key", default_target=target,
                            job_settings=copy.deepcopy(s["job_settings"]))
    kw = {k: copy.deepcopy(s[k]) for k in ("compilation", "error_mitigation", "noise", "metadata")}
    reps = (100 + r.get("reps", 0)) * (1000 if target == "qpu" else 1)
    with _patched(_ionq_client_mod, requests=fake):
        try:
            if r["batch"]:
                job = svc.create_batch_job([c for c, *_ in built], repetitions=reps, name="nm", dry_run=False, **kw)
            else:
                job = svc.create_job(built[0][0], repetitions=reps, name="nm", dry_run=False, **kw)
        except (ValueError, NotSupportedPauliexpParameters) as e:
            if all(_must_accept(c, native, atol) for c in r["circs"]) and not _md_may_be_too_long(built):
                raise Violation(f"circuit inside the documented IonQ vocabulary was rejected: {type(e).__name__}: {e}")
            raise Reject(f"documented rejection: {type(e).__name__}")
        except IonQSerializerMixedGatesetsException:
            if r["batch"] and any(nops == 0 for *_, nops in built):
                raise Reject("documented rejection: gate-less circuit in a QIS batch counts as native")
            raise
        if len(fake.posted) != 1:
            raise Violation(f"{len(fake.posted)} POST requests for one job")
        body = fake.posted[0]

        class P:  # view of the POST body shaped like a SerializedProgram
            input = body["input"]
            metadata = body["metadata"]

        _, chunks = _check_program(r, built, atol, P, what="POST /jobs body")
        # documented body fields
        if body.get("backend") != target or body.get("shots") != str(reps) or body["metadata"].get("shots") != str(reps):
            raise Violation(f"POST body backend/shots = {body.get('backend')!r}/{body.get('shots')!r}/{body['metadata'].get('shots')!r}")
        if body.get("type") != ("ionq.multi-circuit.v1" if r["batch"] else "ionq.circuit.v1"):
            raise Violation(f"POST body type {body.get('type')!r}")
        want_settings = dict(s["job_settings"] or {})
        if s["error_mitigation"]:
            want_settings["error_mitigation"] = s["error_mitigation"]
        if s["compilation"]:
            want_settings["compilation"] = s["compilation"]
        if body.get("settings", {}) != want_settings:
            raise Violation(f"POST body settings {body.get('settings')!r}, expected {want_settings!r}")
        if body.get("noise", {}) != (s["noise"] or {}):
            raise Violation(f"POST body noise {body.get('noise')!r}, caller passed {s['noise']!r}")
        for k, v in (s["metadata"] or {}).items():
            if body["metadata"].get(k) != v:
                raise Violation(f"user metadata entry {k!r} arrived as {body['metadata'].get(k)!r}")
        # results served by the reference IonQ must reproduce cirq's own simulation per key
        res = job.results()
    res = res if isinstance(res, list) else [res]
    if len(res) != len(built):
        raise Violation(f"{len(res)} results for {len(built)} circuits")
    nkeys = 0
    for i, (one, (circuit, n, expected, nops)) in enumerate(zip(res, built)):
        psi = _circuit_unitary(circuit, n)[:, 0]
        probs = np.abs(psi) ** 2
        if one.num_qubits() != n:
            raise Violation(f"result {i}: num_qubits {one.num_qubits()} expected {n}")
        for key, xs in expected:
            want = {}
            for idx in range(2 ** n):
                if probs[idx] > 1e-12:
                    bits = L.index_to_digits(idx, [2] * n)
                    v = RI.big_endian_value([bits[x] for x in xs])
                    want[v] = want.get(v, 0.0) + float(probs[idx])
            if target == "simulator":
                got = one.probabilities(key)
            else:
                got = {k: v / reps for k, v in one.counts(key).items()}
                want = {k: v for k, v in want.items()}
            tol = 1e-6 + 20 * atol * max(1, nops) if target == "simulator" else 1.0 / reps * (2 ** n) + 1e-6
            allk = set(got) | set(want)
            bad = [k for k in allk if abs(got.get(k, 0.0) - want.get(k, 0.0)) > tol]
            if bad:
                raise Violation(f"result {i} key targets {xs}: {target} distribution {got} differs from the circuit's {want}")
            nkeys += 1
    lab = _ionq_labels(r, built, chunks)
    lab["nontrivial"] = bool(nkeys and any(nops for *_, nops in built))
    lab["target"] = target
    return lab


@st.composite
def _service_case(draw):
    r = draw(_ionq_case(draw(_one_in(4))))
    r["tgt"] = draw(st.integers(0, 1))
    r["reps"] = draw(st.integers(0, 900))
    return r


@st.composite
def _sampler_case(draw):
    base = draw(_ionq_circ(False, max_ops=4))
    base["pad"] = 0
    for m in base["meas"]:
        m["inv"] = []
    vals = draw(st.lists(st.sampled_from([0.0, 1.0, 0.5, 0.25, 1.5, 2.0, 1 / 3]), min_size=2, max_size=3, unique=True))
    return {"base": base, "vals": vals, "reps": draw(st.integers(50, 4000)), "wire": draw(st.integers(0, 4)),
            "gate": draw(st.sampled_from(["X", "Y", "XX"]))}


def oracle_ionq_sampler(r):
    """cirq_ionq.Sampler.run_sweep on a QPU target: job i belongs to resolver i (params and histogram)."""
    import sympy

    base = json.loads(json.dumps(r["base"]))
    base["ops"] = [o for o in base["ops"] if _must_accept({"ops": [o]}, False, 1e-8)]
    keys = [m["key"] for m in base["meas"]]
    if len(set(keys)) != len(keys) or not r["vals"]:
        raise Reject("repeated key")
    circuit, n, expected, nops = _build_ionq_circuit(base, False, 1e-8)
    qs = sorted(circuit.all_qubits())
    gates = [op for op in circuit.all_operations() if not cirq.is_measurement(op)]
    meas = [op for op in circuit.all_operations() if cirq.is_measurement(op)]
    t = sympy.Symbol("t")
    q = qs[r["wire"] % len(qs)]
    if r["gate"] == "XX" and len(qs) >= 2:
        par = cirq.XX(q, qs[(r["wire"] + 1) % len(qs)]) ** t
    else:
        par = (cirq.Y if r["gate"] == "Y" else cirq.X)(q) ** t
    if not meas:
        meas = [cirq.measure(*qs, key="all")]
        expected = [("all", [x.x for x in qs])]
    program = cirq.Circuit(gates, par, meas)
    resolvers = [cirq.ParamResolver({"t": v}) for v in r["vals"]]
    reps = int(r["reps"])
    fake = _FakeIonQ()
    svc = cirq_ionq.Service(remote_host="http://example.com", api_key="key")
    with _patched(_ionq_client_mod, requests=fake):
        try:
            results = svc.sampler(target="qpu").run_sweep(program, params=resolvers, repetitions=reps)
        except (ValueError, NotSupportedPauliexpParameters) as e:
            raise Violation(f"circuit inside the documented IonQ vocabulary was rejected: {type(e).__name__}: {e}")
    if len(results) != len(resolvers) or len(fake.posted) != len(resolvers):
        raise Violation(f"{len(results)} results / {len(fake.posted)} jobs for {len(resolvers)} resolvers")
    nn = max(x.x for x in program.all_qubits()) + 1
    distinct = set()
    for i, (res, pr) in enumerate(zip(results, resolvers)):
        if dict(res.params.param_dict) != dict(pr.param_dict):
            raise Violation(f"result {i} carries params {res.params}, expected {pr}")
        psi = _circuit_unitary(cirq.resolve_parameters(program, pr), nn)[:, 0]
        probs = np.abs(psi) ** 2
        slack = 2 ** nn * 0.5 + 1  # the API reports frequencies; every full outcome is rounded to an integer count
        for key, xs in expected:
            a = np.asarray(res.measurements[key]).astype(int)
            if a.ndim != 2 or a.shape[1] != len(xs) or abs(a.shape[0] - reps) > slack:
                raise Violation(f"result {i} key {key!r}: shape {a.shape}, expected about {(reps, len(xs))}")
            got = Counter(tuple(row) for row in a.tolist())
            want = Counter()
            for idx in range(2 ** nn):
                if probs[idx] > 1e-12:
                    bits = L.index_to_digits(idx, [2] * nn)
                    want[tuple(bits[x] for x in xs)] += float(probs[idx]) * reps
            bad = [k for k in set(got) | set(want) if abs(got.get(k, 0) - want.get(k, 0.0)) > slack]
            if bad:
                raise Violation(f"result {i} (t={r['vals'][i]}) key targets {xs}: counts {dict(got)} do not match the resolved circuit "
                                f"({ {k: round(v, 1) for k, v in want.items()} })")
            distinct.add(tuple(sorted((k, round(v)) for k, v in want.items())))
    return {"nontrivial": len(resolvers) >= 2 and len(distinct) >= 2, "resolvers": len(resolvers)}


# ======================================================================================== AQT

AQT_E = [0.5, 0.5, 1.0, -0.5, 1.5, 2.0, 0.25, 1 / 3, 0.0, -1.0]
AQT_P = [0.0, 0.5, 1.0, 1.5, -0.5, 0.25, 0.125, -0.25, 1 / 3]


@st.composite
def _aqt_op(draw, n, clifford):
    kinds = ["R", "R", "R", "Z"] + (["MS", "MS", "MSR"] if n >= 2 else [])
    k = draw(st.sampled_from(kinds))
    perm = list(draw(st.permutations(list(range(n)))))
    ev = st.sampled_from(AQT_E) if clifford else st.one_of(st.sampled_from(AQT_E), G.exponents())
    pv = st.sampled_from(AQT_P[:5]) if clifford else st.one_of(st.sampled_from(AQT_P), G.exponents())
    o = {"k": k, "sym": (draw(_one_in(6))) and not clifford}
    if k == "R":
        o.update(e=draw(ev), p=draw(pv), s=draw(G.shifts()), w=perm[:1])
    elif k == "Z":
        o.update(e=draw(ev), s=draw(G.shifts()), w=perm[:1])
    elif k == "MS":
        o.update(e=draw(ev), s=draw(G.shifts()), w=perm[:2])
    else:
        o.update(r=draw(st.sampled_from([math.pi / 4, math.pi / 2, -math.pi / 4, math.pi / 8]) if clifford else G.rads()), w=perm[:2])
    return o


@st.composite
def _aqt_case(draw, clifford=False):
    n = draw(st.integers(1, 4))
    nops = draw(st.integers(1, 8))
    ops = [draw(_aqt_op(n, clifford)) for _ in range(nops)]
    if clifford:
        # echo structure: the second half undoes / doubles the first half, so interference makes outcomes deterministic
        ops = ops[: max(1, nops // 2)]
        for o in reversed(list(ops)):
            how = draw(st.sampled_from(["inv", "inv", "inv_phase", "same", "drop"]))
            m = dict(o)
            if how == "drop":
                continue
            if how == "inv" or (how == "inv_phase" and o["k"] != "R"):
                if "e" in m:
                    m["e"] = -m["e"]
                else:
                    m["r"] = -m["r"]
            elif how == "inv_phase":
                m["p"] = m["p"] + 1
            ops.append(m)
        # Ramsey triples in front: R(1/2, phi) Z(e) R(1/2, phi + e + b) maps |0> to |1-b> -- only for the right sign of phi
        for _ in range(draw(st.integers(0, 2))):
            wire = draw(st.integers(0, n - 1))
            phi = draw(st.sampled_from(AQT_P))
            e = draw(st.sampled_from([0.5, -0.5, 0.25, 1.0, 1.5, 0.125, 1 / 3]))
            b = draw(st.integers(0, 1))
            tri = [{"k": "R", "e": 0.5, "p": phi, "s": 0.0, "w": [wire], "sym": False},
                   {"k": "Z", "e": e, "s": draw(G.shifts()), "w": [wire], "sym": False},
                   {"k": "R", "e": 0.5, "p": round(phi + e + b, 9), "s": 0.0, "w": [wire], "sym": False}]
            ops = tri + ops
    for wire in range(n):  # AQT sizes the register by the qubits the circuit touches: touch the whole chain
        if not any(wire in o["w"] for o in ops):
            o = draw(_aqt_op(1, clifford))
            o["w"] = [wire]
            ops.insert(len(ops) if clifford else draw(st.integers(0, len(ops))), o)
    reps = draw(st.integers(1, 6))
    idle = draw(_one_in(6))
    ncols = n
    return {"n": n, "ops": ops, "reps": reps, "meas": draw(_one_in(4)), "idle": idle,
            "samples": draw(st.lists(st.integers(0, 2 ** ncols - 1), min_size=reps, max_size=reps)),
            "resolvers": draw(st.lists(st.fixed_dictionaries({"a": G.exponents()}), min_size=1, max_size=2)),
            "seed": draw(st.integers(0, 2 ** 20))}


def _build_aqt(r):
    import sympy

    n = int(r["n"])
    if n < 1 or not r["ops"]:
        raise Reject("degenerate")
    qs = cirq.LineQubit.range(n + (1 if r.get("idle") else 0))
    a = sympy.Symbol("a")
    ops = []
    nsym = 0
    for o in r["ops"]:
        w = [qs[i] for i in _wires(o["w"], n)]
        e = o.get("e")
        if o.get("sym") and o["k"] != "MSR":
            e = a
            nsym += 1
        if o["k"] == "R":
            ops.append(cirq.PhasedXPowGate(phase_exponent=o["p"], exponent=e, global_shift=o["s"]).on(*w))
        elif o["k"] == "Z":
            ops.append(cirq.ZPowGate(exponent=e, global_shift=o["s"]).on(*w))
        elif o["k"] == "MS":
            ops.append(cirq.XXPowGate(exponent=e, global_shift=o["s"]).on(*w))
        else:
            ops.append(cirq.ms(o["r"]).on(*w))
    circuit = cirq.Circuit(ops)
    if r.get("idle"):
        # the chain has one more ion than the circuit touches in a prefix-free way: touch the last, skip one in the middle
        circuit = circuit.transform_qubits(lambda q: qs[-1] if q == qs[n - 1] else q)
    touched = sorted(circuit.all_qubits())
    if not r.get("idle") and touched != list(qs):
        raise Reject("circuit does not touch every qubit of the chain")
    if r.get("meas"):
        circuit.append(cirq.measure(*qs, key="m"))
    return circuit, qs, nsym


class _FakeAQT:
    def __init__(self, rows):
        self.rows = rows
        self.posted = []
        self.gets = []

    def post(self, url, json=None, headers=None):  # noqa: A002
        self.posted.append({"url": url, "json": _json.loads(_json.dumps(json)), "headers": headers})
        return _Resp({"response": {"status": "queued"}, "job": {"job_id": f"job{len(self.posted)}"}})

    def get(self, url, headers=None):
        self.gets.append(url)
        return _Resp({"response": {"status": "finished", "result": {"0": self.rows}}})


def oracle_aqt_payload(r):
    circuit, qs, nsym = _build_aqt(r)
    nchain = len(qs)
    reps = int(r["reps"])
    ncols = nchain
    rows = [[(int(v) >> (ncols - 1 - j)) & 1 for j in range(ncols)] for v in (list(r["samples"]) + [0] * reps)[:reps]]
    fake = _FakeAQT(rows)
    host = "http://aqt.example/api/v1/"
    sampler = cirq_aqt.AQTSampler("ws", "res", "token", remote_host=host)
    resolvers = [cirq.ParamResolver(d) for d in r["resolvers"]] if nsym else [cirq.ParamResolver({})]
    with _patched(_aqt_sampler_mod, post=fake.post, get=fake.get):
        results = sampler.run_sweep(circuit, params=resolvers if nsym else None, repetitions=reps)
    if len(results) != len(resolvers) or len(fake.posted) != len(resolvers):
        raise Violation(f"{len(results)} results / {len(fake.posted)} submissions for {len(resolvers)} resolvers")
    nontriv = False
    for i, (res, pr, sub) in enumerate(zip(results, resolvers, fake.posted)):
        resolved = cirq.resolve_parameters(circuit, pr)
        nops = sum(1 for op in resolved.all_operations() if not cirq.is_measurement(op))
        want = _circuit_unitary(resolved, nchain)
        tol = 1e-8 * (1 + nops)
        try:
            circs = sub["json"]["payload"]["circuits"]
            if sub["json"].get("job_type") != "quantum_circuit" or len(circs) != 1:
                raise KeyError("job_type/circuits")
            c0 = circs[0]
            qc, nq, rp = c0["quantum_circuit"], c0["number_of_qubits"], c0["repetitions"]
        except (KeyError, TypeError, IndexError) as e:
            raise Violation(f"submission {i} is not an Arnica quantum_circuit job: {e!r}")
        if rp != reps:
            raise Violation(f"submission {i}: repetitions {rp}, asked for {reps}")
        if nq != nchain:
            raise Violation(f"submission {i}: number_of_qubits {nq} but the circuit lives on a chain of {nchain} "
                            f"(qubit indices up to {nchain - 1})")
        try:
            u = RA.interpret_current(qc, nq)
        except RA.PayloadError as e:
            raise Violation(f"submission {i}: malformed Arnica circuit: {e}")
        _cmp_unitary(f"Arnica payload (resolver {i})", u, want, tol)
        legacy = json.loads(sampler._generate_json(circuit=circuit, param_resolver=pr))
        try:
            ul = RA.interpret_legacy(legacy, nchain)
        except RA.PayloadError as e:
            raise Violation(f"legacy JSON malformed: {e}")
        _cmp_unitary(f"legacy JSON (resolver {i})", ul, want, tol)
        if not sub["url"].endswith("/api/v1/submit/ws/res"):
            raise Violation(f"submission url {sub['url']}")
        # results
        m = res.measurements
        if set(m) != {"m"}:
            raise Violation(f"result keys {sorted(m)}; run_sweep documents the single key 'm'")
        a = np.asarray(m["m"])
        if a.shape != (reps, ncols) or [[int(x) for x in row] for row in a] != rows:
            raise Violation(f"result rows {a.astype(int).tolist()} differ from the served samples {rows}")
        if dict(res.params.param_dict) != dict(pr.param_dict):
            raise Violation(f"result {i} carries params {res.params}, expected {pr}")
    for j, o in enumerate(r["ops"][:-1]):
        if o["k"] == "R" and (2 * o["p"]) % 1 != 0 and (o["e"] % 2) != 0:
            nontriv = True
    return {"nontrivial": nontriv, "parameterised": nsym > 0, "two_resolvers": len(resolvers) > 1, "n": min(nchain, 4),
            "terminal_measure": bool(r.get("meas")), "idle_ion": bool(r.get("idle")),
            "has_ms": any(o["k"] in ("MS", "MSR") for o in r["ops"]), "asym_rows": any(row != row[::-1] for row in rows)}


def oracle_aqt_local(r):
    circuit, qs, nsym = _build_aqt(r)
    n = len(qs)
    reps = int(r["reps"]) * 3
    sampler = cirq_aqt.AQTSamplerLocalSimulator(simulate_ideal=True)
    np.random.seed(int(r["seed"]) % (2 ** 31))  # the local simulator offers no seed; the drawn seed makes the case replayable
    res = sampler.run(circuit, repetitions=reps)
    want = _circuit_unitary(circuit, n)
    probs = np.abs(want[:, 0]) ** 2
    a = np.asarray(res.measurements["m"]).astype(int)
    if a.shape != (reps, n):
        raise Violation(f"local simulator returned shape {a.shape}, expected {(reps, n)}")
    support = int(np.sum(probs > 1e-9))
    for row in a:
        idx = L.digits_to_index([int(x) for x in row], [2] * n)
        if probs[idx] < 1e-9:
            raise Violation(f"local simulator sampled {row.tolist()}, which has probability {probs[idx]:.2g} for the submitted circuit "
                            f"(support size {support})")
    return {"nontrivial": support < 2 ** n and len(r["ops"]) >= 2, "deterministic": support == 1, "support_lt_full": support < 2 ** n,
            "terminal_measure": bool(r.get("meas")), "idle_ion": bool(r.get("idle")),
            "flipped": bool(support == 1 and probs[0] < 0.5)}


# ======================================================================================== Pasqal

@st.composite
def _pasqal_case(draw):
    kind = draw(st.sampled_from(["named", "named", "line", "grid", "2d", "3d"]))
    n = draw(st.integers(1, 4))
    nops = draw(st.integers(1, 7))
    ops = []
    for _ in range(nops):
        k = draw(st.sampled_from(["X", "Y", "Z", "PX", "H", "CZ", "I"] + (["CNOT", "CCX", "CCZ"] if kind == "named" else [])))
        perm = list(draw(st.permutations(list(range(n)))))
        ar = {"CZ": 2, "CNOT": 2, "CCX": 3, "CCZ": 3}.get(k, 1)
        if ar > n:
            k, ar = "X", 1
        ops.append({"k": k, "e": draw(G.exponents()), "p": draw(G.exponents()), "w": perm[:ar], "sym": draw(_one_in(3))})
    return {"kind": kind, "n": n, "ops": ops, "meas": draw(st.booleans()), "reps": draw(st.integers(1, 50)),
            "resolvers": draw(st.lists(st.fixed_dictionaries({"a": G.exponents(), "b": G.exponents()}), min_size=1, max_size=3)),
            "rows": draw(st.lists(st.integers(0, 15), min_size=1, max_size=4)), "coord": draw(st.sampled_from([1.0, 0.5, 1.5, 0.1]))}


def _pasqal_qubits(kind, n, c):
    if kind == "named":
        return [cirq.NamedQubit(f"q{i}") for i in range(n)]
    if kind == "line":
        return cirq.LineQubit.range(n)
    if kind == "grid":
        return [cirq.GridQubit(i // 2, i % 2) for i in range(n)]
    if kind == "2d":
        return [cirq_pasqal.TwoDQubit(c * (i // 2), c * (i % 2)) for i in range(n)]
    return [cirq_pasqal.ThreeDQubit(c * (i // 2), c * (i % 2), c * (i % 3 == 2)) for i in range(n)]


class _FakePasqal:
    def __init__(self, result_texts):
        self.posted = []
        self.texts = list(result_texts)

    def post(self, url, headers=None, data=None):
        self.posted.append({"url": url, "headers": dict(headers or {}), "data": data})
        return _Resp(None, text=f"task{len(self.posted)}")

    def get(self, url, headers=None):
        i = int(url.rsplit("task", 1)[1]) - 1
        return _Resp(None, text=self.texts[i])


def oracle_pasqal(r):
    import sympy

    n = int(r["n"])
    if n < 1 or not r["ops"] or not r["resolvers"] or not r["rows"]:
        raise Reject("degenerate")
    qs = _pasqal_qubits(r["kind"], n, r["coord"])
    syms = [sympy.Symbol("a"), sympy.Symbol("b")]
    c = cirq.Circuit()
    nsym = 0
    for j, o in enumerate(r["ops"]):
        w = [qs[i] for i in _wires(o["w"], n)]
        e = o["e"]
        if o["sym"] and o["k"] in ("X", "Y", "Z", "PX"):
            e = syms[j % 2]
            nsym += 1
        k = o["k"]
        if k in ("X", "Y", "Z"):
            op = (getattr(cirq, k) ** e).on(*w)
        elif k == "PX":
            op = cirq.PhasedXPowGate(phase_exponent=o["p"], exponent=e).on(*w)
        elif k == "H":
            op = cirq.H.on(*w)
        elif k == "I":
            op = cirq.I.on(*w)
        else:
            g = {"CZ": cirq.CZ, "CNOT": cirq.CNOT, "CCX": cirq.CCX, "CCZ": cirq.CCZ}[k]
            op = (g ** int(round(o["e"]))).on(*w) if abs(o["e"]) >= 0.5 else g.on(*w)
        c.append(op, strategy=cirq.InsertStrategy.NEW)
    if r["meas"]:
        c.append(cirq.measure(*qs, key="m"), strategy=cirq.InsertStrategy.NEW)
    if r["kind"] == "named":
        dev = cirq_pasqal.PasqalDevice(qs)
    else:
        spacing = r["coord"] if r["kind"] in ("2d", "3d") else 1.0
        dev = cirq_pasqal.PasqalVirtualDevice(control_radius=2.9 * spacing, qubits=qs)
    resolvers = [cirq.ParamResolver(d) for d in r["resolvers"]] if nsym else [cirq.ParamResolver({})]
    served = []
    for i, pr in enumerate(resolvers):
        rows = np.array([[(int(v + i) >> (n - 1 - j)) & 1 for j in range(n)] for v in r["rows"]], dtype=np.int8)
        served.append(cirq.ResultDict(params=pr, measurements={"m": rows}))
    fake = _FakePasqal([cirq.to_json(x) for x in served])
    sampler = cirq_pasqal.PasqalSampler(remote_host="http://pasqal.example", access_token="tok", device=dev)
    with _patched(_pasqal_sampler_mod, requests=fake):
        try:
            out = sampler.run_sweep(c, params=resolvers if nsym else None, repetitions=int(r["reps"]))
        except ValueError as e:
            raise Reject("device validation: ValueError")
    if len(out) != len(resolvers) or len(fake.posted) != len(resolvers):
        raise Violation(f"{len(out)} results / {len(fake.posted)} requests for {len(resolvers)} resolvers")
    for i, (pr, req, got, want_res) in enumerate(zip(resolvers, fake.posted, out, served)):
        want = cirq.resolve_parameters(c, pr)
        try:
            back = cirq.read_json(json_text=req["data"])
        except Exception as e:  # noqa: BLE001 - whatever the reader raises, the body is unusable
            raise Violation(f"request body {i} cannot be read back as Cirq JSON: {type(e).__name__}: {e}")
        if not isinstance(back, cirq.Circuit) or back != want:
            raise Violation(f"request body {i} deserialises to a different circuit:\n{back}\nexpected\n{want}")
        if sorted(back.all_qubits()) != sorted(want.all_qubits()) or [type(q) for q in sorted(back.all_qubits())] != [type(q) for q in sorted(want.all_qubits())]:
            raise Violation(f"request body {i}: qubits {sorted(back.all_qubits())} expected {sorted(want.all_qubits())}")
        d = L.diff_up_to_phase(back.unitary(qubit_order=qs, ignore_terminal_measurements=True),
                               want.unitary(qubit_order=qs, ignore_terminal_measurements=True))
        if d > 1e-9:
            raise Violation(f"request body {i}: unitary of the deserialised circuit differs by {d:.3g}")
        if req["headers"].get("Repetitions") != str(int(r["reps"])) or req["headers"].get("Authorization") != "tok":
            raise Violation(f"request headers {req['headers']}")
        if got != want_res:
            raise Violation(f"result {i} differs from the served result")
    return {"nontrivial": nsym > 0 and len(resolvers) >= 2 and len({json.dumps(d, sort_keys=True) for d in r["resolvers"]}) >= 2,
            "parameterised": nsym > 0, "qkind": r["kind"], "measured": bool(r["meas"])}


# ======================================================================================== registration

SUBCHECKS = [
    SubCheck("ionq_qis", _ionq_case(False), oracle_ionq_serializer, quick=2400, thorough=120000, shards_quick=5, shards_thorough=16,
             essential={"near_special": 0.2, "pauliexp_asym": 0.08, "multi_key_unordered": 0.1, "chunks>=2": 0.1}),
    SubCheck("ionq_native", _ionq_case(True), oracle_ionq_serializer, quick=900, thorough=40000, shards_quick=2, shards_thorough=8,
             essential={"ms_asym_phases": 0.2}),
    SubCheck("ionq_rejects", _reject_case(), oracle_ionq_rejects, quick=600, thorough=20000, shards_quick=1, shards_thorough=4),
    SubCheck("ionq_results", _results_case(), oracle_ionq_results, quick=2500, thorough=100000, shards_quick=2, shards_thorough=16,
             essential={"asymmetric_hist": 0.3, "multi_key": 0.2}),
    SubCheck("ionq_service", _service_case(), oracle_ionq_service, quick=600, thorough=30000, shards_quick=3, shards_thorough=8),
    SubCheck("ionq_sampler", _sampler_case(), oracle_ionq_sampler, quick=250, thorough=8000, shards_quick=1, shards_thorough=4),
    SubCheck("aqt_payload", _aqt_case(), oracle_aqt_payload, quick=1200, thorough=60000, shards_quick=2, shards_thorough=8),
    SubCheck("aqt_local", _aqt_case(clifford=True), oracle_aqt_local, quick=300, thorough=6000, shards_quick=1, shards_thorough=8,
             essential={"deterministic": 0.3}),
    SubCheck("pasqal_body", _pasqal_case(), oracle_pasqal, quick=400, thorough=15000, shards_quick=1, shards_thorough=4),
]
