"""C20 - asynchronous job orchestration resolves every job exactly once.

The harness owns the schedule.  Nothing here waits on wall-clock time or relies on how the OS interleaves threads:

* Collector / PauliSumCollector / ProcessorSampler run inside ONE ``duet.run``.  The sampler (processor) parks every call
  on a fresh ``duet.AwaitableFuture``; a driver coroutine in the same scope yields (``duet.sleep(0)`` until the event
  log is stable for two yields) and then performs the next scripted action.
* StreamManager: the fake gRPC client is ``vf.ref.engine_model`` living in the ``AsyncioExecutor`` loop.  The test thread
  performs one scripted action, then submits a "settle" coroutine to that loop and blocks on it; the coroutine yields
  until the loop has nothing left to run.  The loop is therefore idle whenever the test thread acts.
"""
from __future__ import annotations

import asyncio
import logging
import threading
import time

import duet
import numpy as np
from hypothesis import strategies as st

import cirq
from vf.core import Reject, SubCheck, Violation
from vf.ref import engine_model as EM

RULE = (
    "Histories are JSON action lists drawn by Hypothesis and interpreted by a harness-owned scheduler. collector: a finite "
    "supply of job trees (single job / nested lists+tuples / None / [] / 'nothing now, more after a result'), concurrency "
    "1-5, max_total_samples None or 0-14, actions complete-one / several-at-once / fail / mixed batch, indices modulo the "
    "pending set so every completion order is reachable; non-trivial = >=3 jobs started, completion order != start order, "
    "concurrency < #jobs. pauli: PauliSumCollector over drawn Pauli sums (1-3 qubits, identity term, complex coefficients) "
    "with drawn per-job bit tables; non-trivial = >=3 jobs, >=2 terms, out-of-order completion. stream: submit / process / "
    "respond / deliver / inject fatal code / break(before|after the server processed a request, retryable|not, requests "
    "stranded on the dead stream processed 0-3 steps later or never) / chase(answer one job n times in a row) / late "
    "processing / cancel / stop / yield / compound steps executed in ONE loop callback without a yield (cancel(job)+break, "
    "server answer+cancel(job), stop()+break, both orders each) against the model engine, 1-5 programs shared by up to 5 jobs, optional "
    "pre-existing programs, both server conventions for 'program and job both exist', direct StreamManager.submit or "
    "EngineClient.run_job_over_stream; non-trivial = >=2 jobs in flight together and >=1 retryable break that lands between "
    "a request's processing and its response. demux: subscribe/publish/publish_exception/cancel against a dict model. "
    "processor_sampler: run_batch / concurrent run_sweep_async over a parked fake processor, drawn completion order, "
    "jobs_per_batch 1-3, max_concurrent_jobs 1-4, list or mapping input; non-trivial = >=3 processor calls, out-of-order "
    "completion, limiter binding. Distinct = distinct recipe hash."
)
ASSUMPTIONS = [
    "the schedule is owned by the harness: duet's single-threaded scheduler and one asyncio loop that is idle whenever the "
    "test thread acts; verdicts never depend on wall-clock time or on OS thread interleaving",
    "NOT reached: true data races between the duet/test thread and the asyncio thread on StreamManager._response_demux / "
    "_request_queue (stop() publishes to asyncio futures from the caller's thread, TODO(#5996) in the file); the harness "
    "only ever calls submit/cancel/stop while the loop is quiescent",
    "NOT reached: liveness under an unbounded fault sequence (scripts are finite and end with a fault-free drain), gRPC "
    "flow control / the 100-entry request queue filling up, behaviour of a real gRPC channel when the stream breaks",
    "model engine conventions taken from the client's docstrings and the scripted baseline tests: GetQuantumResult on a "
    "missing job answers JOB_DOES_NOT_EXIST even when the program is missing too; CreateQuantumJob on a missing program "
    "answers PROGRAM_DOES_NOT_EXIST; a create that finds both program and job answers PROGRAM_ALREADY_EXISTS or "
    "JOB_ALREADY_EXISTS (both conventions are drawn); CancelQuantumJob always succeeds",
    "retryable stream failures are exactly InternalServerError, ServiceUnavailable, Unknown (module constant and property "
    "statement); every other GoogleAPICallError and every StreamError code other than the four exists/does-not-exist "
    "codes must surface to the caller",
    "a future cancelled by the caller OR by stop() while its job was in flight must produce exactly one "
    "cancel_quantum_job(name) (coordinator's reading of 'cancellation cancels the remote job'; stop() documents only the "
    "CancelledError); stop()+break compound steps read the private field StreamManager._manage_stream_loop_future to know "
    "when stop() has published to every waiter while the harness holds the loop",
    "max_total_samples is read the way the property statement words it ('starts no job once the sample budget is used up'): "
    "no job starts once the repetitions already started reach it; the last job may overshoot the limit (label "
    "budget_overshoot) although the docstring calls it a 'limit on the maximum number of samples to collect'",
    "results completed in the same scheduler instant as a sampler failure but before it may or may not be delivered; "
    "everything completed in an earlier instant must be, everything after the failure must not be",
]
SENSITIVITY = [
    "collector concurrency bound off by one",
    "collector budget never decremented",
    "collector error guard on results removed",
    "collector halts while jobs are running",
    "collector flatten drops nested trees",
    "collector running counter not decremented",
    "pauli collector parity counts swapped",
    "pauli collector per-term remainder ignored",
    "stream message id counter reset on stream restart",
    "stream cancel not forwarded after a retry",
    "stream JOB_ALREADY_EXISTS on a program+job create not retried",
    "stream Aborted treated as retryable",
    "stream retry after break re-sends the create request when the job was being created",
    "demux publish does not unsubscribe",
    "processor sampler releases the concurrency slot before results arrive",
    "processor sampler splits batch results by jobs_per_batch instead of batch size",
    "stream remote cancel only when the response future itself was cancelled (seeded C20/2)",
    "stream remote cancel skipped when a break or response resolved the waiter in the same loop pass",
]

logging.getLogger("asyncio").setLevel(logging.CRITICAL)


# =====================================================================================================================
# 1. Collector driven by a harness-owned schedule
# =====================================================================================================================


class _Abort(BaseException):
    """Raised by the driver to tear the duet scope down after a hang was diagnosed."""


class _SamplerFailure(Exception):
    def __init__(self, n):
        super().__init__(f"scripted sampler failure #{n}")
        self.n = n


class _Log:
    """Event log shared by the collector wrapper, the parked sampler and the driver."""

    def __init__(self):
        self.events = []  # tuples, first item = kind
        self.violations = []
        self.jobs = {}  # jid -> CircuitSampleJob (keeps objects alive so id() stays unique)
        self.by_circuit = {}  # id(circuit) -> jid
        self.handed = []  # jids in the order next_job handed them out
        self.started = []  # jids in start order
        self.futures = {}  # jid -> AwaitableFuture of the parked call
        self.results = {}  # jid -> result object the driver completed the call with
        self.resolved = []  # (jid, "ok"|"fail", batch_no) in the order the driver resolved them
        self.delivered = {}  # jid -> times passed to on_job_result
        self.failures = []  # exceptions injected
        self.finished = None  # None | ("return",) | ("raise", exc)
        self.batch = 0
        self.harness = None

    def bad(self, msg):
        if len(self.violations) < 5:
            self.violations.append(msg)

    def pending(self):
        return [j for j in self.started if not self.futures[j].done()]


def _flatten(tree, out):
    if isinstance(tree, cirq.CircuitSampleJob):
        out.append(tree)
    elif tree is not None:
        for item in tree:
            _flatten(item, out)
    return out


def _instrument(collector_cls, log: _Log):
    """Subclass whose next_job / on_job_result log and then defer to the class under observation."""

    class Logged(collector_cls):
        def next_job(self):
            if log.finished is not None:
                log.bad("next_job called after collect_async finished")
            tree = super().next_job()
            flat = _flatten(tree, [])
            ids = []
            for job in flat:
                jid = len(log.jobs)
                log.jobs[jid] = job
                if id(job.circuit) in log.by_circuit:
                    log.harness = "the same circuit object was handed out twice (harness cannot tell the jobs apart)"
                log.by_circuit[id(job.circuit)] = jid
                log.handed.append(jid)
                ids.append(jid)
            log.events.append(("next_job", tuple(ids)))
            return tree

        def on_job_result(self, job, result):
            log.events.append(("result",))
            if log.finished is not None:
                log.bad("on_job_result called after collect_async finished")
            jid = next((k for k, v in log.jobs.items() if v is job), None)
            if jid is None:
                log.bad("on_job_result received a job object that next_job never returned")
                return
            log.delivered[jid] = log.delivered.get(jid, 0) + 1
            if log.delivered[jid] > 1:
                log.bad(f"job delivered to on_job_result {log.delivered[jid]} times")
            if jid not in log.results:
                log.bad("on_job_result called for a job the sampler has not completed")
            elif log.results[jid] is not result:
                other = next((k for k, v in log.results.items() if v is result), None)
                log.bad("on_job_result received another job's result object" if other is not None
                        else "on_job_result received a result object the sampler never produced")
            return super().on_job_result(job, result)

    return Logged


class _ParkedSampler(cirq.Sampler):
    def __init__(self, log: _Log, concurrency, budget):
        self.log, self.concurrency, self.budget = log, concurrency, budget

    def run_sweep(self, program, params, repetitions=1):  # pragma: no cover - never used by the collector
        raise NotImplementedError

    async def run_async(self, program, param_resolver=None, repetitions=1):
        log = self.log
        jid = log.by_circuit.get(id(program))
        if jid is None or jid in log.futures:
            log.bad("sampler asked to run a circuit that is not a fresh job from next_job" if jid is None
                    else "the same job was started twice")
            return await duet.AwaitableFuture()
        job = log.jobs[jid]
        if repetitions != job.repetitions:
            log.bad(f"job started with repetitions={repetitions}, the job asks for {job.repetitions}")
        if log.finished is not None:
            log.bad("a job was started after collect_async finished")
        before = sum(log.jobs[j].repetitions for j in log.started)
        if self.budget is not None and before >= self.budget:
            log.bad(f"job started although {before} repetitions were already started, max_total_samples={self.budget}")
        fut = duet.AwaitableFuture()
        log.futures[jid] = fut
        log.started.append(jid)
        log.events.append(("start", jid))
        inflight = len(log.pending())
        if inflight > self.concurrency:
            log.bad(f"{inflight} jobs in flight, concurrency={self.concurrency}")
        return await fut


async def _quiesce(log: _Log):
    """Yield until nothing else wants to run: duet.sleep(0) fires only on a tick with no ready task; additionally the
    log must be unchanged over two consecutive yields."""
    stable, last = 0, (len(log.events), len(log.violations))
    for _ in range(200):
        await duet.sleep(0)
        now = (len(log.events), len(log.violations))
        stable = stable + 1 if now == last else 0
        last = now
        if stable >= 2:
            return
    raise Violation("scheduler never became quiescent (event log kept growing for 200 yields)")


def _run_schedule(make_collector, concurrency, budget, actions, make_result):
    """Runs collect_async against the parked sampler under the scripted schedule.  Returns the log."""
    log = _Log()
    collector = make_collector(log)
    sampler = _ParkedSampler(log, concurrency, budget)
    budget_left = lambda: budget is None or sum(log.jobs[j].repetitions for j in log.started) < budget  # noqa: E731

    async def run_collector():
        try:
            await collector.collect_async(sampler, concurrency=concurrency, max_total_samples=budget)
        except Exception as e:  # the documented way a sampler failure reaches the caller
            log.finished = ("raise", e)
            log.events.append(("raise",))
        else:
            log.finished = ("return",)
            log.events.append(("return",))

    def resolve(jid, ok):
        fut = log.futures[jid]
        if fut.done():
            return
        if ok:
            res = make_result(jid, log.jobs[jid])
            log.results[jid] = res
            log.resolved.append((jid, "ok", log.batch))
            fut.set_result(res)
        else:
            exc = _SamplerFailure(len(log.failures))
            log.failures.append(exc)
            log.resolved.append((jid, "fail", log.batch))
            fut.set_exception(exc)

    def check_quiescent():
        """Invariants that must hold whenever nothing is runnable."""
        pend = log.pending()
        first_fail = next((i for i, r in enumerate(log.resolved) if r[1] == "fail"), None)
        fail_batch = None if first_fail is None else log.resolved[first_fail][2]
        for i, (jid, how, batch) in enumerate(log.resolved):
            if how != "ok":
                continue
            n = log.delivered.get(jid, 0)
            if first_fail is not None and i > first_fail:
                if n:
                    log.bad("a result completed after the sampler failure was still passed to on_job_result")
            elif first_fail is not None and batch == fail_batch:
                pass  # same instant as the failure, before it: delivery optional
            elif n != 1:
                log.bad(f"completed job delivered {n} times to on_job_result once the scheduler is idle")
        if first_fail is not None:
            if log.finished is None:
                log.bad("sampler raised but collect_async neither raised nor returned once the scheduler is idle")
            elif log.finished[0] == "return":
                log.bad("sampler raised but collect_async returned normally")
            elif not any(log.finished[1] is f for f in log.failures):
                log.bad(f"collect_async raised {type(log.finished[1]).__name__} instead of the sampler's exception")
            return
        if log.finished is not None and log.finished[0] == "raise":
            log.bad(f"collect_async raised {type(log.finished[1]).__name__} although no sampler call failed")
            return
        unstarted = [j for j in log.handed if j not in log.futures]
        nj = [i for i, e in enumerate(log.events) if e[0] == "next_job"]
        rs = [i for i, e in enumerate(log.events) if e[0] == "result"]
        asked_empty_since_last_result = bool(nj) and log.events[nj[-1]][1] == () and (not rs or rs[-1] < nj[-1])
        if log.finished is not None:
            if pend:
                log.bad(f"collect_async returned while {len(pend)} jobs were still in flight")
            if budget_left():
                if unstarted:
                    log.bad("collect_async returned although jobs handed out by next_job were never started and budget remains")
                elif not asked_empty_since_last_result:
                    log.bad("collect_async returned without asking next_job again after the last result (early stop)")
        else:
            if not pend:
                log.bad("lost wake-up: collect_async not finished, no sampler call pending, scheduler idle")
            elif len(pend) < concurrency and budget_left():
                if unstarted:
                    log.bad("idle capacity: queued jobs not started although concurrency and budget allow it")
                elif not asked_empty_since_last_result:
                    log.bad("idle capacity: next_job not asked again although a slot is free and a result has arrived")

    async def driver():
        await _quiesce(log)
        check_quiescent()
        for act in actions:
            if log.finished is not None or log.violations:
                break
            pend = log.pending()
            if not pend:
                break
            log.batch += 1
            kind = act[0] if act else "complete"
            args = list(act[1:]) + [0, 0]
            if kind == "complete":
                resolve(pend[int(args[0]) % len(pend)], True)
            elif kind == "fail":
                resolve(pend[int(args[0]) % len(pend)], False)
            elif kind == "batch":  # several at once, no yield in between: [[index, ok], ...]
                for item in (args[0] if isinstance(args[0], list) else []):
                    pend = log.pending()
                    if not pend:
                        break
                    item = (list(item) if isinstance(item, list) else [item]) + [0, 1]
                    resolve(pend[int(item[0]) % len(pend)], bool(item[1]))
            await _quiesce(log)
            check_quiescent()
        # fault-free drain: complete whatever is pending, oldest first
        guard = 0
        while log.finished is None and not log.violations:
            pend = log.pending()
            if not pend:
                break  # check_quiescent has already recorded the lost wake-up
            log.batch += 1
            resolve(pend[0], True)
            await _quiesce(log)
            check_quiescent()
            guard += 1
            if guard > 400:
                log.bad("collector did not finish within 400 fault-free completions")
        # after the end: nothing may happen any more
        n = len(log.events)
        await _quiesce(log)
        if len(log.events) != n:
            log.bad("events after collect_async finished")
        if log.finished is None:
            raise _Abort()

    async def main():
        async with duet.new_scope() as scope:
            scope.spawn(run_collector)
            await driver()

    try:
        duet.run(main)
    except _Abort:
        pass
    leftover = [j for j in log.started if not log.futures[j].done()]
    if leftover and log.finished is not None and not log.violations:
        log.bad("sampler calls still pending after collect_async finished")
    for f in log.futures.values():  # nothing may outlive the case
        if not f.done():
            f.cancel()
    if log.harness:
        raise RuntimeError(log.harness)
    return log, collector


def _tree_from_json(node, log_jobs_counter):
    """int -> job with that many repetitions; list -> list; {'t': [...]} -> tuple; None -> None."""
    if node is None:
        return None
    if isinstance(node, bool):
        node = int(node)
    if isinstance(node, (int, float)):
        k = log_jobs_counter[0]
        log_jobs_counter[0] += 1
        q = cirq.LineQubit(k)
        return cirq.CircuitSampleJob(cirq.Circuit(cirq.measure(q, key=f"j{k}")), repetitions=max(0, int(node)), tag=k)
    if isinstance(node, dict):
        return tuple(_tree_from_json(x, log_jobs_counter) for x in node.get("t", []))
    if isinstance(node, list):
        return [_tree_from_json(x, log_jobs_counter) for x in node]
    return None  # "wait" and anything unknown is handled by the caller


def _make_supply_collector(supply):
    counter = [0]
    items = list(supply)

    def make(log: _Log):
        class Supply(cirq.Collector):
            def __init__(self):
                self.pos = 0
                self.results_at_wait = None

            def next_job(self):
                while self.pos < len(items):
                    item = items[self.pos]
                    if item == "wait":  # nothing now, more after a result
                        n_res = sum(log.delivered.values())
                        if self.results_at_wait is None:
                            self.results_at_wait = n_res
                        if n_res == self.results_at_wait:
                            return None
                        self.results_at_wait = None
                        self.pos += 1
                        continue
                    self.pos += 1
                    return _tree_from_json(item, counter)
                return None

            def on_job_result(self, job, result):
                pass

        return _instrument(Supply, log)()

    return make


def _plain_result(jid, job):
    return cirq.ResultDict(params=cirq.ParamResolver({}), measurements={f"j{jid}": np.zeros((job.repetitions, 1), dtype=np.int8)})


def _schedule_labels(log: _Log, concurrency):
    order = [j for j, how, _ in log.resolved]
    started = log.started
    pos = {j: i for i, j in enumerate(started)}
    out_of_order = any(pos[a] > pos[b] for a, b in zip(order, order[1:]))
    return {
        "completion_order_differs": bool(out_of_order),
        "concurrency_lt_jobs": concurrency < len(started),
        "jobs_started": min(len(started), 8),
        "failure": any(h == "fail" for _, h, _ in log.resolved),
        "finished": "none" if log.finished is None else log.finished[0],
    }


def oracle_collector(r):
    concurrency = max(1, int(r.get("concurrency", 1)))
    budget = r.get("budget")
    budget = None if budget is None else int(budget)
    log, _ = _run_schedule(_make_supply_collector(r.get("supply", [])), concurrency, budget, r.get("actions", []), _plain_result)
    if log.violations:
        raise Violation(log.violations[0])
    lab = _schedule_labels(log, concurrency)
    lab["budget_binds"] = budget is not None and len(log.handed) > len(log.started)
    lab["budget_overshoot"] = budget is not None and sum(log.jobs[j].repetitions for j in log.started) > budget
    lab["has_wait"] = "wait" in r.get("supply", [])
    lab["nested"] = any(isinstance(x, (list, dict)) and x not in ([], {"t": []}) for x in r.get("supply", []))
    lab["nontrivial"] = bool(lab["jobs_started"] >= 3 and lab["completion_order_differs"] and lab["concurrency_lt_jobs"])
    return lab


_reps = st.sampled_from([1, 1, 2, 2, 3, 4, 0])


def _trees(depth=2):
    leaf = _reps
    if depth == 0:
        return leaf
    sub = st.deferred(lambda: _trees(depth - 1))
    return st.one_of(leaf, leaf, st.lists(sub, max_size=3), st.lists(sub, max_size=3).map(lambda x: {"t": x}))


_nonempty_tree = st.one_of(_reps, st.tuples(_reps, _trees()).map(list), st.tuples(_trees(1), _reps, _reps).map(list),
                           st.tuples(_reps, _reps).map(lambda x: {"t": list(x)}))
_supply_item = st.one_of(_nonempty_tree, _nonempty_tree, _nonempty_tree, _trees(), _trees(), _trees(), _trees(),
                         st.sampled_from([None, [], [[], None], {"t": []}]), st.just("wait"), st.just("wait"))
_coll_action = st.one_of(
    st.tuples(st.just("complete"), st.integers(0, 5)).map(list),
    st.tuples(st.just("complete"), st.integers(0, 5)).map(list),
    st.tuples(st.just("complete"), st.integers(0, 5)).map(list),
    st.tuples(st.just("batch"), st.lists(st.tuples(st.integers(0, 5), st.sampled_from([1, 1, 1, 1, 0])).map(list), min_size=2, max_size=4)).map(list),
    st.tuples(st.just("fail"), st.integers(0, 5)).map(list),
)


@st.composite
def _collector_case(draw):
    fail_allowed = draw(st.integers(0, 3)) == 0
    acts = draw(st.lists(_coll_action, max_size=14))
    if not fail_allowed:
        acts = [a for a in acts if a[0] != "fail"]
        acts = [[a[0], [[i, 1] for i, _ in a[1]]] if a[0] == "batch" else a for a in acts]
    return {
        "concurrency": draw(st.integers(1, 5)),
        "budget": draw(st.one_of(st.none(), st.none(), st.integers(0, 14), st.integers(3, 14))),
        "supply": [draw(_nonempty_tree)] + draw(st.lists(_supply_item, min_size=2, max_size=8)),
        "actions": acts,
    }


# =====================================================================================================================
# 2. PauliSumCollector as a concrete collector
# =====================================================================================================================

_PAULI = {"X": cirq.X, "Y": cirq.Y, "Z": cirq.Z}


def oracle_pauli(r):
    nq = max(1, int(r.get("nq", 1)))
    qs = cirq.LineQubit.range(nq)
    terms = {}
    for t in r.get("terms", []):
        ps = "".join(str(c) for c in t.get("p", ""))[:nq].ljust(nq, "I")
        coef = complex(float(t.get("re", 1.0)), float(t.get("im", 0.0)))
        if coef == 0 or not all(c in "IXYZ" for c in ps):
            raise Reject("zero coefficient / bad pauli letters")
        terms[ps] = terms.get(ps, 0) + coef
    if not terms or any(abs(c) < 1e-9 for c in terms.values()):
        raise Reject("empty observable or cancelling terms")
    observable = cirq.PauliSum()
    for ps, coef in terms.items():
        observable += cirq.PauliString({q: _PAULI[c] for q, c in zip(qs, ps) if c != "I"}, coefficient=coef)
    spt = max(1, int(r.get("samples_per_term", 1)))
    mspj = max(1, int(r.get("max_samples_per_job", 1)))
    concurrency = max(1, int(r.get("concurrency", 1)))
    budget = r.get("budget")
    budget = None if budget is None else int(budget)
    bits_seed = [int(x) for x in r.get("bits", [])] or [0]
    state = cirq.Circuit(cirq.H(qs[0]))

    def make(log):
        return _instrument(cirq.PauliSumCollector, log)(state, observable, samples_per_term=spt, max_samples_per_job=mspj)

    tables = {}

    def make_result(jid, job):
        keys = job.circuit.all_measurement_key_names()
        if keys != {"out"}:
            raise Violation(f"PauliSumCollector job measures keys {sorted(keys)}, documented key is 'out'")
        nm = len([q for op in job.circuit.all_operations() if cirq.is_measurement(op) for q in op.qubits])
        word = bits_seed[jid % len(bits_seed)] + 7 * jid
        table = np.array([[(word >> ((rep * nm + c) % 24)) & 1 for c in range(nm)] for rep in range(job.repetitions)],
                         dtype=np.int8).reshape(job.repetitions, nm)
        tables[jid] = table
        return cirq.ResultDict(params=cirq.ParamResolver({}), measurements={"out": table})

    log, coll = _run_schedule(make, concurrency, budget, r.get("actions", []), make_result)
    if log.violations:
        raise Violation(log.violations[0])
    if log.finished != ("return",):
        raise Violation(f"PauliSumCollector schedule without failures did not return: {log.finished}")
    # --- samples per term
    nontriv_terms = {ps: c for ps, c in terms.items() if set(ps) != {"I"}}
    requested = {}
    for jid in log.started:
        job = log.jobs[jid]
        tag = job.tag
        letters = "".join({cirq.X: "X", cirq.Y: "Y", cirq.Z: "Z"}.get(tag.get(q), "I") for q in qs)
        if letters not in nontriv_terms or tag.coefficient != 1:
            raise Violation(f"job tagged with {tag!r} which is not a unit-coefficient term of the observable")
        if job.repetitions > mspj:
            raise Violation(f"job asks for {job.repetitions} samples, max_samples_per_job={mspj}")
        measured = [q for op in job.circuit.all_operations() if cirq.is_measurement(op) for q in op.qubits]
        if measured != sorted(tag.keys()):
            raise Violation("job circuit does not measure exactly the term's qubits in sorted order")
        requested[letters] = requested.get(letters, 0) + job.repetitions
    total = sum(requested.values())
    if budget is None:
        for ps in nontriv_terms:
            if requested.get(ps, 0) != spt:
                raise Violation(f"term {ps}: {requested.get(ps, 0)} samples requested, samples_per_term={spt}")
    else:
        for ps, n in requested.items():
            if n > spt:
                raise Violation(f"term {ps}: {n} samples requested, samples_per_term={spt}")
        if total < min(budget, spt * len(nontriv_terms)):
            raise Violation(f"only {total} samples requested although budget {budget} and {spt} per term allow more")
    # --- estimate recomputed from the delivered tables
    want = sum((c for ps, c in terms.items() if set(ps) == {"I"}), 0j)
    for ps, c in nontriv_terms.items():
        a = b = 0
        for jid in log.started:
            job = log.jobs[jid]
            letters = "".join({cirq.X: "X", cirq.Y: "Y", cirq.Z: "Z"}.get(job.tag.get(q), "I") for q in qs)
            if letters == ps and log.delivered.get(jid):
                par = tables[jid].sum(axis=1) % 2
                a += int((par == 0).sum())
                b += int((par == 1).sum())
        if a + b:
            want += c * (a - b) / (a + b)
    got = coll.estimated_energy()
    if abs(complex(got) - want) > 1e-9 * (1 + abs(want)):
        raise Violation(f"estimated_energy {got} differs from the estimate recomputed from delivered results {want}")
    lab = _schedule_labels(log, concurrency)
    lab["terms"] = len(nontriv_terms)
    lab["split_jobs"] = mspj < spt
    lab["uneven_split"] = spt % mspj != 0 and mspj < spt
    lab["identity_term"] = len(nontriv_terms) < len(terms)
    lab["nontrivial"] = bool(len(log.started) >= 3 and lab["completion_order_differs"] and len(nontriv_terms) >= 2)
    return lab


@st.composite
def _pauli_case(draw):
    nq = draw(st.integers(1, 3))
    letters = st.text(alphabet="IXYZ", min_size=nq, max_size=nq)
    coef = st.sampled_from([1.0, -1.0, 0.5, 2.0, -0.25, 1.5])
    terms = draw(st.lists(st.fixed_dictionaries({"p": letters, "re": coef, "im": st.sampled_from([0.0, 0.0, 0.0, 1.0, -0.5])}),
                          min_size=draw(st.sampled_from([1, 2, 2, 3])), max_size=4, unique_by=lambda t: t["p"]))
    return {
        "nq": nq, "terms": terms,
        "samples_per_term": draw(st.integers(1, 8)),
        "max_samples_per_job": draw(st.sampled_from([1, 1, 2, 2, 3, 3, 4, 1000000])),
        "concurrency": draw(st.integers(1, 4)),
        "budget": draw(st.one_of(st.none(), st.none(), st.none(), st.integers(1, 12))),
        "bits": draw(st.lists(st.integers(0, 2 ** 24 - 1), min_size=1, max_size=4)),
        "actions": draw(st.lists(st.tuples(st.just("complete"), st.integers(0, 4)).map(list), max_size=12)),
    }


# =====================================================================================================================
# 3. StreamManager against the model engine, stepped from the test thread
# =====================================================================================================================

_PROJECT = "projects/proj"
_RETRYABLE = ("InternalServerError", "ServiceUnavailable", "Unknown")
_FATAL_BREAKS = ("Aborted", "NotFound", "DeadlineExceeded", "PermissionDenied", "InvalidArgument", "ResourceExhausted",
                 "Cancelled", "BadGateway", "GatewayTimeout", "DataLoss", "MethodNotImplemented", "Unauthenticated",
                 "FailedPrecondition", "OSError")
_SAFETY_S = 120.0  # never reached on a healthy loop; a dead loop thread becomes a harness error, not a verdict


def _executor():
    from cirq_google.engine.asyncio_executor import AsyncioExecutor

    return AsyncioExecutor.instance()


async def _settle():
    """Runs inside the executor loop: yield until no other callback is runnable (twice in a row)."""
    loop = asyncio.get_running_loop()
    ready = getattr(loop, "_ready", None)
    quiet = 0
    for i in range(2000):
        await asyncio.sleep(0)
        if ready is None:  # unknown loop implementation: fixed number of yields
            if i >= 60:
                return True
            continue
        quiet = quiet + 1 if len(ready) == 0 else 0
        if quiet >= 2 and i >= 3:
            return True
    return False


def _in_loop(fn=None):
    """Perform ``fn`` inside the loop, let the loop run dry, hand back fn's value."""

    async def act():
        val = fn() if fn is not None else None
        if not await _settle():
            raise Violation("the asyncio loop never became idle (2000 yields) - livelock in the stream manager")
        return val

    return _executor().submit(act).result(timeout=_SAFETY_S)


class _SJob:
    def __init__(self, k, name, program, fut):
        self.k, self.name, self.program, self.fut = k, name, program, fut
        self.status = "inflight"  # inflight | result | job | exc | cancelled
        self.exc_type = None
        self.cause = ""
        self.by_cancel = False
        self.by_stop = False
        self.cancelled_after_retry = False


def _break_exception(name):
    import google.api_core.exceptions as gx

    if name == "OSError":
        return OSError("scripted transport failure")
    return getattr(gx, name)(f"scripted stream failure {name}")


def oracle_stream(r):
    from google.protobuf import any_pb2

    from cirq_google.cloud import quantum
    from cirq_google.engine import engine_client, stream_manager

    model = EM.EngineModel(job_first=bool(r.get("job_first")))
    nprog = max(1, min(5, int(r.get("nprog", 1))))
    prog_names = [f"{_PROJECT}/programs/prog{i}" for i in range(nprog)]
    for i in r.get("pre", []):
        model.preexisting_program(prog_names[int(i) % nprog])
    fake = EM.FakeEngineClient(model, quantum)
    baseline = _in_loop(lambda: set(asyncio.all_tasks()))
    via_client = bool(r.get("via_client"))
    if via_client:
        client = engine_client.EngineClient()
        client.__dict__["grpc_client"] = fake  # pre-populate the cached_property
        manager = client._stream_manager
    else:
        client = None
        manager = stream_manager.StreamManager(fake)

    jobs = []
    byname = {}
    seen_requests = 0
    lab = {"breaks_retryable": 0, "breaks_fatal": 0, "break_between": False, "retry_break_between": False, "peak_inflight": 0,
           "codes": set(), "orphans": 0, "cancel_inflight": 0, "cancel_after_retry": False, "stops_inflight": 0,
           "submit_after_stop": False, "injected": 0, "steps": 0, "cancel_with_break": False, "cancel_with_response": False,
           "stop_with_break": False}
    stopped_once = False
    late = []  # [due_step, request record]: stranded create requests the server still processes later

    def tick():
        """Before every step (and every drain delivery): the server gets round to stranded requests that are due."""
        due = [q for d, q in late if d <= lab["steps"] and not q.processed and q.job in byname and byname[q.job].status == "inflight"]
        late[:] = [(d, q) for d, q in late if d > lab["steps"]]
        if due:
            def f():
                for q in due:
                    fake.process(q)
            _in_loop(f)
            lab["orphans"] += len(due)
            check("late processing of " + ", ".join(f"stranded {q.kind} of job {byname[q.job].k}" for q in due))

    def inflight():
        return [j for j in jobs if j.status == "inflight"]

    def submit(prog_idx, outcome):
        k = len(jobs)
        pname = prog_names[int(prog_idx) % nprog]
        name = f"{pname}/jobs/job{k}"
        model.plan(name, "fail" if outcome == "fail" else "ok", f"payload-of-{name}-#{k * 7919 % 1000}")
        if via_client:
            fut = client.run_job_over_stream(project_id="proj", program_id=pname.rsplit("/", 1)[1], code=any_pb2.Any(),
                                             run_context=any_pb2.Any(), job_id=f"job{k}", processor_id="proc")
        else:
            fut = manager.submit(_PROJECT, quantum.QuantumProgram(name=pname), quantum.QuantumJob(name=name))
        j = _SJob(k, name, pname, fut)
        jobs.append(j)
        byname[name] = j
        return j

    def apply_reply(rec, reply):
        j = byname.get(rec.job)
        if j is None or j.status != "inflight":
            return
        if reply[0] == "result":
            j.status, j.cause = "result", f"result delivered for request {rec.kind}"
        elif reply[0] == "job":
            j.status, j.cause = "job", f"failed job delivered for request {rec.kind}"
        elif reply[1] in EM.NATURAL_CODES:
            lab["codes"].add(reply[1] + "@" + {EM.CPJ: "CPJ", EM.CJ: "CJ", EM.GR: "GR"}[rec.kind])
        else:
            j.status, j.exc_type, j.cause = "exc", stream_manager.StreamError, f"error code {reply[1]} delivered"

    def check(what):
        nonlocal seen_requests
        if fake.malformed:
            raise Violation(f"after {what}: server received {fake.malformed[0]}")
        ids = [q.message_id for q in fake.requests]
        if len(set(ids)) != len(ids):
            dup = next(i for i in ids if ids.count(i) > 1)
            where = sorted({q.stream for q in fake.requests if q.message_id == dup})
            raise Violation(f"after {what}: message id {dup!r} used for {ids.count(dup)} requests "
                            f"({'across stream restarts' if len(where) > 1 else 'on one stream'})")
        if any(i == "" for i in ids):
            raise Violation(f"after {what}: request without message id")
        for rec in fake.requests[seen_requests:]:
            j = byname.get(rec.job)
            if j is None:
                raise Violation(f"after {what}: {rec.kind} request for job {rec.job!r} that nobody submitted")
            if rec.kind != EM.GR and rec.program != j.program:
                raise Violation(f"after {what}: {rec.kind} for job {j.k} names program {rec.program!r}, submitted with {j.program!r}")
            if rec.project != _PROJECT:
                raise Violation(f"after {what}: request parent {rec.project!r}, submitted with {_PROJECT!r}")
            if j.status != "inflight":
                raise Violation(f"after {what}: new {rec.kind} request on behalf of job {j.k} which is already {j.status} ({j.cause})")
        seen_requests = len(fake.requests)
        for name, n in model.created.items():
            if name not in byname:
                raise Violation(f"after {what}: model created job {name!r} that nobody submitted")
            if n > 1:
                raise Violation(f"after {what}: job {byname[name].k} was created {n} times in the model (duplicate run)")
        live = fake.live_unresponded()
        for j in jobs:
            done = j.fut.done()
            if j.status == "inflight":
                if done:
                    how = "cancelled" if j.fut.cancelled() else (f"raised {type(j.fut.exception()).__name__}: {j.fut.exception()}"
                                                                 if j.fut.exception() else "returned a value")
                    raise Violation(f"after {what}: future of job {j.k} {how} although nothing the client may give up on happened")
                mine = [q for q in live if q.job == j.name]
                if not mine:
                    raise Violation(f"after {what}: lost wake-up - job {j.k} pending, loop idle, no request of it outstanding on the live stream")
                if len(mine) > 1:
                    raise Violation(f"after {what}: {len(mine)} requests outstanding at once for job {j.k}")
                continue
            if not done:
                raise Violation(f"after {what}: lost wake-up - future of job {j.k} still pending with the loop idle although {j.cause}")
            if j.status == "cancelled":
                if not j.fut.cancelled():
                    raise Violation(f"after {what}: job {j.k} future not cancelled although {j.cause}")
                continue
            if j.fut.cancelled():
                raise Violation(f"after {what}: job {j.k} future cancelled although {j.cause}")
            exc = j.fut.exception()
            if j.status == "exc":
                if exc is None or type(exc) is not j.exc_type:
                    got = "a value" if exc is None else f"{type(exc).__name__}: {exc}"
                    raise Violation(f"after {what}: job {j.k} future gave {got}, expected {j.exc_type.__name__} because {j.cause}")
                continue
            if exc is not None:
                raise Violation(f"after {what}: job {j.k} future raised {type(exc).__name__}: {exc} although {j.cause}")
            val = j.fut.result()
            want = model.outcome(j.name)
            if j.status == "result":
                if not isinstance(val, quantum.QuantumResult) or val.parent != j.name or val.result.value != want[2].encode():
                    other = next((o.k for o in jobs if isinstance(val, quantum.QuantumResult) and val.parent == o.name), None)
                    raise Violation(f"after {what}: job {j.k} future holds " + (f"the result of job {other}" if other is not None and other != j.k
                                    else f"{type(val).__name__} that is not the model's result for it"))
                if model.created.get(j.name, 0) != 1:
                    raise Violation(f"after {what}: job {j.k} has a result but was created {model.created.get(j.name, 0)} times in the model")
            else:
                if not isinstance(val, quantum.QuantumJob) or val.name != j.name:
                    raise Violation(f"after {what}: job {j.k} future holds {type(val).__name__} that is not the failed job itself")
        for name in set(fake.cancel_calls):
            j = byname.get(name)
            n = fake.cancel_calls.count(name)
            if j is None:
                raise Violation(f"after {what}: cancel_quantum_job({name!r}) for a job nobody submitted")
            if j.status != "cancelled":
                raise Violation(f"after {what}: cancel_quantum_job sent for job {j.k} which was neither cancelled nor stopped")
            if n > 1:
                raise Violation(f"after {what}: cancel_quantum_job sent {n} times for job {j.k}")
        for j in jobs:
            if (j.by_cancel or j.by_stop) and fake.cancel_calls.count(j.name) != 1:
                why = "was cancelled by the caller" if j.by_cancel else "was cancelled by stop() while the job was in flight"
                raise Violation(f"after {what}: future of job {j.k} {why} but cancel_quantum_job({j.name!r}) "
                                f"was sent {fake.cancel_calls.count(j.name)} times")
        lab["peak_inflight"] = max(lab["peak_inflight"], len(inflight()))

    def pick(lst, i):
        return lst[int(i) % len(lst)] if lst else None

    def do_process(rec):
        reply = fake.process(rec)
        return reply

    def do_deliver(rec):
        reply = fake.process(rec)
        fake.respond(rec)
        apply_reply(rec, reply)

    def step(act):
        nonlocal stopped_once
        kind = str(act[0]) if act else "yield"
        a = list(act[1:]) + [0, 0, 0]
        live = fake.live_unresponded()
        if kind == "submit":
            if len(jobs) >= 5:
                return None
            if stopped_once and not inflight():
                lab["submit_after_stop"] = True
            j = submit(a[0], a[1])
            _in_loop()
            return f"submit(job {j.k})"
        if kind == "deliver":
            rec = pick(live, a[0])
            if rec is None:
                return None
            _in_loop(lambda: do_deliver(rec))
            return f"deliver({rec.kind} of job {byname[rec.job].k if rec.job in byname else '?'} -> {rec.reply[0]}{':' + rec.reply[1] if rec.reply[0] == 'error' else ''})"
        if kind == "process":
            rec = pick([q for q in live if not q.processed], a[0])
            if rec is None:
                return None
            _in_loop(lambda: do_process(rec))
            return f"process({rec.kind})"
        if kind == "respond":
            rec = pick([q for q in live if q.processed], a[0])
            if rec is None:
                return None

            def f():
                fake.respond(rec)
                apply_reply(rec, rec.reply)

            _in_loop(f)
            return f"respond({rec.kind} -> {rec.reply[0]})"
        if kind == "inject":
            rec = pick(live, a[0])
            if rec is None:
                return None
            code = EM.FATAL_CODES[int(a[1]) % len(EM.FATAL_CODES)]

            def f():
                fake.respond(rec, ("error", code))
                apply_reply(rec, ("error", code))

            lab["injected"] += 1
            _in_loop(f)
            return f"inject({code} for {rec.kind})"
        if kind in ("break", "cancel_break", "stop_break"):
            # break: the stream fails on its own step.  cancel_break: the caller's cancel() of job k and the stream
            # failure reach the loop in ONE callback, no yield in between (order drawn).  stop_break: stop() and the
            # failure, ditto (the loop is held until stop() has published to every waiter).
            if fake.current_stream() is None:
                return None
            victim = None
            order = 0
            if kind == "cancel_break":
                victim, order, a = pick(inflight(), a[0]), int(a[1]) % 2, a[2:] + [0, 0]
                if victim is None:
                    return None
            elif kind == "stop_break":
                order, a = int(a[0]) % 2, a[1:] + [0]
                if not inflight():
                    return None
            retry = bool(a[1])
            name = _RETRYABLE[int(a[2]) % 3] if retry else _FATAL_BREAKS[int(a[2]) % len(_FATAL_BREAKS)]
            exc = _break_exception(name)
            after = str(a[0]) == "after" or a[0] == 1
            target = pick([q for q in live if not q.processed], a[3] if len(a) > 3 else 0) if after else None
            delay = int(a[4]) if len(a) > 4 else 0
            helper = []

            def brk():
                if target is not None:
                    fake.process(target)
                mine = fake.live_unresponded()
                between = any(q.processed for q in mine)
                fake.break_stream(exc)
                if delay > 0 and retry:
                    late.extend((lab["steps"] + delay, q) for q in mine if not q.processed and q.kind != EM.GR)
                return between

            def stop_held():
                """Run stop() on a helper thread while this callback holds the loop, until stop() has published its
                CancelledError to every waiter (first statement of _reset clears the stream future)."""
                t = threading.Thread(target=manager.stop, daemon=True)
                helper.append(t)
                t.start()
                for _ in range(400000):
                    if manager._manage_stream_loop_future is None:
                        return
                    time.sleep(0.00005)
                raise RuntimeError("stop() did not reach _reset() while the loop was held")

            def f():
                second = victim.fut.cancel if victim is not None else (stop_held if kind == "stop_break" else None)
                if second is not None and order == 1:
                    second()
                between = brk()
                if second is not None and order == 0:
                    second()
                return between

            hit = list(inflight())
            if victim is not None:
                victim.status, victim.by_cancel = "cancelled", True
                victim.cause = f"its future was cancelled by the caller in the same loop pass as a stream break ({name})"
                lab["cancel_inflight"] += 1
                lab["cancel_with_break"] = True
                if any(q.job == victim.name and q.kind != EM.CPJ for q in fake.requests):
                    lab["cancel_after_retry"] = True
            if kind == "stop_break":
                for j in hit:
                    j.status, j.by_stop, j.cause = "cancelled", True, f"the manager was stopped in the same loop pass as a stream break ({name})"
                lab["stops_inflight"] += 1
                lab["stop_with_break"] = True
                stopped_once = True
            elif not retry:
                for j in hit:
                    if j is not victim:
                        j.status, j.exc_type, j.cause = "exc", type(exc), f"the stream broke with non-retryable {name}"
            between = _in_loop(f)
            for t in helper:
                t.join(_SAFETY_S)
                if t.is_alive():
                    raise RuntimeError("stop() never returned")
            if helper:
                _in_loop()
            if hit:
                lab["breaks_retryable" if retry else "breaks_fatal"] += 1
                if between:
                    lab["break_between"] = True
                    if retry:
                        lab["retry_break_between"] = True
            pos = f"{'after' if target is not None else 'before'} processing"
            if victim is not None:
                return f"{'cancel(job %d)+break' % victim.k if order else 'break+cancel(job %d)' % victim.k}({name}, {pos}) in one loop pass"
            if kind == "stop_break":
                return f"{'stop()+break' if order else 'break+stop()'}({name}, {pos}) in one loop pass"
            return f"break({name}, {pos})"
        if kind == "cancel_deliver":  # the server's answer for job k and the caller's cancel() of job k in ONE callback
            j = pick(inflight(), a[0])
            rec = next((q for q in live if j is not None and q.job == j.name), None)
            if rec is None:
                return None
            order = int(a[1]) % 2
            j.status, j.by_cancel = "cancelled", True
            j.cause = "its future was cancelled by the caller in the same loop pass as the server's answer"
            lab["cancel_inflight"] += 1
            lab["cancel_with_response"] = True

            def f():
                if order:
                    j.fut.cancel()
                do_deliver(rec)
                if not order:
                    j.fut.cancel()

            _in_loop(f)
            ans = f"{rec.kind} -> {rec.reply[0]}{':' + rec.reply[1] if rec.reply[0] == 'error' else ''}"
            return f"{'cancel(job %d)+deliver' % j.k if order else 'deliver+cancel(job %d)' % j.k}({ans}) in one loop pass"
        if kind == "orphan":
            rec = pick([q for q in fake.requests if q.dead and not q.processed and q.kind != EM.GR
                        and q.job in byname and byname[q.job].status == "inflight"], a[0])
            if rec is None:
                return None
            _in_loop(lambda: fake.process(rec))
            lab["orphans"] += 1
            return f"late processing of stranded {rec.kind}"
        if kind == "cancel":
            j = pick(jobs, a[0])
            if j is None:
                return None
            if j.status == "inflight":
                j.status, j.cause, j.by_cancel = "cancelled", "its future was cancelled by the caller", True
                lab["cancel_inflight"] += 1
                if any(q.job == j.name and q.kind != EM.CPJ for q in fake.requests):
                    lab["cancel_after_retry"] = True
            j.fut.cancel()
            _in_loop()
            return f"cancel(job {j.k})"
        if kind == "stop":
            hit = inflight()
            for j in hit:
                j.status, j.by_stop, j.cause = "cancelled", True, "the manager was stopped"
            if hit:
                lab["stops_inflight"] += 1
            manager.stop()
            stopped_once = True
            _in_loop()
            return "stop()"
        _in_loop()
        return "yield"

    failure = None
    try:
        check("construction")
        for act in r.get("actions", []):
            if not isinstance(act, list):
                continue
            if act and act[0] == "chase":  # the server answers whatever job k has outstanding, n times in a row
                a = list(act[1:]) + [0, 1]
                for _ in range(max(1, min(4, int(a[1])))):
                    tick()
                    j = pick(inflight(), a[0])
                    rec = next((q for q in fake.live_unresponded() if j is not None and q.job == j.name), None)
                    if rec is None:
                        break
                    _in_loop(lambda: do_deliver(rec))
                    lab["steps"] += 1
                    check(f"chase: deliver({rec.kind} of job {j.k} -> {rec.reply[0]}{':' + rec.reply[1] if rec.reply[0] == 'error' else ''})")
                continue
            tick()
            what = step(act)
            if what is None:
                continue
            lab["steps"] += 1
            check(what)
        # fault-free drain: the server answers everything, oldest first
        for n in range(12 * len(jobs) + 4):
            tick()
            lab["steps"] += 1
            if not inflight():
                break
            rec = fake.live_unresponded()[0]  # check() guarantees one per in-flight job
            _in_loop(lambda: do_deliver(rec))
            check(f"drain #{n}: deliver({rec.kind} -> {rec.reply[0]}{':' + rec.reply[1] if rec.reply[0] == 'error' else ''})")
        else:
            raise Violation(f"jobs {[j.k for j in inflight()]} still unresolved after {12 * len(jobs) + 4} fault-free server answers")
    except BaseException as e:  # noqa: B902 - tear down first, then re-raise
        failure = e
    # ------------------------------------------------------------------ teardown: leave the shared loop clean
    leftovers = []
    try:
        manager.stop()
        _in_loop()

        async def sweep():
            extra = [t for t in asyncio.all_tasks() if t not in baseline and t is not asyncio.current_task()]
            names = sorted(getattr(t.get_coro(), "__qualname__", "?") for t in extra)
            for t in extra:
                t.cancel()
            if extra:
                await asyncio.gather(*extra, return_exceptions=True)
            return names

        leftovers = _executor().submit(sweep).result(timeout=_SAFETY_S)
        _in_loop()
    finally:
        for j in jobs:
            if not j.fut.done():
                j.fut.cancel()
    if failure is not None:
        raise failure
    if leftovers:
        raise Violation(f"tasks outlive stop(): {leftovers}")
    for s in fake.streams:
        if not s.reader_done:
            raise Violation(f"request iterator of stream #{s.no} still open after stop()")
    for j in jobs:
        if not j.fut.done():
            raise Violation(f"future of job {j.k} still pending after stop()")
    codes = lab.pop("codes")
    out = {
        "jobs": len(jobs), "concurrent2": lab["peak_inflight"] >= 2, "breaks_retryable": min(lab["breaks_retryable"], 3),
        "fatal_break": lab["breaks_fatal"] > 0, "break_between": lab["break_between"], "retry_break_between": lab["retry_break_between"],
        "orphan_processed": lab["orphans"] > 0, "cancel_inflight": lab["cancel_inflight"] > 0, "cancel_after_retry": lab["cancel_after_retry"],
        "cancel_with_break": lab["cancel_with_break"], "cancel_with_response": lab["cancel_with_response"],
        "stop_with_break": lab["stop_with_break"], "stop_inflight": lab["stops_inflight"] > 0, "submit_after_stop": lab["submit_after_stop"], "injected_code": lab["injected"] > 0,
        "via_client": via_client, "streams": min(len(fake.streams), 5), "results": sum(j.status == "result" for j in jobs),
        "failed_jobs": sum(j.status == "job" for j in jobs) > 0,
    }
    for c in sorted(codes):
        out["code_" + c] = True
    out["nontrivial"] = bool(out["concurrent2"] and out["retry_break_between"])
    return out


def _act(*parts):
    return st.tuples(*[p if isinstance(p, st.SearchStrategy) else st.just(p) for p in parts]).map(list)


_idx = st.integers(0, 4)
_delay = st.sampled_from([0, 1, 2, 2, 3, 3, 3])
_stream_action = st.one_of(
    _act("submit", st.integers(0, 4), st.sampled_from(["ok", "ok", "ok", "fail"])),
    _act("submit", st.integers(0, 4), st.sampled_from(["ok", "ok", "ok", "fail"])),
    _act("submit", st.integers(0, 4), st.just("ok")),
    _act("deliver", _idx), _act("deliver", _idx), _act("deliver", _idx), _act("deliver", _idx), _act("deliver", _idx),
    _act("chase", _idx, st.integers(2, 4)), _act("chase", _idx, st.integers(2, 4)), _act("chase", _idx, st.integers(2, 4)),
    _act("process", _idx),
    _act("respond", _idx),
    _act("break", st.just("after"), st.just(1), st.integers(0, 2), _idx, _delay),
    _act("break", st.just("after"), st.just(1), st.integers(0, 2), _idx, _delay),
    _act("break", st.just("before"), st.just(1), st.integers(0, 2), _idx, _delay),
    _act("break", st.just("before"), st.just(1), st.integers(0, 2), _idx, _delay),
    _act("break", st.sampled_from(["after", "before"]), st.sampled_from([1, 0, 0]), st.integers(0, 13), _idx, _delay),
    _act("orphan", _idx),
    _act("cancel", _idx),
    _act("cancel_break", _idx, st.integers(0, 1), st.sampled_from(["after", "before"]), st.sampled_from([1, 1, 1, 0]), st.integers(0, 13), _idx, _delay),
    _act("cancel_deliver", _idx, st.integers(0, 1)),
    _act("stop_break", st.integers(0, 1), st.sampled_from(["after", "before"]), st.sampled_from([1, 1, 0]), st.integers(0, 13), _idx, _delay),
    _act("inject", _idx, st.integers(0, 5)),
    _act("stop"),
    _act("yield"),
)


@st.composite
def _stream_case(draw):
    nprog = draw(st.sampled_from([1, 2, 3, 5, 5]))
    first = [["submit", draw(st.integers(0, 4)), "ok"]]
    if draw(st.booleans()):
        first.append(["submit", draw(st.integers(0, 4)), draw(st.sampled_from(["ok", "ok", "fail"]))])
    return {
        "nprog": nprog,
        "pre": draw(st.lists(st.integers(0, 4), min_size=1, max_size=2)) if draw(st.integers(0, 3)) == 0 else [],
        "job_first": draw(st.booleans()),
        "via_client": draw(st.integers(0, 3)) == 0,
        "actions": first + draw(st.lists(_stream_action, min_size=3, max_size=18)),
    }


# =====================================================================================================================
# 4. ResponseDemux as a data structure
# =====================================================================================================================


def oracle_demux(r):
    from cirq_google.cloud import quantum
    from cirq_google.engine.stream_manager import ResponseDemux

    async def script():
        demux = ResponseDemux()
        subscribed = {}  # id -> index into tracked (model of who is subscribed)
        tracked = []  # [future, expectation]   expectation: ("pending",) | ("result", obj) | ("exc", obj) | ("cancelled",)
        stats = {"dup_subscribe": 0, "resubscribe": 0, "publish_hit": 0, "publish_miss": 0, "exceptions": 0, "publish_to_done": 0}
        was = set()

        def verify(what):
            for i, (fut, exp) in enumerate(tracked):
                if exp[0] == "pending":
                    if fut.done():
                        raise Violation(f"after {what}: subscriber {i} resolved although nothing was published to it")
                elif exp[0] == "cancelled":
                    if not fut.cancelled():
                        raise Violation(f"after {what}: a cancelled subscriber future changed state")
                elif not fut.done() or fut.cancelled():
                    raise Violation(f"after {what}: subscriber {i} not resolved although a {exp[0]} was published to it")
                elif exp[0] == "result":
                    if fut.exception() is not None or fut.result() is not exp[1]:
                        raise Violation(f"after {what}: subscriber {i} holds something else than the response published to its id")
                elif fut.exception() is not exp[1]:
                    raise Violation(f"after {what}: subscriber {i} does not hold the published exception")

        n = 0
        for act in r.get("actions", []):
            if not isinstance(act, list) or not act:
                continue
            kind, a = str(act[0]), list(act[1:]) + [0]
            mid = str(int(a[0]) % 5)
            n += 1
            if kind == "sub":
                try:
                    fut = demux.subscribe(mid)
                except ValueError:
                    if mid not in subscribed:
                        raise Violation(f"subscribe({mid}) raised ValueError although nobody is subscribed to that id")
                    stats["dup_subscribe"] += 1
                else:
                    if mid in subscribed:
                        raise Violation(f"second subscribe({mid}) did not raise ValueError")
                    if mid in was:
                        stats["resubscribe"] += 1
                    if any(fut is t[0] for t in tracked):
                        raise Violation("subscribe returned a future it had handed out before")
                    subscribed[mid] = len(tracked)
                    was.add(mid)
                    tracked.append([fut, ("pending",)])
            elif kind == "pub":
                resp = quantum.QuantumRunStreamResponse(message_id=mid, result=quantum.QuantumResult(parent=f"r{n}"))
                demux.publish(resp)
                if mid in subscribed:
                    t = tracked[subscribed.pop(mid)]  # "The subscriber is unsubscribed afterwards."
                    if t[1][0] == "pending":
                        t[1] = ("result", resp)
                        stats["publish_hit"] += 1
                    else:
                        stats["publish_to_done"] += 1
                else:
                    stats["publish_miss"] += 1
            elif kind == "pubx":
                exc = RuntimeError(f"x{n}") if int(a[0]) % 2 else asyncio.CancelledError()
                demux.publish_exception(exc)
                for i in subscribed.values():
                    if tracked[i][1][0] == "pending":
                        tracked[i][1] = ("exc", exc)
                        stats["exceptions"] += 1
                subscribed.clear()
            elif kind == "cancel":
                if tracked:
                    t = tracked[int(a[0]) % len(tracked)]
                    if t[1][0] == "pending":
                        t[0].cancel()
                        t[1] = ("cancelled",)
            await asyncio.sleep(0)
            verify(f"step {n} {kind}({mid})")
        for fut, exp in tracked:  # retrieve everything so nothing is logged at garbage collection
            if fut.done() and not fut.cancelled():
                fut.exception()
            elif not fut.done():
                fut.cancel()
        return stats

    loop = asyncio.new_event_loop()
    try:
        stats = loop.run_until_complete(script())
    finally:
        loop.close()
    return {"nontrivial": stats["publish_hit"] >= 1 and (stats["resubscribe"] >= 1 or stats["exceptions"] >= 1),
            "dup_subscribe": stats["dup_subscribe"] > 0, "resubscribe": stats["resubscribe"] > 0,
            "publish_miss": stats["publish_miss"] > 0, "publish_to_done": stats["publish_to_done"] > 0,
            "exception_reaches_pending": stats["exceptions"] > 0}


_demux_action = st.one_of(_act("sub", _idx), _act("sub", _idx), _act("sub", _idx), _act("pub", _idx), _act("pub", _idx),
                          _act("pubx", st.integers(0, 1)), _act("cancel", _idx))
_demux_case = st.fixed_dictionaries({"actions": st.lists(_demux_action, min_size=1, max_size=20)})


# =====================================================================================================================
# 5. ProcessorSampler over a parked fake processor
# =====================================================================================================================

_SWEEPS = [None, ("a", [0.0, 1.0]), ("a", [0.0, 1.0, 2.0]), ("b", [0.5])]


def _sweep(i):
    s = _SWEEPS[int(i) % len(_SWEEPS)]
    return None if s is None else cirq.Points(s[0], list(s[1]))


class _Token:
    """Stands for one EngineResult: (program index, sweep point)."""

    def __init__(self, p, s):
        self.p, self.s = p, s

    def __repr__(self):
        return f"R(p{self.p},s{self.s})"


def oracle_processor_sampler(r):
    import cirq_google as cg

    nprog = max(1, min(6, len(r.get("progs", [])) or 1))
    progs = (list(r.get("progs", [])) + [[0, 1]] * nprog)[:nprog]  # [sweep index, repetitions]
    circuits = [cirq.Circuit(cirq.measure(cirq.LineQubit(i), key=f"p{i}")) for i in range(nprog)]
    cid = {id(c): i for i, c in enumerate(circuits)}
    jpb = max(1, int(r.get("jobs_per_batch", 1)))
    maxc = max(1, int(r.get("max_concurrent", 1)))
    mapping = bool(r.get("mapping"))
    mode = r.get("mode", "batch")
    park_create = bool(r.get("park_create"))
    events, bad = [], []
    calls = []  # dict(progs=[idx], sweep, reps, create_fut, result_fut, tokens)

    class FakeJob:
        def __init__(self, call):
            self.call = call

        async def results_async(self):
            return await self.call["result_fut"]

    class FakeProcessor:
        async def run_sweep_async(self, program, params, repetitions, run_name, snapshot_id, device_config_name):
            if isinstance(program, dict):
                plist, shape = list(program.values()), "dict"
                if list(program.keys()) != [f"k{cid.get(id(c))}" for c in plist]:
                    bad.append("mapping keys do not belong to their programs")
            elif isinstance(program, (list, tuple)):
                plist, shape = list(program), "list"
            else:
                plist, shape = [program], "single"
            idx = [cid.get(id(c)) for c in plist]
            if any(i is None for i in idx):
                bad.append("processor received a program object that was not submitted")
                idx = [i for i in idx if i is not None]
            npts = len(list(cirq.to_resolvers(params)))
            call = {"progs": idx, "shape": shape, "params": params, "reps": repetitions, "n": len(calls),
                    "create_fut": duet.AwaitableFuture(), "result_fut": duet.AwaitableFuture(), "created": False,
                    "tokens": [_Token(p, s) for p in idx for s in range(npts)]}
            calls.append(call)
            events.append(("start", call["n"]))
            open_calls = [c for c in calls if not c["result_fut"].done()]
            if len(open_calls) > maxc:
                bad.append(f"{len(open_calls)} jobs sent to the processor and not finished, max_concurrent_jobs={maxc}")
            if (run_name, snapshot_id, device_config_name) != ("", "", ""):
                bad.append("device selection arguments were not passed through")
            if park_create:
                await call["create_fut"]
            call["created"] = True
            return FakeJob(call)

    sampler = cg.ProcessorSampler(processor=FakeProcessor(), max_concurrent_jobs=maxc, jobs_per_batch=jpb)
    outcome = {}
    injected = []

    async def quiesce():
        stable, last = 0, -1
        for _ in range(200):
            await duet.sleep(0)
            now = len(events) + sum(c["created"] for c in calls) + len(outcome)
            stable = stable + 1 if now == last else 0
            last = now
            if stable >= 2:
                return
        raise Violation("scheduler never became quiescent")

    def pending():
        out = []
        for c in calls:
            if park_create and not c["create_fut"].done():
                out.append((c, "create_fut"))
            elif c["created"] and not c["result_fut"].done():
                out.append((c, "result_fut"))
        return out

    def resolve(item, ok):
        c, which = item
        if which == "create_fut":
            c[which].set_result(None)
        elif ok:
            c[which].set_result(list(c["tokens"]))
        else:
            exc = _SamplerFailure(len(injected))
            injected.append(exc)
            c[which].set_exception(exc)

    sweeps = [_sweep(p[0]) for p in progs]
    reps = [max(1, int(p[1])) for p in progs]

    async def user():
        try:
            if mode == "sweeps":  # independent run_sweep_async calls racing each other
                async def one(i):
                    res = await sampler.run_sweep_async(circuits[i], sweeps[i], reps[i])
                    outcome[i] = ("value", res)
                async with duet.new_scope() as scope:
                    for i in range(nprog):
                        scope.spawn(one, i)
                outcome["all"] = ("value", None)
            else:
                arg = {f"k{i}": c for i, c in enumerate(circuits)} if mapping else list(circuits)
                same = len(set(reps)) == 1 and bool(r.get("scalar_reps"))
                res = await sampler.run_batch_async(arg, sweeps if any(s is not None for s in sweeps) or r.get("explicit_none") else None,
                                                    reps[0] if same else reps)
                outcome["all"] = ("value", res)
        except Exception as e:
            outcome["all"] = ("raise", e)

    async def driver():
        await quiesce()
        for act in list(r.get("actions", [])) + [["c", 0]] * 64:
            if "all" in outcome or bad:
                break
            pend = pending()
            if not pend:
                bad.append("lost wake-up: call not finished, nothing pending at the processor, scheduler idle")
                break
            a = (list(act) if isinstance(act, list) else [act]) + [0, 0]
            resolve(pend[int(a[1]) % len(pend)], str(a[0]) != "f")
            await quiesce()
        n = len(events)
        await quiesce()
        if len(events) != n:
            bad.append("processor called after the batch finished")
        if "all" not in outcome:
            raise _Abort()

    async def main():
        async with duet.new_scope() as scope:
            scope.spawn(user)
            await driver()

    try:
        duet.run(main)
    except _Abort:
        pass
    finally:
        for c in calls:
            for k in ("create_fut", "result_fut"):
                if not c[k].done():
                    c[k].cancel()
    if bad:
        raise Violation(bad[0])
    if "all" not in outcome:
        raise Violation("run did not finish")
    npts = [len(list(cirq.to_resolvers(s))) for s in sweeps]
    if injected:
        if outcome["all"][0] != "raise" or not any(outcome["all"][1] is e for e in injected):
            raise Violation(f"a job failed but the call gave {outcome['all'][0]} {type(outcome['all'][1]).__name__}")
    else:
        if outcome["all"][0] == "raise":
            raise Violation(f"call raised {type(outcome['all'][1]).__name__}: {outcome['all'][1]} although no job failed")
        if mode == "sweeps":
            got = [outcome.get(i, ("missing", None))[1] for i in range(nprog)]
        else:
            got = outcome["all"][1]
            if len(got) != nprog:
                raise Violation(f"run_batch returned {len(got)} result lists for {nprog} programs")
        for i in range(nprog):
            g = list(got[i]) if got[i] is not None else None
            if g is None or [(t.p, t.s) for t in g] != [(i, s) for s in range(npts[i])]:
                raise Violation(f"results for program {i} are {g}, expected its own {npts[i]} sweep points in order")
            if any(not any(t is u for c in calls for u in c["tokens"]) for t in g):
                raise Violation("result objects were not the ones the processor produced")
        # every program sent exactly once, batches are consecutive, homogeneous and not larger than jobs_per_batch
        sent = sorted(i for c in calls for i in c["progs"])
        if sent != list(range(nprog)):
            raise Violation(f"programs sent to the processor: {sent}, expected each of {nprog} exactly once")
        for c in calls:
            ps = c["progs"]
            if ps != list(range(ps[0], ps[0] + len(ps))):
                raise Violation(f"batch {ps} is not a run of consecutive programs")
            if len(ps) > (jpb if mode == "batch" else 1):
                raise Violation(f"batch of {len(ps)} programs, jobs_per_batch={jpb}")
            if any(reps[i] != c["reps"] for i in ps) or any(sweeps[i] != sweeps[ps[0]] for i in ps):
                raise Violation("batch mixes programs with different repetitions or sweeps")
            want_shape = "single" if (jpb == 1 or mode != "batch") else ("dict" if mapping else "list")
            if c["shape"] != want_shape:
                raise Violation(f"processor received a {c['shape']} program argument, expected {want_shape}")
    res_order = [int(a[1]) if isinstance(a, list) and len(a) > 1 else 0 for a in r.get("actions", [])]
    return {"nontrivial": len(calls) >= 3 and any(x for x in res_order[: len(calls)]) and maxc < len(calls),
            "calls": min(len(calls), 6), "multi_program_batches": any(len(c["progs"]) > 1 for c in calls),
            "partial_batch": jpb > 1 and any(len(c["progs"]) < jpb for c in calls), "limited": maxc < len(calls),
            "failure": bool(injected), "mode": mode, "mapping": mapping and mode == "batch"}


@st.composite
def _ps_case(draw):
    n = draw(st.integers(1, 6))
    homog = draw(st.booleans())
    base = [draw(st.integers(0, 3)), draw(st.integers(1, 3))]
    progs = [list(base) if homog or draw(st.integers(0, 2)) else [draw(st.integers(0, 3)), draw(st.integers(1, 3))] for _ in range(n)]
    fail = draw(st.integers(0, 5)) == 0
    acts = draw(st.lists(st.tuples(st.sampled_from(["c"] * 6 + (["f"] if fail else ["c"])), st.integers(0, 4)).map(list), max_size=14))
    return {"progs": progs, "jobs_per_batch": draw(st.sampled_from([1, 2, 2, 3])), "max_concurrent": draw(st.sampled_from([1, 2, 2, 3, 4])),
            "mapping": draw(st.booleans()), "mode": draw(st.sampled_from(["batch", "batch", "batch", "sweeps"])),
            "park_create": draw(st.booleans()), "scalar_reps": draw(st.booleans()), "explicit_none": draw(st.booleans()), "actions": acts}


SUBCHECKS = [
    SubCheck("collector", _collector_case(), oracle_collector, quick=4000, thorough=600000, shards_quick=8, shards_thorough=16,
             essential={"completion_order_differs": 0.1, "concurrency_lt_jobs": 0.2}),
    SubCheck("pauli", _pauli_case(), oracle_pauli, quick=800, thorough=100000, shards_quick=2, shards_thorough=8),
    SubCheck("stream", _stream_case(), oracle_stream, quick=8000, thorough=600000, shards_quick=8, shards_thorough=16,
             essential={"concurrent2": 0.3, "retry_break_between": 0.15}),
    SubCheck("demux", _demux_case, oracle_demux, quick=1000, thorough=100000, shards_quick=1, shards_thorough=8),
    SubCheck("processor_sampler", _ps_case(), oracle_processor_sampler, quick=1600, thorough=200000, shards_quick=2, shards_thorough=16),
]
