"""C10 — parameter resolution and sweeps commute with everything else."""
from __future__ import annotations

import json

import numpy as np
import sympy
from hypothesis import strategies as st

import cirq
from vf.core import Reject, SubCheck, Violation
from vf.gen import c10_gen as CG
from vf.gen import circuits as GC
from vf.gen import gates as G
from vf.prng import ScriptedPRNG
from vf.ref import c10_model as M
from vf.ref import linalg as L

RULE = (
    "The recipe IS the expression tree / resolver table / sweep tree (vf/ref/c10_model.py): Hypothesis draws trees over 3 symbols "
    "(Symbol, float/int/Rational/pi literals, n-ary + and *, -, neg, /, ^ with literal/symbolic/nested exponents, scalar multiples; "
    "sin/cos/exp in expr_funcs), resolver tables (python/numpy/sympy numbers, complex, symbol->expression chains, string aliases, one "
    "deliberate back edge), gates from every row of vf.gen.gates that has a symbolic slot with the tree in that slot (wrappers: tags, "
    "parameterised tag, controlled, ControlledGate, ParallelGate, inverse, classical control, CircuitOperation with/without own "
    "param_resolver, with_params), GC-style circuits whose ops carry symbolic slots, and sweep trees (Points/Linspace/ListSweep/Unit/"
    "dict_to_*_sweep leaves; Zip/ZipLongest/Product/Concat/*/+ nodes, nested to depth 3, empty and single point, plus contract-"
    "violating definitions). Reference: a pure-python AST evaluator (never parses sympy) and a recipe-level enumeration of the "
    "assignment list. Non-trivial: expression depth>=2 with >=2 symbols, or resolver chain length>=2, or sweep nesting depth>=2; "
    "for circuits: >=2 symbolic ops with such expressions. Distinct = distinct recipe hash."
)
ASSUMPTIONS = [
    "cirq.unitary(gate(numeric value)) is trusted for the matrix of a numeric gate (C03/C04 decide that); the numeric value itself is "
    "computed by the harness' own evaluator from the recipe",
    "python float arithmetic is the 'ordinary algebra' reference; comparisons at 1e-9*(1+largest intermediate magnitude) "
    "(1e-6 when a numpy.float32 value takes part), matrices at 1e-7*(1+largest parameter magnitude)",
    "domain: expressions that stay real and finite for the drawn values (0**negative, negative**fraction, |value|>1e4 are rejected), "
    "complex values only through +,*,-,/ and integer powers",
    "sympy's automatic simplification at construction time (a-a -> 0, a*a -> a**2) is not code under test; names of an expression "
    "are the free symbols of the constructed object",
]
SENSITIVITY = [
    "resolver_mul_fast_path_adds",
    "resolver_pow_fast_path_swaps_base_and_exponent",
    "resolver_chain_stops_after_one_hop",
    "resolver_compose_drops_symbols_only_second_resolver_knows",
    "zip_len_uses_max",
    "product_first_factor_fastest",
    "sweep_negative_index_off_by_one",
    "ziplongest_repeats_first_instead_of_last",
    "moment_resolve_returns_self_unless_last_op_changed",
    "flatten_reuses_a_taken_symbol",
    "simulate_sweep_reuses_state_for_second_to_last_resolver",
    "circuit_operation_with_params_skips_own_resolver",
    "tagged_operation_does_not_resolve_tags",
    "sample_reports_first_key_value_in_every_param_column",
    "to_sweeps_dict_keeps_only_first_point",
    "linspace_interpolates_from_stop",
]

ZZ = "zz"  # name of a symbol nothing uses


# =========================================================================================== helpers


def _domain(f):
    """An OutOfDomain raised anywhere while building the inputs (e.g. a literal 3/0 in an unused table entry) = Reject."""
    import functools

    @functools.wraps(f)
    def g(r):
        try:
            return f(r)
        except M.OutOfDomain as e:
            raise Reject(f"outside the real/finite domain: {e}")

    return g


def _as_number(x, what):
    if isinstance(x, sympy.Basic):
        if x.free_symbols:
            raise Violation(f"{what}: still symbolic after resolving every symbol: {x!r}"[:300])
        return complex(x)
    if isinstance(x, (str, bytes)) or x is None:
        raise Violation(f"not a number: {x!r}\n  case: {what}")
    return complex(x)


def _cmp_num(what, got, want, tol):
    g = _as_number(got, what)
    d = abs(g - complex(want))
    if not d <= tol:
        raise Violation(f"{g!r} differs from substituted value {want!r} by {d:.3g} (tol {tol:.1g})\n  case: {what}")


def _free_names(obj) -> set:
    return {s.name for s in obj.free_symbols} if isinstance(obj, sympy.Basic) else set()


def _degenerate(trees) -> bool:
    """sympy simplified a symbol away at construction (a - a, a**0, 0*a ...), or will do so as soon as the expression is
    rebuilt: b**0.0 survives construction, but -1*(b**0.0) evaluates to -1 (sympy, not Cirq)."""
    for t in trees:
        o = M.to_sympy(t)
        if _free_names(o) != M.names_of(t):
            return True
        if isinstance(o, sympy.Basic) and any(isinstance(n, sympy.Pow) and n.args[1].is_zero for n in sympy.preorder_traversal(o)):
            return True
    return False


def _expr_trees(*layers):
    return [v[1] for vals in layers for v in vals.values() if v[0] == "expr"]


def _resolver_forms(pd, form):
    if form == "dict":
        return dict(pd), cirq.ParamResolver(dict(pd))
    if form == "nested":
        r = cirq.ParamResolver(cirq.ParamResolver(dict(pd)))
        return r, r
    r = cirq.ParamResolver(dict(pd))
    return r, r


def _tol(stat, f32=False, base=1e-9):
    return (1e-6 if f32 else base) * (1 + stat.get("max", 0.0))


def _numeric_names(vals, recursive=True) -> set:
    """names a resolver table turns into *numbers* on its own."""
    out = set()
    look = M.make_lookup(vals, recursive=recursive)
    for n in vals:
        try:
            look(n)
            out.add(n)
        except (M.Unresolved, M.Cycle, M.OutOfDomain):
            pass
    return out


def _pow_partial(objs, numeric: set, submap=None, rounds=1) -> bool:
    """(label; the trigger of repaired defect FC10a) some Pow reaches the numpy power call with a sympy operand, i.e. after the substitution
    its base is free of symbols while (a) its exponent still has one, or (b) the base only lost its symbols by
    collapsing (0*a, a**0), which leaves a sympy number.  ``submap``: Symbol -> number/expression applied
    ``rounds`` times (the predicate may use sympy; it is not an oracle)."""
    submap = submap or {}

    def sub(e):
        for _ in range(rounds):
            if isinstance(e, sympy.Basic) and submap:
                e = e.subs(submap, simultaneous=True)
        return e

    for o in objs:
        if not isinstance(o, sympy.Basic):
            continue
        for node in sympy.preorder_traversal(o):
            if isinstance(node, sympy.Pow):
                b, e = node.args
                try:
                    b2, e2 = sub(b), sub(e)
                except Exception:
                    return True
                if _free_names(b2):
                    continue
                if _free_names(e2) or not _free_names(b) <= numeric:
                    return True
    return False


# =========================================================================================== 1. expressions


@st.composite
def _expr_value_case(draw, funcs=False):
    cplx = draw(st.integers(0, 5)) == 0
    # No deliberate cycle together with sin/cos/exp: ParamResolver only notices a loop when the *same* key comes back; behind a
    # function every substitution step yields a new, larger expression, so a cycle like a -> 2*b, b -> a*a + ... is "detected"
    # only by Python's own stack limit after minutes (observed 30 s .. >15 min per case).  Loops are covered by expr_value.
    cyc = (not funcs) and draw(st.integers(0, 11)) == 0
    vals = draw(CG.resolver_tables(chains=True, cycle=cyc, complex_ok=cplx, f32=True))
    if cplx and not any(v[0] in ("c", "npc") for v in vals.values()):
        num = [n for n, v in vals.items() if v[0] not in ("expr", "str")]
        if num:
            cv = st.sampled_from([0.0, 1.0, -1.0, 0.5, 0.25, 2.0])
            vals[draw(st.sampled_from(num))] = [draw(st.sampled_from(["c", "npc"])), draw(cv), draw(cv)]
    return {
        "x": draw(CG.nontrivial_exprs(7, funcs=funcs)),
        "vals": vals,
        "keyform": draw(st.sampled_from(["str", "sym", "mixed"])),
        "form": draw(st.sampled_from(["dict", "resolver", "nested"])),
        "extra": draw(st.booleans()),
        "warm": draw(st.booleans()),
    }


@_domain
def oracle_expr_value(r):
    x, vals = r["x"], r["vals"]
    stat = {}
    trees = [x] + _expr_trees(vals)
    expect_cycle = False
    try:
        want = M.ev(x, M.make_lookup(vals, stat=stat), stat)
    except M.OutOfDomain as e:
        raise Reject(f"outside the real/finite domain: {e}")
    except M.Cycle:
        if _degenerate(trees):
            raise Reject("cycle through a symbol sympy simplified away")
        expect_cycle = True
    expr = M.to_sympy(x)
    pd = M.build_param_dict(vals, r["keyform"])
    if r["extra"]:
        pd[ZZ] = 1.25
    arg, res = _resolver_forms(pd, r["form"])
    chain = max([0] + [_chain_len(vals, n) for n in M.names_of(x)])
    labels = {
        "nontrivial": (M.depth_of(x) >= 2 and len(M.names_of(x)) >= 2) or chain >= 2,
        "depth": min(M.depth_of(x), 4), "chain": min(chain, 3), "cycle": expect_cycle,
        "complex": any(v[0] in ("c", "npc") for v in vals.values()), "has_pow": M.has_kind(x, {"^"}),
        "has_div": M.has_kind(x, {"/"}), "funcs": M.has_kind(x, {"sin", "cos", "exp"}),
        "f32": M.uses_float32(vals), "keyform": r["keyform"], "form": r["form"],
    }
    if expect_cycle:
        zero = any(M.value_to_python(v) == 0 for v in vals.values() if M.value_to_python(v) is not None)
        for what, f in (("value_of", lambda: res.value_of(expr)), ("resolve_parameters", lambda: cirq.resolve_parameters(expr, arg))):
            try:
                got = f()
            except RecursionError:
                continue
            if zero:
                # a factor that evaluates to 0 can make sympy drop the cyclic symbol before it is ever looked up
                # (sin(sin(c)*(0.0 - b)) with c = 0): "the loop is detected" is only promised when the loop is reached
                raise Reject("cycle behind a zero factor")
            raise Violation(f"{what}: resolver with a symbol cycle returned {got!r} instead of raising RecursionError"[:300])
        return labels
    tol = _tol(stat, M.uses_float32(vals))
    if r["warm"]:  # fill the per-resolver memo symbol by symbol first, in table order
        for n in vals:
            try:
                wn = M.make_lookup(vals)(n)
            except M.OutOfDomain:
                raise Reject("unused symbol outside the domain")
            except M.Cycle:
                if _degenerate(trees):
                    raise Reject("cycle through a symbol sympy simplified away")
                try:
                    got = res.value_of(n)
                except RecursionError:
                    continue
                raise Violation(f"value_of({n!r}): symbol on a cycle resolved to {got!r} instead of RecursionError"[:300])
            _cmp_num(f"value_of({n!r}) on a chain resolver", res.value_of(n), wn, tol)
    _cmp_num("ParamResolver.value_of(expr)", res.value_of(expr), want, tol)
    _cmp_num("cirq.resolve_parameters(expr, resolver)", cirq.resolve_parameters(expr, arg), want, tol)
    _cmp_num("ParamResolver[expr]", res[expr], want, tol)
    if x[0] == "s":
        _cmp_num("value_of(name string)", res.value_of(x[1]), want, tol)
    return labels


def _chain_len(vals, name, seen=()):
    if name not in vals or name in seen:
        return 0
    v = vals[name]
    if v[0] == "str":
        return 1 + _chain_len(vals, v[1], seen + (name,))
    if v[0] == "expr":
        return 1 + max([0] + [_chain_len(vals, n, seen + (name,)) for n in M.names_of(v[1])])
    return 0


@st.composite
def _compose_case(draw):
    mode = draw(st.sampled_from(["partial", "partial", "chain", "nonrec"]))
    x = draw(CG.nontrivial_exprs(7))
    r2 = draw(CG.numeric_tables(CG.SYMS))
    sub = [n for n in CG.SYMS if draw(st.booleans())]
    if mode == "partial":
        r1 = {n: draw(CG.value_recipes()) for n in sub}
    elif mode == "chain":
        full = draw(CG.resolver_tables(chains=True, f32=False))
        r1 = {n: v for n, v in full.items() if n in sub or v[0] in ("expr", "str")}
    else:
        r1 = {}
        for n in sub:
            k = draw(st.integers(0, 3))
            if k == 0:
                r1[n] = draw(CG.value_recipes(f32=False))
            elif k == 1:
                r1[n] = ["str", draw(st.sampled_from(CG.SYMS))]
            else:
                r1[n] = ["expr", draw(CG.nontrivial_exprs(4))]
    return {"x": x, "mode": mode, "r1": r1, "r2": r2, "keyform": draw(st.sampled_from(["str", "sym", "mixed"])),
            "form": draw(st.sampled_from(["dict", "resolver"]))}


def _compose_numeric(r):
    rec = r["mode"] != "nonrec"
    if rec:
        return _numeric_names(r["r1"], True)
    return {n for n, v in r["r1"].items() if M.value_to_python(v) is not None}


def _compose_pow_partial(r):
    objs = [M.to_sympy(r["x"])] + [M.to_sympy(t) for t in _expr_trees(r["r1"])]
    # (the unrelated-symbol step resolves x with a resolver that knows none of its symbols)
    if _pow_partial(objs[:1], set()):
        return True
    rec = r["mode"] != "nonrec"
    numeric = _compose_numeric(r)
    look = M.make_lookup(r["r1"], recursive=rec)
    submap = {}
    for n, v in r["r1"].items():
        if n in numeric:
            submap[sympy.Symbol(n)] = look(n)
        elif v[0] == "str":
            submap[sympy.Symbol(n)] = sympy.Symbol(v[1])
        elif v[0] == "expr":
            submap[sympy.Symbol(n)] = M.to_sympy(v[1])
    if _pow_partial(objs, numeric, submap, rounds=3 if rec else 1):
        return True
    # same np.float_power call, other operand: with recursive=False a sympy.Float/Integer *value* is handed over as is
    sym_valued = any(v[0] in ("sf", "si") for t in (r["r1"], r["r2"]) for v in t.values())
    return r["mode"] == "nonrec" and sym_valued and any(
        isinstance(n, sympy.Pow) for o in objs if isinstance(o, sympy.Basic) for n in sympy.preorder_traversal(o))


@_domain
def oracle_expr_compose(r):
    x, r1, r2 = r["x"], r["r1"], r["r2"]
    rec = r["mode"] != "nonrec"
    stat = {}
    trees = [x] + _expr_trees(r1)
    try:
        want = M.ev(x, M.make_lookup(r1, r2, recursive=[rec, True], stat=stat), stat)
        # every symbol the first stage knows must itself stay in the domain (Cirq evaluates it when composing)
        for n in r1:
            M.make_lookup(r1, r2, recursive=[rec, True], stat=stat)(n)
    except M.OutOfDomain as e:
        raise Reject(f"outside the real/finite domain: {e}")
    except M.Cycle:
        raise Reject("cycle")
    expr = M.to_sympy(x)
    tol = _tol(stat, M.uses_float32(r1, r2))
    pd1 = M.build_param_dict(r1, r["keyform"])
    pd2 = M.build_param_dict(r2, "str")
    a1, res1 = _resolver_forms(pd1, r["form"])
    a2, res2 = _resolver_forms(pd2, r["form"])
    names = _free_names(expr)
    labels = {"nontrivial": (M.depth_of(x) >= 2 and len(M.names_of(x)) >= 2) and bool(r1), "mode": r["mode"],
              "depth": min(M.depth_of(x), 4), "r1_size": len(r1), "degenerate": _degenerate(trees),
              "pow_partial": _compose_pow_partial(r)}

    # parameter_names / is_parameterized of the expression itself
    if cirq.parameter_names(expr) != names:
        raise Violation(f"parameter_names(expr)={sorted(cirq.parameter_names(expr))} expected {sorted(names)}")
    if isinstance(expr, sympy.Basic) and not cirq.is_parameterized(expr):
        raise Violation("is_parameterized(sympy expression) is False")

    # unrelated resolver: equal object back
    same = cirq.resolve_parameters(expr, {ZZ: 0.5})
    if cirq.parameter_names(same) != names and not labels["degenerate"]:
        raise Violation(f"resolving an unrelated symbol changed the free symbols: {expr!r} -> {same!r}"[:300])

    # stage 1
    mid = cirq.resolve_parameters(expr, a1, recursive=rec) if r1 else expr
    mid_names = cirq.parameter_names(mid)
    gone = _compose_numeric(r)
    if r["mode"] == "partial":
        if mid_names & set(r1):
            raise Violation(f"resolved symbols {sorted(mid_names & set(r1))} are still free after resolve_parameters")
        if not mid_names <= names:
            raise Violation(f"resolution introduced symbols {sorted(mid_names - names)}")
        # no algebraic simplification is promised: the remaining names lie between the symbols the value still depends on
        # (recipe-level numeric test) and the unresolved symbols that occur syntactically (checked above)
        need = M.depends_on([x], {n: M.value_to_python(v) for n, v in r1.items()}, M.names_of(x) - set(r1))
        if not need <= mid_names:
            raise Violation(f"parameter_names after partial resolution {sorted(mid_names)} lacks {sorted(need - mid_names)}, "
                            f"on which the value still depends")
        labels["survivors"] = len(mid_names)
    elif rec and mid_names & gone:
        raise Violation(f"symbols {sorted(mid_names & gone)} that the chain resolver maps to numbers are still free")
    if cirq.is_parameterized(mid) and not mid_names and not isinstance(mid, sympy.Basic):
        raise Violation("is_parameterized true on a plain number")
    # stage 2
    fin = cirq.resolve_parameters(mid, a2)
    _cmp_num(f"resolve(resolve(x, r1, recursive={rec}), r2)", fin, want, tol)
    # composition of resolvers
    comp = cirq.resolve_parameters(res1, res2, recursive=rec) if r1 else res2
    if not isinstance(comp, cirq.ParamResolver):
        raise Violation(f"resolve_parameters(ParamResolver, ParamResolver) returned {type(comp).__name__}")
    _cmp_num(f"resolve(x, compose(r1, r2), recursive={rec})", cirq.resolve_parameters(expr, comp, recursive=rec), want, tol)
    return labels


# =========================================================================================== 2. gates and wrappers


@cirq.value_equality
class ParamTag:
    """Harness-defined tag implementing the documented SupportsParameterization protocol."""

    def __init__(self, v):
        self.v = v

    def _value_equality_values_(self):
        return self.v

    def _is_parameterized_(self):
        return cirq.is_parameterized(self.v)

    def _parameter_names_(self):
        return cirq.parameter_names(self.v)

    def _resolve_parameters_(self, resolver, recursive):
        return ParamTag(cirq.resolve_parameters(self.v, resolver, recursive))

    def __repr__(self):
        return f"ParamTag({self.v!r})"


WRAPS = ["gate", "op", "op", "tag", "ptag", "ctrl", "ctrl0", "cgate", "parallel", "inv", "cc", "cc_sympy", "cop", "cop", "cop_pr",
         "cop_pr", "cop_with_params", "cop_rep", "moment"]
COP = ("cop", "cop_pr", "cop_with_params", "cop_rep")


@st.composite
def _gate_case(draw, wraps=None, families=None, partial=False):
    case = draw(CG.sym_gate(families=families, leaves=5))
    fam = case["g"][0]
    ar = G.arity(case["g"])
    wrap = draw(st.sampled_from(wraps or WRAPS))
    if fam == "RandomGate" and wrap not in ("gate", "op", "tag", "ptag"):
        wrap = "op"
    if ar == 0 and wrap not in ("gate", "op", "tag", "ptag", "cop", "cop_pr", "cop_with_params", "cop_rep", "moment"):
        wrap = "op"
    if fam == "RandomGate":
        vals = {n: ["f", draw(G.probs(1.0))] for n in CG.SYMS}
    else:
        vals = draw(CG.resolver_tables(chains=not partial, f32=False))
    vals = CG.unit_complex_values(draw, case, vals)
    r = {"case": case, "vals": vals, "wrap": wrap, "q": list(draw(st.permutations(list(range(6)))))[: ar + 1],
         "keyform": draw(st.sampled_from(["str", "sym", "mixed"])), "form": draw(st.sampled_from(["dict", "resolver"]))}
    if wrap == "ptag":
        r["tagx"] = draw(CG.nontrivial_exprs(4))
    if wrap == "cop_pr":
        pr = {}
        for n in CG.SYMS:
            k = draw(st.integers(0, 3))
            if k == 0:
                pr[n] = ["expr", draw(CG.nontrivial_exprs(3))]
            elif k == 1:  # python/numpy numbers only: a one-step resolver hands sympy numbers over unconverted
                pr[n] = draw(CG.value_recipes(f32=False).filter(lambda v: v[0] not in ("sf", "si")))
            elif k == 2 and draw(st.booleans()):
                pr[n] = ["expr", ["s", draw(st.sampled_from(CG.SYMS))]]
        if fam in ("RandomGate", "DensePauli", "GlobalPhase"):
            pr = {}
        r["pr"] = pr
    if partial:
        r["sub"] = [n for n in CG.SYMS if draw(st.booleans())]
    return r


def _layers(r):
    """(layers, recursive flags) giving the value of a symbol used inside the gate."""
    if r["wrap"] == "cop_pr":
        return [r.get("pr", {}), r["vals"]], [False, True]
    return [r["vals"]], [True]


def _wrap(g, r, mode, lookup, qs, inv_ok=False):
    """The object to resolve (mode 'sym') or its numeric twin (mode 'num')."""
    w = r["wrap"]
    ar = cirq.num_qubits(g)
    tq, qc = qs[:ar], qs[ar]
    if w == "gate":
        return g
    op = g.on(*tq)
    if w == "op":
        return op
    if w == "tag":
        return op.with_tags("vf_tag")
    if w == "ptag":
        return op.with_tags(ParamTag(M.to_sympy(r["tagx"]) if mode == "sym" else M.ev(r["tagx"], lookup)), "vf_tag")
    if w == "ctrl":
        return op.controlled_by(qc)
    if w == "ctrl0":
        return op.controlled_by(qc, control_values=[0])
    if w == "cgate":
        return cirq.ControlledGate(g).on(qc, *tq)
    if w == "parallel":
        return cirq.ParallelGate(g, 2).on(tq[0], qc) if ar == 1 else op
    if w == "inv":  # only where the *symbolic* gate has an inverse (decided by the caller, same for both modes)
        return cirq.inverse(op) if inv_ok else op
    if w == "cc":
        return op.with_classical_controls("m")
    if w == "cc_sympy":
        # the condition's symbols are measurement keys, never parameters -- one deliberately shares a parameter's name
        return op.with_classical_controls(sympy.Eq(sympy.Symbol("a"), 1))
    if w == "moment":
        return cirq.Moment([cirq.X(qc) ** 0.5, op])  # only the last operation of the moment is parameterised
    if w in ("cop", "cop_with_params"):
        return cirq.CircuitOperation(cirq.FrozenCircuit(op))
    if w == "cop_rep":
        return cirq.CircuitOperation(cirq.FrozenCircuit(op), repetitions=sympy.Symbol("nrep") if mode == "sym" else 2)
    if w == "cop_pr":
        if mode == "num":
            return cirq.CircuitOperation(cirq.FrozenCircuit(op))
        return cirq.CircuitOperation(cirq.FrozenCircuit(op), param_resolver=M.build_param_dict(r.get("pr", {}), "sym"))
    raise KeyError(w)


def _matrix(obj, r, qs):
    w = r["wrap"]
    if w in ("cc", "cc_sympy"):
        return cirq.unitary(obj.without_classical_controls())
    if w in COP:
        return obj.mapped_circuit(deep=True).unitary(qubit_order=sorted(obj.qubits), dtype=np.complex128)
    if w == "moment":
        return cirq.Circuit(obj).unitary(qubit_order=sorted(obj.qubits), dtype=np.complex128)
    return cirq.unitary(obj)


def _gate_prepare(r):
    case = r["case"]
    layers, flags = _layers(r)
    stat = {}
    lookup = M.make_lookup(*layers, recursive=flags, stat=stat)
    trees = CG.case_trees(case) + ([r["tagx"]] if r["wrap"] == "ptag" else [])
    try:
        for t in trees:
            M.validate_const(t)
            M.ev(t, lookup, stat)
        g_num = CG.build_gate(case, "num", lookup)
    except M.OutOfDomain as e:
        raise Reject(f"outside the real/finite domain: {e}")
    except M.Cycle:
        raise Reject("cycle")
    if r["wrap"] in COP and any(isinstance(o, sympy.Basic) and not o.free_symbols for o in map(M.to_sympy, CG.case_trees(case))):
        # documented caveat of the protocol: sympy constants count as "parameterized" but have no names to resolve
        raise Reject("sympy constant without symbols inside a CircuitOperation")
    if r["wrap"] in COP and (_degenerate(CG.case_trees(case)) or _zero_pow_after_pr(r)):
        # x**0.0 is folded to a sympy 1 as soon as the expression is rebuilt -> same caveat (constant inside a sub-circuit)
        raise Reject("power with exponent zero inside a CircuitOperation")
    g_sym = CG.build_gate(case, "sym")
    qs = [cirq.LineQubit(i) for i in r["q"]]
    return case, g_sym, g_num, qs, lookup, stat, trees


def _inv_ok(g_sym, r, qs):
    if r["wrap"] != "inv":
        return False
    ar = cirq.num_qubits(g_sym)
    try:
        return cirq.inverse(g_sym.on(*qs[:ar]), None) is not None
    except Exception:
        return False


def _gate_resolver(r):
    pd = M.build_param_dict(r["vals"], r["keyform"])
    if r["wrap"] == "cop_rep":
        pd["nrep"] = 2
    return _resolver_forms(pd, r["form"])


def _gate_labels(r, trees):
    case = r["case"]
    d = max([M.depth_of(t) for t in trees] or [0])
    names = set().union(*[M.names_of(t) for t in trees]) if trees else set()
    chain = max([0] + [_chain_len(r["vals"], n) for n in names])
    return {"nontrivial": bool(trees) and ((d >= 2 and len(names) >= 2) or chain >= 2), "family": case["g"][0], "wrap": r["wrap"],
            "n_slots": min(len(trees), 4), "chain": min(chain, 3)}


def _check_kraus(what, a, b, tol):
    ka, kb = cirq.kraus(a), cirq.kraus(b)
    if len(ka) != len(kb):
        raise Violation(f"{len(ka)} Kraus operators, numeric gate has {len(kb)}\n  case: {what}")
    for x, y in zip(ka, kb):
        d = L.max_abs_diff(x, y)
        if not d <= tol:
            raise Violation(f"Kraus operators differ from those of the numeric gate by {d:.3g}\n  case: {what}")


@_domain
def oracle_gate_unitary(r):
    case, g_sym, g_num, qs, lookup, stat, trees = _gate_prepare(r)
    fam = case["g"][0]
    arg, res = _gate_resolver(r)
    inv = _inv_ok(g_sym, r, qs)
    obj = _wrap(g_sym, r, "sym", lookup, qs, inv)
    ref = _wrap(g_num, r, "num", lookup, qs, inv)
    what = f"{fam} via {r['wrap']}"
    if r["wrap"] == "cop_with_params":
        resolved = obj.with_params(arg, recursive=True)
    else:
        resolved = cirq.resolve_parameters(obj, arg)
    labels = _gate_labels(r, trees)
    if not trees and r["wrap"] not in ("cop_rep",):
        if not (resolved == obj):
            raise Violation(f"resolving an unparameterised object changed it\n  case: {what}")
        return labels
    if cirq.is_parameterized(resolved):
        raise Violation(f"still parameterized after resolving every symbol ({sorted(cirq.parameter_names(resolved))})\n  case: {what}")
    if cirq.parameter_names(resolved):
        raise Violation(f"parameter_names non-empty after resolving every symbol\n  case: {what}")
    tol = 1e-7 * (1 + stat.get("max", 0.0))
    if fam == "RandomGate":
        _check_kraus(what, resolved, ref, tol)
        return labels
    if fam == "Wait" and r["wrap"] in ("gate", "op", "tag"):
        gg = resolved if r["wrap"] == "gate" else resolved.gate
        ng = ref if r["wrap"] == "gate" else ref.gate
        a, b = gg.duration.total_picos(), ng.duration.total_picos()
        if not abs(a - b) <= 1e-6 * (1 + abs(b)):
            raise Violation(f"resolved duration {a} ps, expected {b} ps\n  case: {what}")
    got, want = _matrix(resolved, r, qs), _matrix(ref, r, qs)
    if got.shape != want.shape:
        raise Violation(f"unitary shape {got.shape}, numeric gate {want.shape}\n  case: {what}")
    d = L.max_abs_diff(got, want)
    if not d <= tol:
        raise Violation(f"unitary(resolve(g(symbolic), r)) differs from unitary(g(numeric)) by {d:.3g} (tol {tol:.1g})\n  case: {what}")
    if r["wrap"] == "ptag":
        tags = [t for t in resolved.tags if isinstance(t, ParamTag)]
        if len(tags) != 1:
            raise Violation(f"parameterised tag lost\n  case: {what}")
        _cmp_num(f"{what}: resolved tag value", tags[0].v, M.ev(r["tagx"], lookup), _tol(stat))
        if "vf_tag" not in resolved.tags:
            raise Violation(f"plain tag lost\n  case: {what}")
    if r["wrap"] in ("cc", "cc_sympy"):
        if resolved.classical_controls != obj.classical_controls:
            raise Violation(f"classical controls changed by parameter resolution: {resolved.classical_controls}\n  case: {what}")
    return labels


@_domain
def oracle_cop_protocol(r):
    """cirq.unitary / has_unitary / Circuit.unitary straight on the resolved CircuitOperation."""
    case, g_sym, g_num, qs, lookup, stat, trees = _gate_prepare(r)
    arg, res = _gate_resolver(r)
    obj = _wrap(g_sym, r, "sym", lookup, qs)
    ref = _wrap(g_num, r, "num", lookup, qs)
    resolved = obj.with_params(arg, recursive=True) if r["wrap"] == "cop_with_params" else cirq.resolve_parameters(obj, arg)
    what = f"{case['g'][0]} via {r['wrap']}"
    want = ref.mapped_circuit(deep=True).unitary(qubit_order=sorted(ref.qubits), dtype=np.complex128)
    if not cirq.has_unitary(resolved):
        raise Violation(f"has_unitary false for a fully resolved CircuitOperation of unitary gates\n  case: {what}")
    tol = 1e-7 * (1 + stat.get("max", 0.0))
    got = cirq.unitary(resolved)
    d = L.max_abs_diff(got, want)
    if not d <= tol:
        raise Violation(f"cirq.unitary(resolved CircuitOperation) differs from the numeric gate by {d:.3g}\n  case: {what}")
    got2 = cirq.Circuit(resolved).unitary(qubit_order=sorted(ref.qubits), dtype=np.complex128)
    d = L.max_abs_diff(got2, want)
    if not d <= tol:
        raise Violation(f"Circuit(resolved CircuitOperation).unitary() differs from the numeric gate by {d:.3g}\n  case: {what}")
    lab = _gate_labels(r, trees)
    lab["arity"] = cirq.num_qubits(g_num)
    return lab


def _expected_names(r):
    """Free symbols the wrapped object must report (from the constructed sympy objects)."""
    case = r["case"]
    inner = set()
    for t in CG.case_trees(case):
        inner |= _free_names(M.to_sympy(t))
    if r["wrap"] == "cop_pr":  # one simultaneous substitution step (algebra may cancel symbols: c*b - b with c -> 1)
        submap = {}
        for n, v in r.get("pr", {}).items():
            submap[sympy.Symbol(n)] = sympy.Symbol(v[1]) if v[0] == "str" else (
                M.to_sympy(v[1]) if v[0] == "expr" else M.value_to_python(v))
        inner = set()
        for t in CG.case_trees(case):
            o = M.to_sympy(t)
            inner |= _free_names(o.subs(submap, simultaneous=True)) if isinstance(o, sympy.Basic) else set()
    if r["wrap"] == "ptag":
        inner |= _free_names(M.to_sympy(r["tagx"]))
    if r["wrap"] == "cop_rep":
        inner |= {"nrep"}
    return inner


def _zero_pow_after_pr(r):
    """cop_pr: the one-step substitution produces a power with exponent zero (sympy folds it only on some rebuild paths)."""
    if r["wrap"] != "cop_pr":
        return False
    submap = {}
    for n, v in r.get("pr", {}).items():
        submap[sympy.Symbol(n)] = sympy.Symbol(v[1]) if v[0] == "str" else (M.to_sympy(v[1]) if v[0] == "expr" else M.value_to_python(v))
    for t in CG.case_trees(r["case"]):
        o = M.to_sympy(t)
        if isinstance(o, sympy.Basic):
            o2 = o.subs(submap, simultaneous=True)
            if isinstance(o2, sympy.Basic) and any(isinstance(n, sympy.Pow) and n.args[1].is_zero for n in sympy.preorder_traversal(o2)):
                return True
    return False


def _zero_base_power(trees, r1) -> bool:
    """The numeric first stage turns the base of a power into exactly 0 while its exponent keeps a symbol: 0**b is 1, 0 or
    undefined depending on b, not an expression of the property's (real, finite) domain."""
    submap = {sympy.Symbol(n): M.value_to_python(v) for n, v in r1.items()}
    if not any(v == 0 for v in submap.values()):
        return False
    for t in trees:
        o = M.to_sympy(t)
        if not isinstance(o, sympy.Basic):
            continue
        for n in sympy.preorder_traversal(o):
            if isinstance(n, sympy.Pow):
                bb, ee = n.args
                try:
                    b2, e2 = bb.subs(submap), ee.subs(submap)
                except Exception:
                    return True
                if getattr(b2, "is_zero", False) and getattr(e2, "free_symbols", None):
                    return True
    return False


def _sym_constants(r):
    """A slot holds a sympy object without free symbols (documented: may report is_parameterized although names are empty)."""
    ts = CG.case_trees(r["case"]) + ([r["tagx"]] if r["wrap"] == "ptag" else [])
    objs = [M.to_sympy(t) for t in ts]
    if r["wrap"] == "cop_pr":
        objs += [M.to_sympy(v[1]) for v in r.get("pr", {}).values() if v[0] == "expr"]
    return any(isinstance(o, sympy.Basic) for o in objs)


def _gate_pow_partial(r):
    """FC10a inside gate slots: partial resolution (sub-check gate_names) or the one-step param_resolver of cop_pr."""
    objs = [M.to_sympy(t) for t in CG.case_trees(r["case"])]
    if r["wrap"] == "ptag":
        objs.append(M.to_sympy(r["tagx"]))
    hit = False
    if r["wrap"] == "cop_pr":
        pr = r.get("pr", {})
        numeric = {n for n, v in pr.items() if M.value_to_python(v) is not None}
        submap = {}
        for n, v in pr.items():
            submap[sympy.Symbol(n)] = M.value_to_python(v) if n in numeric else (sympy.Symbol(v[1]) if v[0] == "str" else M.to_sympy(v[1]))
        const = any(v[0] in ("sf", "si") or (v[0] == "expr" and isinstance(M.to_sympy(v[1]), sympy.Basic)
                                               and not M.to_sympy(v[1]).free_symbols) for v in pr.values())
        hit = _pow_partial(objs, numeric, submap, 1) or const and any(
            isinstance(n, sympy.Pow) for o in objs if isinstance(o, sympy.Basic) for n in sympy.preorder_traversal(o))
        objs = [o.subs(submap, simultaneous=True) if isinstance(o, sympy.Basic) else o for o in objs]
    if "sub" in r:
        numeric = set(r["sub"])
        submap = {sympy.Symbol(n): M.value_to_python(r["vals"][n]) for n in numeric}
        hit = hit or _pow_partial(objs, numeric, submap, 1) or _pow_partial(objs, set())
    return hit


@_domain
def oracle_gate_names(r):
    case, g_sym, g_num, qs, lookup, stat, trees = _gate_prepare(r)
    fam = case["g"][0]
    inv = _inv_ok(g_sym, r, qs)
    obj = _wrap(g_sym, r, "sym", lookup, qs, inv)
    what = f"{fam} via {r['wrap']}"
    exp = _expected_names(r)
    got = set(cirq.parameter_names(obj))
    degenerate = _degenerate(trees) or _zero_pow_after_pr(r)
    if degenerate:  # sympy may or may not fold x**0.0 when an expression is rebuilt: take the names as reported
        exp = got
    if got != exp:
        raise Violation(f"parameter_names {sorted(got)} but the symbolic slots hold {sorted(exp)}\n  case: {what}")
    ip = cirq.is_parameterized(obj)
    if exp and not ip:
        raise Violation(f"is_parameterized false although parameter_names={sorted(exp)}\n  case: {what}")
    if ip and not exp and not _sym_constants(r):
        raise Violation(f"is_parameterized true although no slot holds a sympy object\n  case: {what}")
    labels = _gate_labels(r, trees)
    labels["n_names"] = len(exp)
    labels["pow_partial"] = _gate_pow_partial(r)
    # unrelated resolver: equal object back, names unchanged
    same = cirq.resolve_parameters(obj, {ZZ: 0.5})
    if set(cirq.parameter_names(same)) != exp and not degenerate:
        raise Violation(f"resolving an unrelated symbol changed parameter_names to {sorted(cirq.parameter_names(same))}\n  case: {what}")
    # partial numeric resolution
    sub = [n for n in r.get("sub", []) if M.value_to_python(r["vals"][n]) is not None]
    r1 = {n: r["vals"][n] for n in sub}
    if r["wrap"] == "cop_rep":
        return labels
    labels["zero_base_power_left_symbolic"] = _zero_base_power(trees, r1)  # trigger of repaired defect FC10i (0435525)
    mid = cirq.resolve_parameters(obj, M.build_param_dict(r1, r["keyform"])) if r1 else obj
    mid_names = set(cirq.parameter_names(mid))
    if mid_names & set(r1):
        raise Violation(f"resolved symbols {sorted(mid_names & set(r1))} still in parameter_names\n  case: {what}")
    if not mid_names <= exp:
        raise Violation(f"partial resolution introduced symbols {sorted(mid_names - exp)}\n  case: {what}")
    if r["wrap"] != "cop_pr":
        # lower bound: symbols the slot values really depend on (numeric test on the recipe); upper bound checked above
        need = M.depends_on(trees, {n: M.value_to_python(v) for n, v in r1.items()}, set().union(*[M.names_of(t) for t in trees] or [set()]) - set(r1))
        if not need <= mid_names:
            raise Violation(f"parameter_names after resolving {sorted(r1)} is {sorted(mid_names)}: lacks {sorted(need - mid_names)}, "
                            f"on which a slot value still depends\n  case: {what}")
    labels["partial"] = bool(r1) and bool(mid_names)
    if mid_names and not cirq.is_parameterized(mid):
        raise Violation(f"is_parameterized false but parameter_names={sorted(mid_names)} after partial resolution\n  case: {what}")
    # second stage gives the numeric twin
    fin = cirq.resolve_parameters(mid, M.build_param_dict(r["vals"], "str"))
    if cirq.is_parameterized(fin) or cirq.parameter_names(fin):
        raise Violation(f"two-stage resolution leaves parameters {sorted(cirq.parameter_names(fin))}\n  case: {what}")
    if fam != "RandomGate":
        ref = _wrap(g_num, r, "num", lookup, qs, inv)
        d = L.max_abs_diff(_matrix(fin, r, qs), _matrix(ref, r, qs))
        if not d <= 1e-7 * (1 + stat.get("max", 0.0)):
            raise Violation(f"resolve(resolve(g, r1), r2) differs from the numeric gate by {d:.3g}\n  case: {what}")
    return labels


# =========================================================================================== 3. sweeps


def _opt_int(lo, hi):
    return st.one_of(st.none(), st.integers(lo, hi))


@st.composite
def _sweep_case(draw, bad_rate=12):
    bad = bad_rate and draw(st.integers(0, bad_rate - 1)) == 0
    t = draw(CG.bad_sweep_trees()) if bad else draw(CG.sweep_trees())
    return {"t": t, "keyform": draw(st.sampled_from(["str", "str", "sym"])),
            "idx": draw(st.lists(st.integers(-9, 9), max_size=4)),
            "slices": draw(st.lists(st.tuples(_opt_int(-9, 9), _opt_int(-9, 9), st.sampled_from([None, 1, 2, -1, -2, 3])).map(list), max_size=3)),
            "perturb": draw(st.integers(0, 5))}


def _same_val(a, b):
    try:
        return abs(complex(a) - complex(b)) <= 1e-12 * (1 + abs(complex(b)))
    except TypeError:
        return a == b


def _same_assignment(got_pairs, want_pairs):
    got_pairs, want_pairs = list(got_pairs), list(want_pairs)
    return len(got_pairs) == len(want_pairs) and all(str(gk) == wk and _same_val(gv, wv) for (gk, gv), (wk, wv) in zip(got_pairs, want_pairs))


def _check_points(what, resolvers, want):
    resolvers = list(resolvers)
    if len(resolvers) != len(want):
        raise Violation(f"{len(resolvers)} assignments, the definition describes {len(want)}\n  case: {what}")
    for i, (res, w) in enumerate(zip(resolvers, want)):
        if not isinstance(res, cirq.ParamResolver):
            raise Violation(f"element {i} is a {type(res).__name__}, not a ParamResolver\n  case: {what}")
        if not _same_assignment(res.param_dict.items(), w):
            raise Violation(f"assignment {i} is {dict(res.param_dict)!r}, the definition describes {dict((k, v) for k, v in w)!r}\n  case: {what}")


def _perturb(t, j):
    """A structurally different sweep (another value / another length) or None."""
    t = json.loads(json.dumps(t))
    state = {"j": j, "done": False}

    def walk(n):
        if state["done"]:
            return
        k = n[0]
        if k == "points" and n[2]:
            if state["j"] == 0:
                n[2][-1] = n[2][-1] + 1
                state["done"] = True
            state["j"] -= 1
        elif k == "linspace":
            if state["j"] == 0:
                n[4] = n[4] + 1
                state["done"] = True
            state["j"] -= 1
        elif k == "list" and n[1] and n[1][0]:
            if state["j"] == 0:
                kk = next(iter(n[1][0]))
                n[1][0][kk] = n[1][0][kk] + 1
                state["done"] = True
            state["j"] -= 1
        elif k in ("zip", "ziplongest", "product", "concat", "mul", "add"):
            for c in n[1]:
                walk(c)

    walk(t)
    return t if state["done"] else None


def _sweep_labels(t, want):
    return {"nontrivial": M.sweep_depth(t) >= 2 and len(want) >= 2, "depth": M.sweep_depth(t), "n_points": min(len(want), 9),
            "empty": len(want) == 0, "single": len(want) == 1, "root": t[0], "has_ziplongest": M.sweep_has(t, {"ziplongest"}),
            "has_concat": M.sweep_has(t, {"concat"}), "has_ops": M.sweep_has(t, {"mul", "add"}), "n_keys": len(M.sweep_keys(t)),
            "ziplongest_operand_of_plus": _zl_under_add(t)}


_NODES = ("zip", "ziplongest", "product", "concat", "mul", "add")


def _zl_under_add(t):
    """(label; trigger of repaired defect FC10e) `ZipLongest + sweep` used to unpack the ZipLongest as if it were a Zip."""
    if t[0] == "add" and any(c[0] == "ziplongest" for c in t[1]):
        return True
    return t[0] in _NODES and any(_zl_under_add(c) for c in t[1])


def _empty_zip_operand(t):
    """`Zip() + x`: whether the empty Zip is an empty sweep or a neutral element is not specified anywhere."""
    if t[0] == "add" and any(c[0] in ("zip", "add", "ziplongest") and not c[1] for c in t[1]):
        return True
    return t[0] in _NODES and any(_empty_zip_operand(c) for c in t[1])


@_domain
def oracle_sweeps(r):
    t = r["t"]
    if _empty_zip_operand(t):
        raise Reject("empty Zip as operand of +")
    try:
        want = M.sweep_points(t)
    except M.SweepError as e:
        try:
            sw = M.build_sweep(t, r["keyform"])
        except ValueError:
            return {"nontrivial": False, "contract_reject": True, "root": t[0]}
        raise Violation(f"definition the contract rejects ({e}) was accepted: {sw!r}"[:300])
    sw = M.build_sweep(t, r["keyform"])
    keys = M.sweep_keys(t)
    n = len(want)
    labels = _sweep_labels(t, want)
    if len(sw) != n:
        raise Violation(f"len(sweep)={len(sw)} but the definition describes {n} assignments")
    _check_points("list(sweep)", list(sw), want)
    _check_points("second iteration of the sweep", iter(sw), want)
    if [str(k) for k in sw.keys] != keys:
        raise Violation(f"sweep.keys={sw.keys!r}, definition has {keys!r}")
    pts = list(sw.param_tuples())
    if len(pts) != n or not all(_same_assignment(p, w) for p, w in zip(pts, want)):
        raise Violation(f"param_tuples() {pts!r} differs from the definition {want!r}"[:400])
    # indexing
    for i in r["idx"]:
        if -n <= i < n:
            got = sw[i]
            if not isinstance(got, cirq.ParamResolver) or not _same_assignment(got.param_dict.items(), want[i]):
                raise Violation(f"sweep[{i}] is {got!r}, list position {i} of the definition is {want[i]!r}")
        else:
            try:
                got = sw[i]
            except IndexError:
                continue
            raise Violation(f"sweep[{i}] on a sweep of length {n} returned {got!r} instead of raising IndexError")
    for a, b, c in r["slices"]:
        sl = sw[a:b:c]
        if not isinstance(sl, cirq.Sweep):
            raise Violation(f"sweep[{a}:{b}:{c}] is a {type(sl).__name__}, not a Sweep")
        _check_points(f"sweep[{a}:{b}:{c}]", list(sl), want[a:b:c])
        if len(sl) != len(want[a:b:c]):
            raise Violation(f"len(sweep[{a}:{b}:{c}])={len(sl)} expected {len(want[a:b:c])}")
    # sweepable conversions
    _check_points("to_resolvers(sweep)", cirq.to_resolvers(sw), want)
    extra = {ZZ: 1.5}
    _check_points("to_resolvers([sweep, None, dict, [sweep]])", cirq.to_resolvers([sw, None, extra, [sw]]),
                  want + [[]] + [[[ZZ, 1.5]]] + want)
    _check_points("to_resolvers(dict with a sequence value)", cirq.to_resolvers({ZZ: [1.0, 2.0], "yy": 3}),
                  [[[ZZ, 1.0], ["yy", 3]], [[ZZ, 2.0], ["yy", 3]]])
    tsw = cirq.to_sweeps(sw)
    if not (isinstance(tsw, list) and len(tsw) == 1 and tsw[0] == sw):
        raise Violation(f"to_sweeps(sweep) is {tsw!r}")
    if want:
        one = cirq.to_sweeps(cirq.ParamResolver(dict((k, v) for k, v in want[0])))
        _check_points("to_sweeps(ParamResolver)", [p for s_ in one for p in s_], [want[0]])
        one = cirq.to_sweep(sw)
        if one is not sw and one != sw:
            raise Violation("to_sweep(sweep) is not the sweep")
    _check_points("to_sweep(list of resolvers)", cirq.to_sweep([cirq.ParamResolver(dict((k, v) for k, v in w)) for w in want]), want)
    # equality / hash of structurally equal sweeps
    sw2 = M.build_sweep(json.loads(json.dumps(t)), r["keyform"])
    if not (sw == sw2) or (sw != sw2):
        raise Violation(f"two sweeps built from the same definition compare unequal: {sw!r}"[:300])
    try:
        h1 = hash(sw)
    except TypeError:
        h1 = None
    if h1 is not None and h1 != hash(sw2):
        raise Violation(f"equal sweeps hash differently: {sw!r}"[:300])
    labels["hashable"] = h1 is not None
    pt = _perturb(t, r["perturb"])
    if pt is not None:
        try:
            other_pts = M.sweep_points(pt)
            other = M.build_sweep(pt, r["keyform"])
        except (M.SweepError, ValueError):
            other = None
        if other is not None and other_pts != want and (sw == other or not (sw != other)):
            raise Violation(f"sweeps describing different assignment lists compare equal: {sw!r} == {other!r}"[:400])
        labels["perturbed"] = other is not None
    # JSON
    back = cirq.read_json(json_text=cirq.to_json(sw))
    if not (back == sw):
        raise Violation(f"JSON round trip changed the sweep: {sw!r} -> {back!r}"[:400])
    _check_points("list(read_json(to_json(sweep)))", list(back), want)
    return labels


@_domain
def oracle_sweep_repr(r):
    t = r["t"]
    if _empty_zip_operand(t):
        raise Reject("empty Zip as operand of +")
    try:
        want = M.sweep_points(t)
    except M.SweepError:
        raise Reject("contract-rejected definition")
    sw = M.build_sweep(t, r["keyform"])
    text = repr(sw)
    try:
        back = eval(text, {"cirq": cirq, "sympy": sympy, "np": np})
    except Exception as e:  # noqa
        raise Violation(f"repr(sweep) does not evaluate: {type(e).__name__}: {e}\nrepr={text[:300]}")
    if not (back == sw):
        raise Violation(f"eval(repr(sweep)) != sweep\nrepr={text[:300]}")
    _check_points("list(eval(repr(sweep)))", list(back), want)
    text2 = str(sw)
    if not isinstance(text2, str):
        raise Violation("str(sweep) is not a string")
    return _sweep_labels(t, want)


# =========================================================================================== 4. simulation of sweeps


def _vector_script(n, probs, cnt):
    """Deterministic stratified sample: outcome of repetition k = inverse CDF at (k + 0.37) / cnt."""
    cdf = np.cumsum(np.asarray(probs, dtype=float))
    u = (np.arange(cnt) + 0.37) / cnt
    return np.minimum(np.searchsorted(cdf, u, side="right"), n - 1)


def _prng():
    return ScriptedPRNG(vector_script=_vector_script)


@st.composite
def _sim_case(draw):
    c = draw(CG.sym_circuits(max_w=3, max_ops=6, p_sym=0.55, leaves=3, measure=True, min_ops=1))
    keys = list(draw(st.permutations(CG.SYMS)))
    n_min = draw(st.sampled_from([0, 1, 2, 2]))
    return {"c": c, "sweep": draw(CG.sweep_trees(keys, depth=2, n_min=n_min)), "sim": draw(st.sampled_from(["sv", "sv", "dm"])),
            "reps": draw(st.sampled_from([1, 2, 3, 5])), "terminal": draw(st.booleans()), "split": draw(st.booleans())}


def _reject_const_in_cop(rc):
    """Documented caveat: a sympy constant (pi/pi, c - c) counts as parameterized but has no name a CircuitOperation could resolve."""
    for o in rc["ops"]:
        if "m" not in o and o.get("cop"):
            for t in CG.case_trees(o):
                obj = M.to_sympy(t)
                if isinstance(obj, sympy.Basic) and not obj.free_symbols:
                    raise Reject("sympy constant without symbols inside a CircuitOperation")
            if _degenerate(CG.case_trees(o)):
                raise Reject("power with exponent zero inside a CircuitOperation")


def _points_to_tables(points):
    return [{k: ["f", float(v)] if isinstance(v, float) else ["int", int(v)] for k, v in p} for p in points]


def _sim_setup(r, max_points=10):
    if _empty_zip_operand(r["sweep"]):
        raise Reject("empty Zip as operand of +")
    try:
        points = M.sweep_points(r["sweep"])
    except M.SweepError:
        raise Reject("contract-rejected sweep definition")
    _reject_const_in_cop(r["c"])
    sweep = M.build_sweep(r["sweep"], "str")
    if len(points) > max_points:
        points, sweep = points[:max_points], sweep[:max_points]
    # domain first, decided by the recipe-level evaluator: literal sub-trees, every drawn assignment, and -- when the sweep has
    # no point -- a probe assignment ((a - a)**-2 is undefined whatever the assignment); only then is anything built for Cirq
    for t in CG.circuit_trees(r["c"]):
        M.validate(t, None if not points else M.make_lookup(_points_to_tables(points)[0]))
    nums = []
    for tab in _points_to_tables(points):
        try:
            nums.append(CG.build_sym_circuit(r["c"], "num", M.make_lookup(tab))[0])
        except M.Cycle:
            raise Reject("cycle")
    c_sym, qs = CG.build_sym_circuit(r["c"], "sym")
    return points, sweep, c_sym, nums, qs


def _cmp_arr(what, got, want, tol):
    got, want = np.asarray(got), np.asarray(want)
    if got.shape != want.shape:
        raise Violation(f"shape {got.shape} != {want.shape}\n  case: {what}")
    d = L.max_abs_diff(got, want)
    if not d <= tol:
        raise Violation(f"differs from the per-assignment simulation of the numeric circuit by {d:.3g} (tol {tol:.1g})\n  case: {what}")


def _circuit_labels(r, n_points=None):
    trees = CG.circuit_trees(r["c"] if "c" in r else r)
    rc = r["c"] if "c" in r else r
    nsym = sum(1 for o in rc["ops"] if "m" not in o and o.get("slots"))
    rich = sum(1 for t in trees if M.depth_of(t) >= 2 and len(M.names_of(t)) >= 2)
    lab = {"nontrivial": nsym >= 2 and rich >= 1, "n_sym_ops": min(nsym, 4), "has_cop": any(o.get("cop") and o.get("slots") for o in rc["ops"]),
           "has_measure": any("m" in o for o in rc["ops"])}
    if n_points is not None:
        lab["nontrivial"] = lab["nontrivial"] and n_points >= 2
        lab["n_points"] = min(n_points, 9)
    return lab


@_domain
def oracle_sim_sweep(r):
    points, sweep, c_sym, nums, qs = _sim_setup(r)
    fin = cirq.measure(*qs, key="fin")
    if r["terminal"]:
        c_sym = c_sym + cirq.Circuit(fin)
        nums = [c + cirq.Circuit(fin) for c in nums]
    depth = len(list(c_sym.all_operations()))
    tol = 1e-6 * (1 + depth)
    Sim = cirq.DensityMatrixSimulator if r["sim"] == "dm" else cirq.Simulator

    def mk():
        return Sim(dtype=np.complex128, seed=_prng(), split_untangled_states=r["split"])

    labels = _circuit_labels(r, len(points))
    pref = 0
    for m in c_sym:
        if cirq.is_parameterized(m) or cirq.is_measurement(m):
            break
        pref += 1
    labels["prefix"] = min(pref, 3)
    # simulate_sweep
    res = mk().simulate_sweep(c_sym, sweep, qubit_order=qs)
    if len(res) != len(points):
        raise Violation(f"simulate_sweep returned {len(res)} results for {len(points)} assignments")
    for i, (one, cn, pt) in enumerate(zip(res, nums, points)):
        ref = mk().simulate(cn, qubit_order=qs)
        if r["sim"] == "dm":
            _cmp_arr(f"simulate_sweep[{i}] final_density_matrix", one.final_density_matrix, ref.final_density_matrix, tol)
        else:
            _cmp_arr(f"simulate_sweep[{i}] final_state_vector", one.final_state_vector, ref.final_state_vector, tol)
        if set(one.measurements) != set(ref.measurements) or any(
                not np.array_equal(one.measurements[k], ref.measurements[k]) for k in ref.measurements):
            raise Violation(f"simulate_sweep[{i}] measurements {one.measurements} differ from the per-assignment simulation {ref.measurements}")
        if not _same_assignment(one.params.param_dict.items(), pt):
            raise Violation(f"simulate_sweep[{i}].params is {one.params!r}, assignment {i} is {pt!r}")
    # run_sweep / sample need a measurement
    if not c_sym.has_measurements():
        return labels
    reps = r["reps"]
    runs = mk().run_sweep(c_sym, sweep, repetitions=reps)
    if len(runs) != len(points):
        raise Violation(f"run_sweep returned {len(runs)} results for {len(points)} assignments")
    refs = [mk().run(cn, repetitions=reps) for cn in nums]
    for i, (one, ref, pt) in enumerate(zip(runs, refs, points)):
        if set(one.records) != set(ref.records) or any(not np.array_equal(one.records[k], ref.records[k]) for k in ref.records):
            raise Violation(f"run_sweep[{i}] records differ from run() of the numeric circuit for assignment {pt!r}")
        if not _same_assignment(one.params.param_dict.items(), pt):
            raise Violation(f"run_sweep[{i}].params is {one.params!r}, assignment {i} is {pt!r}")
    labels["ran"] = True
    if points:
        df = mk().sample(c_sym, repetitions=reps, params=sweep)
        keys = sorted(M.sweep_keys(r["sweep"]))
        if len(df) != reps * len(points):
            raise Violation(f"sample() has {len(df)} rows for {len(points)} assignments x {reps} repetitions")
        row = 0
        for i, (ref, pt) in enumerate(zip(refs, points)):
            d = dict((k, v) for k, v in pt)
            for j in range(reps):
                rec = df.iloc[row]
                row += 1
                for k in keys:
                    if not _same_val(rec[k], d[k]):
                        raise Violation(f"sample() row {row - 1}: column {k!r} is {rec[k]!r}, assignment {i} has {d[k]!r}")
                for mk_, arr in ref.records.items():
                    want = int("".join(str(int(b)) for b in arr[j, 0, :]), 2)
                    if int(rec[mk_]) != want:
                        raise Violation(f"sample() row {row - 1}: measurement {mk_!r} is {rec[mk_]!r}, run() of assignment {i} gives {want}")
                if int(df.index[row - 1]) != j:
                    raise Violation(f"sample() row {row - 1}: index {df.index[row - 1]} is not the repetition number {j}")
        labels["sampled"] = True
    return labels


# =========================================================================================== 5. flatten


@st.composite
def _flatten_case(draw):
    c = draw(CG.sym_circuits(max_w=3, max_ops=5, p_sym=0.75, leaves=4, min_ops=1, p_cop=0.04))
    keys = list(draw(st.permutations(CG.SYMS)))
    r = {"c": c, "sweep": draw(CG.sweep_trees(keys, depth=2, n_min=1)), "collide": None}
    if draw(st.integers(0, 3)) == 0:
        r["collide"] = {"op": draw(st.integers(0, 5)), "val": draw(G.exponents()), "first": draw(st.booleans())}
    return r


def _unitary_of(c, qs):
    # sub-circuits are unrolled first: cirq.unitary(CircuitOperation) itself is sub-check cop_protocol's business (FC10c)
    c = cirq.unroll_circuit_op(c, deep=True, tags_to_check=None)
    return c.unitary(qubit_order=qs, qubits_that_should_be_present=qs, dtype=np.complex128)


def _has_cop_sym(r):
    rc = r["c"] if "c" in r else r
    return any(o.get("cop") and o.get("slots") for o in rc["ops"])


@_domain
def oracle_flatten(r):
    if any(isinstance(M.to_sympy(t), sympy.Number) for t in CG.circuit_trees(r["c"])):
        # b - b collapses to sympy.Integer(0) at construction: flatten documents "if the parameter is a number, don't change it",
        # and a resolver without entries leaves it alone, so the gate keeps a sympy constant (documented caveat, not a symbol)
        raise Reject("slot is a bare sympy number")
    points, sweep, c_sym, nums, qs = _sim_setup(r, max_points=6)
    tables = _points_to_tables(points)
    labels = _circuit_labels(r, len(points))
    coll = None
    if r.get("collide"):
        trees = [t for t in CG.circuit_trees(r["c"]) if isinstance(M.to_sympy(t), sympy.Basic) and not isinstance(M.to_sympy(t), sympy.Symbol)]
        if trees:
            t = trees[r["collide"]["op"] % len(trees)]
            # a symbol that already carries the name flatten() would invent for the expression (documented: "_1" is appended)
            coll = sympy.Symbol(f"<{M.to_sympy(t)!s}>")
            val = r["collide"]["val"]
            extra_s, extra_n = cirq.Y(qs[0]) ** coll, cirq.Y(qs[0]) ** val
            if r["collide"]["first"]:
                c_sym = cirq.Circuit(extra_s) + c_sym
                nums = [cirq.Circuit(extra_n) + c for c in nums]
            else:
                c_sym = c_sym + cirq.Circuit(extra_s)
                nums = [c + cirq.Circuit(extra_n) for c in nums]
    labels["collision"] = coll is not None
    flat, emap = cirq.flatten(c_sym)
    if not isinstance(emap, cirq.ExpressionMap):
        raise Violation(f"flatten returned a {type(emap).__name__} as expression map")
    news = list(emap.values())
    if len(set(news)) != len(news):
        raise Violation(f"flatten maps two different expressions to the same new symbol: {emap!r}"[:400])
    if not all(isinstance(v, sympy.Symbol) for v in news):
        raise Violation(f"flatten maps an expression to a non-symbol: {emap!r}"[:300])
    depth = len(list(c_sym.all_operations()))
    tol = 1e-7 * (1 + depth)
    wants = [_unitary_of(cn, qs) for cn in nums]
    for i, (tab, pt) in enumerate(zip(tables, points)):
        pd = M.build_param_dict(tab, "str")
        if coll is not None:
            pd[coll.name] = r["collide"]["val"]
        tp = emap.transform_params(pd)
        rf = cirq.resolve_parameters(flat, tp)
        if cirq.is_parameterized(rf):
            raise Violation(f"flattened circuit still has parameters {sorted(cirq.parameter_names(rf))} after resolving with "
                            f"expr_map.transform_params(assignment)")
        _cmp_arr(f"unitary(resolve(flatten(c), transform_params(r{i})))", _unitary_of(rf, qs), wants[i], tol)
        _cmp_arr(f"unitary(resolve(c, r{i}))", _unitary_of(cirq.resolve_parameters(c_sym, pd), qs), wants[i], tol)
        f3, p3 = cirq.flatten_with_params(c_sym, pd)
        _cmp_arr(f"flatten_with_params assignment {i}", _unitary_of(cirq.resolve_parameters(f3, p3), qs), wants[i], tol)
        for v in tp.values():
            _as_number(v, "transform_params value")
    if coll is None:
        f2, s2 = cirq.flatten_with_sweep(c_sym, sweep)
        if len(s2) != len(points):
            raise Violation(f"flatten_with_sweep: new sweep has {len(s2)} points, the original {len(points)}")
        for i, res in enumerate(s2):
            _cmp_arr(f"flatten_with_sweep point {i}", _unitary_of(cirq.resolve_parameters(f2, res), qs), wants[i], tol)
        s3 = emap.transform_sweep(list(sweep))
        for i, res in enumerate(s3):
            _cmp_arr(f"transform_sweep(list of resolvers) point {i}", _unitary_of(cirq.resolve_parameters(flat, res), qs), wants[i], tol)
    return labels


# =========================================================================================== 2b/6. circuits, moments, transformers, JSON


@st.composite
def _circuit_case(draw, with_f=False):
    c = draw(CG.sym_circuits(max_w=3, max_ops=6, p_sym=0.5, leaves=4, min_ops=1))
    if draw(st.integers(0, 5)) == 0:
        # aim at Moment._resolve_parameters_' "unchanged -> return self" short-cut: only the last operation is symbolic
        gate_ops = [o for o in c["ops"] if "m" not in o]
        if len(gate_ops) >= 2 and gate_ops[-1].get("slots"):
            for o in gate_ops[:-1]:
                o["slots"] = {}
            for o in gate_ops:
                o["ins"] = 0
    r = {"c": c, "vals": draw(CG.resolver_tables(chains=draw(st.booleans()), f32=False)),
         "sub": [n for n in CG.SYMS if draw(st.booleans())], "keyform": draw(st.sampled_from(["str", "sym", "mixed"]))}
    if with_f:
        r["f"] = draw(st.sampled_from(TRANSFORMS))
    return r


def _op_matrix(op):
    if isinstance(op.untagged, cirq.CircuitOperation):
        return op.untagged.mapped_circuit(deep=True).unitary(qubit_order=sorted(op.qubits), dtype=np.complex128)
    return cirq.unitary(op)


def _same_structure(what, got, ref, tol):
    if len(got) != len(ref):
        raise Violation(f"{len(got)} moments, the numeric circuit has {len(ref)}\n  case: {what}")
    for mi, (mg, mr) in enumerate(zip(got, ref)):
        og, orf = list(mg.operations), list(mr.operations)
        if len(og) != len(orf):
            raise Violation(f"moment {mi} has {len(og)} operations, the numeric circuit has {len(orf)}\n  case: {what}")
        for a, b in zip(og, orf):
            if a.qubits != b.qubits or type(a.untagged) is not type(b.untagged):
                raise Violation(f"{what}: moment {mi}: {a!r} where the numeric circuit has {b!r}"[:400])
            if set(map(repr, a.tags)) != set(map(repr, b.tags)):
                raise Violation(f"moment {mi}: tags {a.tags} where the numeric circuit has {b.tags}\n  case: {what}")
            if cirq.is_parameterized(a):
                raise Violation(f"{what}: moment {mi}: operation still parameterized: {a!r}"[:300])
            d = L.max_abs_diff(_op_matrix(a), _op_matrix(b))
            if not d <= tol:
                raise Violation(f"moment {mi}: operation matrix differs from the numeric operation by {d:.3g}\n  case: {what}")


def _circuit_numeric(r):
    _reject_const_in_cop(r["c"])
    stat = {}
    look = M.make_lookup(r["vals"], stat=stat)
    try:
        for t in CG.circuit_trees(r["c"]):
            M.validate_const(t)
            M.ev(t, look, stat)
        c_num, qs = CG.build_sym_circuit(r["c"], "num", look)
    except M.Cycle:
        raise Reject("cycle")
    return c_num, qs, stat


def _only_last_changes(c_sym):
    for m in c_sym:
        ops = list(m.operations)
        if len(ops) >= 2 and cirq.is_parameterized(ops[-1]) and not any(cirq.is_parameterized(o) for o in ops[:-1]):
            return True
    return False


@_domain
def oracle_circuit_resolve(r):
    c_num, qs, stat = _circuit_numeric(r)
    c_sym, _ = CG.build_sym_circuit(r["c"], "sym")
    pd = M.build_param_dict(r["vals"], r["keyform"])
    tol = 1e-7 * (1 + stat.get("max", 0.0))
    labels = _circuit_labels(r)
    labels["only_last_op_of_a_moment_changes"] = _only_last_changes(c_sym)
    labels["parameterized"] = cirq.is_parameterized(c_sym)
    labels["one_base_power_left_symbolic"] = _one_base_power("circuit_resolve", r)
    got = cirq.resolve_parameters(c_sym, pd)
    if not isinstance(got, cirq.Circuit):
        raise Violation(f"resolve_parameters(Circuit) returned {type(got).__name__}")
    _same_structure("resolve_parameters(circuit)", got, c_num, tol)
    if cirq.is_parameterized(got) or cirq.parameter_names(got):
        raise Violation(f"resolved circuit still reports parameters {sorted(cirq.parameter_names(got))}")
    # moments one by one, and through a ParamResolver object
    res = cirq.ParamResolver(pd)
    for mi, (m, mr) in enumerate(zip(c_sym, c_num)):
        _same_structure(f"resolve_parameters(moment {mi})", [cirq.resolve_parameters(m, res)], [mr], tol)
    # frozen circuit
    fz = cirq.resolve_parameters(c_sym.freeze(), pd)
    if not isinstance(fz, cirq.FrozenCircuit):
        raise Violation(f"resolve_parameters(FrozenCircuit) returned {type(fz).__name__}")
    _same_structure("resolve_parameters(frozen circuit)", fz, c_num, tol)
    # names
    exp = set()
    for t in CG.circuit_trees(r["c"]):
        exp |= _free_names(M.to_sympy(t))
    if set(cirq.parameter_names(c_sym)) != exp and not _degenerate(CG.circuit_trees(r["c"])):
        raise Violation(f"parameter_names(circuit)={sorted(cirq.parameter_names(c_sym))}, the slots hold {sorted(exp)}")
    # unrelated symbol: equal circuit back
    same = cirq.resolve_parameters(c_sym, {ZZ: 0.25})
    if (set(cirq.parameter_names(same)) != exp and not _degenerate(CG.circuit_trees(r["c"]))) or len(same) != len(c_sym):
        raise Violation("resolving an unrelated symbol changed the circuit's parameters or moments")
    if not any(o.get("slots") for o in r["c"]["ops"] if "m" not in o) and not (same == c_sym):
        raise Violation("resolving a circuit without any sympy object changed it")
    # two stages: numeric subset first, the whole table second
    sub = [n for n in r["sub"] if M.value_to_python(r["vals"].get(n, ["expr"])) is not None]
    if sub and len(sub) < len(CG.SYMS):
        mid = cirq.resolve_parameters(c_sym, M.build_param_dict({n: r["vals"][n] for n in sub}, r["keyform"]))
        left = set(cirq.parameter_names(mid))
        if left & set(sub):
            raise Violation(f"symbols {sorted(left & set(sub))} still free after resolving them")
        if not left <= exp:
            raise Violation(f"partial resolution introduced symbols {sorted(left - exp)}")
        _same_structure("resolve(resolve(circuit, r1), r2)", cirq.resolve_parameters(mid, pd), c_num, tol)
        labels["two_stage"] = True
    return labels


def _t_eject_z(c):
    return cirq.eject_z(c, eject_parameterized=True)


def _t_eject_phased_paulis(c):
    return cirq.eject_phased_paulis(c, eject_parameterized=True)


def _t_inverse(c):
    inv = cirq.inverse(c, None)
    if inv is None:
        raise Reject("circuit has no symbolic inverse")
    return inv


def _t_json(c):
    return cirq.read_json(json_text=cirq.to_json(c))


def _t_transform_qubits(c):
    return c.transform_qubits(lambda q: q)


TRANSFORM_FUNCS = {
    "align_left": cirq.align_left, "align_right": cirq.align_right, "drop_empty_moments": cirq.drop_empty_moments,
    "expand_composite": cirq.expand_composite, "eject_z": _t_eject_z, "eject_phased_paulis": _t_eject_phased_paulis,
    "drop_negligible_operations": cirq.drop_negligible_operations, "inverse": _t_inverse, "json": _t_json,
    "synchronize_terminal_measurements": cirq.synchronize_terminal_measurements, "unroll_circuit_op": cirq.unroll_circuit_op,
    "freeze_unfreeze": lambda c: c.freeze().unfreeze(),
}
TRANSFORMS = ["align_left", "align_right", "drop_empty_moments", "expand_composite", "expand_composite", "eject_z", "eject_phased_paulis",
              "drop_negligible_operations", "inverse", "json", "json", "unroll_circuit_op", "freeze_unfreeze"]


@_domain
def oracle_commute(r):
    c_num, qs, stat = _circuit_numeric(r)
    c_sym, _ = CG.build_sym_circuit(r["c"], "sym")
    if r["f"] == "json" and any(M.has_kind(t, {"sin", "cos", "exp"}) for t in CG.circuit_trees(r["c"])):
        raise Reject("function not in the JSON vocabulary")
    f = TRANSFORM_FUNCS[r["f"]]
    pd = M.build_param_dict(r["vals"], r["keyform"])
    depth = len(list(c_sym.all_operations()))
    tol = 1e-6 * (1 + depth) * (1 + stat.get("max", 0.0))
    labels = _circuit_labels(r)
    labels["f"] = r["f"]
    a = f(cirq.resolve_parameters(c_sym, pd))  # transform after resolving
    fc = f(c_sym)  # transform the symbolic circuit ...
    b = cirq.resolve_parameters(fc, pd)  # ... then resolve
    if cirq.is_parameterized(b):
        raise Violation(f"{r['f']}: transformed symbolic circuit keeps parameters {sorted(cirq.parameter_names(b))} after resolving every symbol")
    want = f(c_num)
    all_qs = list(qs)
    ua, ub, uw = (_unitary_of(x, all_qs) for x in (a, b, want))
    phase = r["f"] in ("expand_composite", "eject_z", "eject_phased_paulis", "drop_negligible_operations")
    d1 = L.diff_up_to_phase(ub, uw) if phase else L.max_abs_diff(ub, uw)
    if not d1 <= tol:
        raise Violation(f"{r['f']}: resolve(f(c), r) differs from f(numeric circuit) by {d1:.3g} (tol {tol:.1g})")
    d2 = L.diff_up_to_phase(ua, uw) if phase else L.max_abs_diff(ua, uw)
    if not d2 <= tol:
        raise Violation(f"{r['f']}: f(resolve(c, r)) differs from f(numeric circuit) by {d2:.3g} (tol {tol:.1g})")
    if r["f"] in ("json", "freeze_unfreeze") and not (fc == c_sym):
        raise Violation(f"{r['f']}: round trip changed the symbolic circuit")
    labels["changed"] = not (fc == c_sym)
    return labels


# =========================================================================================== registry

def _collapses(trees, submap, known: set) -> bool:
    """Some slot keeps an unresolved symbol syntactically, but the substitution makes all of them cancel (0.0*c + 1.0): the
    Add/Mul fast paths of value_of then return a sympy number object."""
    for t in trees:
        o = M.to_sympy(t)
        if isinstance(o, sympy.Basic) and not _free_names(o) <= known:
            try:
                if not _free_names(o.subs(submap, simultaneous=True)):
                    return True
            except Exception:
                return True
    return False


def _collapse_in_cop(sub, r):
    if sub not in ("gate_unitary", "gate_names", "cop_protocol") or r["wrap"] not in COP:
        return False
    trees = CG.case_trees(r["case"])
    if sub == "gate_names":
        names = [n for n in r.get("sub", []) if n in r["vals"] and M.value_to_python(r["vals"][n]) is not None]
        if _collapses(trees, {sympy.Symbol(n): M.value_to_python(r["vals"][n]) for n in names}, set(names)):
            return True
    if r["wrap"] != "cop_pr":
        return False
    pr = r.get("pr", {})
    numeric = {n for n, v in pr.items() if M.value_to_python(v) is not None}
    submap = {sympy.Symbol(n): (M.value_to_python(v) if n in numeric else (sympy.Symbol(v[1]) if v[0] == "str" else M.to_sympy(v[1])))
              for n, v in pr.items()}
    return _collapses(trees, submap, numeric)


def _rc(r):
    return r["c"] if isinstance(r.get("c"), dict) and "ops" in r["c"] else None


def _circuit_collapse(sub, r):
    rc = _rc(r)
    if rc is None or sub != "circuit_resolve":
        return False
    names = [n for n in r.get("sub", []) if M.value_to_python(r["vals"].get(n, ["expr"])) is not None]
    trees = [t for o in rc["ops"] if "m" not in o and o.get("cop") for t in CG.case_trees(o)]
    return _collapses(trees, {sympy.Symbol(n): M.value_to_python(r["vals"][n]) for n in names}, set(names))


def _one_base_power(sub, r) -> bool:
    """(label; trigger of repaired defect FC10k, 5f3a374) a numeric (partial / one-step) substitution turns the base of a power into exactly 1 while the exponent
    keeps a symbol: sympy keeps 1.0**c unevaluated, calls it constant, and canonicalize_half_turns then float()s it."""
    rc = _rc(r)
    if rc is not None:
        if sub != "circuit_resolve":
            return False
        trees = CG.circuit_trees(rc)
        names = [n for n in r.get("sub", []) if M.value_to_python(r["vals"].get(n, ["expr"])) is not None]
        maps = [{sympy.Symbol(n): M.value_to_python(r["vals"][n]) for n in names}]
    elif "case" in r and sub in ("gate_unitary", "gate_names", "cop_protocol"):
        trees = CG.case_trees(r["case"])
        maps = []
        if sub == "gate_names":
            names = [n for n in r.get("sub", []) if n in r["vals"] and M.value_to_python(r["vals"][n]) is not None]
            maps.append({sympy.Symbol(n): M.value_to_python(r["vals"][n]) for n in names})
        if r["wrap"] == "cop_pr":
            maps.append({sympy.Symbol(n): M.value_to_python(v) for n, v in r.get("pr", {}).items() if M.value_to_python(v) is not None})
    else:
        return False
    for submap in maps:
        if not any(v == 1 for v in submap.values()):
            continue
        for t in trees:
            o = M.to_sympy(t)
            if not isinstance(o, sympy.Basic):
                continue
            for n in sympy.preorder_traversal(o):
                if isinstance(n, sympy.Pow):
                    try:
                        b2, e2 = n.args[0].subs(submap), n.args[1].subs(submap)
                    except Exception:
                        return True
                    if not getattr(b2, "free_symbols", None) and getattr(e2, "free_symbols", None):
                        try:
                            if abs(complex(b2) - 1) < 1e-12:
                                return True
                        except TypeError:
                            pass
    return False


KNOWN_FEATURES = {

    # repr(ZipLongest) prints "cirq_google.ZipLongest(...)" (recorded as known: upstream's own test pins the string)
    "F10_ziplongest_repr": lambda sub, r: sub == "sweep_repr" and M.sweep_has(r["t"], {"ziplongest"}),
    # value_of returns a *sympy* number when arithmetic collapses (0.0*c + 1.0 -> sympy.Float(1.0)); a gate holding it is
    # "parameterized" without names, which a CircuitOperation can never resolve -> two-stage resolution has no unitary
    "FC10d_collapse_leaves_sympy_number_in_circuitop": lambda sub, r: _circuit_collapse(sub, r) or ("case" in r and _collapse_in_cop(sub, r)),
}

# Repaired by fix: commits (predicates removed, inputs generated again; regression recipes are in known_findings.json):
#   FC10a value_of Pow fast path + sympy operand (b596891), FC10b PhasedFSimGate._parameter_names_ (789c48a),
#   FC10c 1-qubit CircuitOperation unitary ignored param_resolver (a82c794), FC10e Sweep.__add__ unpacked ZipLongest (c8b2a6d),
#   FC10f flatten skipped CircuitOperation (184e225), FC10g eject_z on symbolic iSWAP/FSim (e6ad139),
#   PauliInteractionGate JSON exponent (d16af11, found with C11), FC10i from_phase_and_exponent on a symbolic coefficient that
#   sympy calls "complex" (0435525), FC10j Moment resolve short-cut fooled by value-equal ops (af287d8).

def uncovered():
    """Rows of the shared gate table with numeric parameters that have no symbolic slot here, and resolvable classes outside it."""
    G._lazy()
    out = []
    for name, f in G.FAMILIES.items():
        if name in CG.SLOTS:
            continue
        if name in ("Matrix1", "Matrix2", "Matrix3", "QuditMatrix", "QuditMatrix2", "GPI", "GPI2", "IonqMS", "IonqZZ", "Depolarize",
                    "Depolarize2", "AsymDepolarize", "BitFlip", "PhaseFlip", "PhaseDamp", "AmplitudeDamp", "GenAmplitudeDamp"):
            out.append(f"{name}: constructor rejects sympy parameters (no symbolic slot exists)")
    out += ["PauliSum / PauliSumExponential / LinearDict / PeriodicValue _resolve_parameters_ (not gate-table rows)",
            "cirq_google CouplerPulse / AnalogDetune* / InternalGate symbolic arguments",
            "QasmUGate and other qasm_output helpers", "Circuit(tags=...) resolution of circuit-level tags",
            "CircuitOperation.repeat_until with symbolic conditions"]
    return out


SUBCHECKS = [
    SubCheck("expr_value", _expr_value_case(), oracle_expr_value, quick=2000, thorough=26666, shards_quick=4, shards_thorough=16,
             essential={"has_pow": 0.1, "chain=2": 0.01, "cycle": 0.003, "complex": 0.03}),
    SubCheck("expr_funcs", _expr_value_case(funcs=True), oracle_expr_value, quick=200, thorough=10000, shards_quick=2,
             shards_thorough=8, essential={"funcs": 0.2}),
    SubCheck("expr_compose", _compose_case(), oracle_expr_compose, quick=1600, thorough=20000, shards_quick=4, shards_thorough=16,
             essential={"mode=nonrec": 0.1, "mode=chain": 0.1}),
    SubCheck("gate_unitary", _gate_case(), oracle_gate_unitary, quick=2000, thorough=26666, shards_quick=4, shards_thorough=16),
    SubCheck("gate_names", _gate_case(partial=True), oracle_gate_names, quick=1200, thorough=16666, shards_quick=4, shards_thorough=16,
             essential={"partial": 0.1}),
    SubCheck("cop_protocol", _gate_case(wraps=list(COP), families=[f for f in CG.sym_families() if f not in ("RandomGate", "Wait")]),
             oracle_cop_protocol, quick=400, thorough=5000, shards_quick=4, shards_thorough=8),
    SubCheck("circuit_resolve", _circuit_case(), oracle_circuit_resolve, quick=1000, thorough=13333, shards_quick=4, shards_thorough=16,
             essential={"only_last_op_of_a_moment_changes": 0.02}),
    SubCheck("sweeps", _sweep_case(), oracle_sweeps, quick=2400, thorough=33333, shards_quick=4, shards_thorough=16,
             essential={"has_ziplongest": 0.05, "empty": 0.03, "single": 0.05, "contract_reject": 0.02, "depth=2": 0.1}),
    SubCheck("sweep_repr", _sweep_case(bad_rate=0), oracle_sweep_repr, quick=600, thorough=10000, shards_quick=2, shards_thorough=8),
    SubCheck("sim_sweep", _sim_case(), oracle_sim_sweep, quick=600, thorough=6666, shards_quick=4, shards_thorough=16,
             essential={"ran": 0.3}),
    SubCheck("flatten", _flatten_case(), oracle_flatten, quick=600, thorough=6666, shards_quick=4, shards_thorough=16,
             essential={"collision": 0.05}),
    SubCheck("commute", _circuit_case(with_f=True), oracle_commute, quick=800, thorough=10000, shards_quick=4, shards_thorough=16),
]
