"""C12 — sub-circuits, loops and classical control equal their unrolled form."""
from __future__ import annotations

import numpy as np
import sympy
from hypothesis import strategies as st

import cirq
from vf.core import Reject, SubCheck, Violation
from vf.gen import gates as G
from vf.gen import meas_circuits as MC
from vf.prng import enumerate_branches
from vf.ref import interp as RI
from vf.ref import linalg as L

RULE = (
    "Hypothesis draws a recursive recipe (depth 0-3) of CircuitOperations over 2-4 wires: bodies of library gates (some with "
    "symbolic exponents), measurements, classically controlled gates on inner or outer keys (incl. the same key name inside "
    "and outside), nested sub-circuits; each sub-circuit has repetitions in {0,1,2,3,-1,-2}, optional repetition ids (default "
    "or custom, use_repetition_ids both ways), a qubit map (permutation of the wires), a measurement-key map, a parent path, "
    "bound parameters (numbers or other symbols), and is built by the constructor or by a random chain of public methods "
    "(repeat, with_qubit_mapping, with_measurement_key_mapping, with_params, with_key_path_prefix, replace, **-1). The "
    "reference is a recipe-level interpreter with lexical key scoping (a control refers to the innermost enclosing scope in "
    "which that name has been measured so far; repetition ids and parent paths prefix keys; key maps rename by name) that "
    "emits a flat list of primitive operations with fully qualified keys; it never looks at Cirq's mapped circuit. Oracles: "
    "unitary / final state / key sets / parameter names / exact record distribution (scripted PRNG, all simulators) of the "
    "wrapped form == flat form; mapped_circuit(deep), cirq.decompose, unroll_circuit_op* == flat; composition laws. "
    "Non-trivial: depth>=1 with >=2 of {repetitions != 1, non-identity qubit map, key map, inner classical control, bound "
    "parameter, repetition ids}."
)
ASSUMPTIONS = [
    "per-gate matrices from cirq.unitary(gate); scoping, unrolling, key qualification, parameter binding recomputed from the recipe",
    "exact distributions through the duck-typed scripted PRNG (see C02)",
    "repeat_until loops are compared on the probability mass reached within 24 scripted draws (lost mass bounds the tolerance)",
]

SYMS = ["s", "t", "u"]
KEYS = ["a", "b", "m"]
EIGEN1 = ["XPow", "YPow", "ZPow", "HPow"]


# ------------------------------------------------------------------------------------------------ generators


@st.composite
def _gate_item(draw, n, symbolic):
    fam_pred = lambda f: f.unitary and not f.qudit and "zeroq" not in f.tags and f.name not in ("Wait", "Matrix3", "SingleQubitClifford")  # Clifford inverses are up to phase (C13)
    g = draw(G.gate_recipes(fam_pred, max_arity=min(2, n)))
    k = G.arity(g)
    w = list(draw(st.permutations(list(range(n)))))[:k]
    it = {"k": "g", "g": g, "w": w, "sym": None}
    if symbolic and "eigen" in G.FAMILIES[g[0]].tags and draw(st.integers(0, 2)) == 0:
        it["sym"] = draw(st.sampled_from(SYMS))
    return it


@st.composite
def _body(draw, n, depth, measure, visible, symbolic):
    """visible: list of key names measured in an enclosing scope before this body starts (bindable)."""
    items = []
    local = []  # names measured so far in this body
    for _ in range(draw(st.integers(1, 4 if depth else 5))):
        kind = draw(st.sampled_from(["g", "g", "g", "m", "m", "cg", "cg", "sub", "sub", "csub"]))
        if kind == "csub":
            if not (measure and local):
                kind = "g"
            else:
                # a classically controlled sub-circuit whose body is itself controlled by a key of this scope
                name = draw(st.sampled_from(sorted(local)))
                width = {"a": 1, "b": min(2, n), "m": 1, "x": 1, "y": min(2, n)}[name]
                g1 = draw(_gate_item(n, False))
                inner = [{"k": "cg", "g": g1["g"], "w": g1["w"], "conds": [{"t": "key", "key": name, "index": -1}]}]
                if draw(st.booleans()):
                    inner.insert(0, draw(_gate_item(n, False)))
                items.append({"k": "sub", "body": inner, "reps": draw(st.sampled_from([1, 1, 2])), "ids": None,
                              "perm": list(draw(st.permutations(list(range(n))))) if draw(st.booleans()) else list(range(n)),
                              "kmap": {}, "ppath": [], "params": {}, "build": "ctor", "frozen_tag": False,
                              "conds": [{"t": "eq", "key": name, "val": draw(st.integers(0, 2 ** width - 1))} if draw(st.booleans())
                                        else {"t": "key", "key": name, "index": -1}]})
                continue
        if kind == "sub" and depth <= 0:
            kind = "g"
        if kind in ("m", "cg") and not measure:
            kind = "g"
        if kind == "cg" and not (local or visible):
            kind = "m"
        if kind == "g":
            items.append(draw(_gate_item(n, symbolic)))
        elif kind == "m":
            k = draw(st.integers(1, min(2, n)))
            w = list(draw(st.permutations(list(range(n)))))[:k]
            name = draw(st.sampled_from(KEYS))
            # a key keeps one width (cirq requirement); width is tied to the name
            k = {"a": 1, "b": min(2, n), "m": 1}[name]
            w = (w + [x for x in range(n) if x not in w])[:k]
            inv = draw(st.lists(st.booleans(), max_size=k)) if draw(st.booleans()) else []
            items.append({"k": "m", "key": name, "w": w, "inv": inv})
            if name not in local:
                local.append(name)
        elif kind == "cg":
            g = draw(_gate_item(n, False))
            name = draw(st.sampled_from(sorted(set(local + visible))))
            width = {"a": 1, "b": min(2, n), "m": 1, "x": 1, "y": min(2, n)}[name]
            t = draw(st.sampled_from(["key", "key", "eq", "bitmask"]))
            if t == "key":
                cond = {"t": "key", "key": name, "index": -1}
            elif t == "eq":
                cond = {"t": "eq", "key": name, "val": draw(st.integers(0, 2 ** width - 1))}
            else:
                cond = {"t": "bitmask", "key": name, "index": -1, "target": draw(st.integers(0, 2 ** width - 1)),
                        "equal": draw(st.booleans()), "mask": draw(st.one_of(st.none(), st.integers(1, 2 ** width - 1)))}
            items.append({"k": "cg", "g": g["g"], "w": g["w"], "conds": [cond], "form": draw(st.sampled_from(["ccop", "ccop", "if"]))})
        else:
            sub = draw(_sub(n, depth - 1, measure, sorted(set(local + visible)), symbolic))
            if measure and (local or visible) and not _has_m(sub["body"]) and draw(st.integers(0, 1)) == 0:
                # a classically controlled sub-circuit: the condition is evaluated once, before the block
                name = draw(st.sampled_from(sorted(set(local + visible))))
                width = {"a": 1, "b": min(2, n), "m": 1, "x": 1, "y": min(2, n)}[name]
                if draw(st.booleans()):
                    sub["conds"] = [{"t": "key", "key": name, "index": -1}]
                else:
                    sub["conds"] = [{"t": "eq", "key": name, "val": draw(st.integers(0, 2 ** width - 1))}]
                sub["form"] = draw(st.sampled_from(["ccop", "ccop", "if"]))
            items.append(sub)
            # names measured inside become visible to later siblings only when they are not hidden behind ids/paths
            if not sub["ids"] and not sub["ppath"]:
                for nm in _measured_names(sub):
                    if nm not in local:
                        local.append(nm)
    return items


def _measured_names(sub):
    out = []
    for it in sub["body"]:
        if it["k"] == "m":
            out.append(sub["kmap"].get(it["key"], it["key"]))
        elif it["k"] == "sub" and not it["ids"] and not it["ppath"]:
            out += [sub["kmap"].get(x, x) for x in _measured_names(it)]
    return out


def _all_key_names(items):
    """every key name measured anywhere in ``items`` (after the nested sub-circuits' own maps)"""
    out = set()
    for it in items:
        if it["k"] == "m":
            out.add(it["key"])
        elif it["k"] == "sub":
            out |= {it["kmap"].get(k, k) for k in _all_key_names(it["body"])}
    return out


def _has_m(items):
    return any(it["k"] == "m" or (it["k"] == "sub" and _has_m(it["body"])) for it in items)


def _has_measure(items):
    return any(it["k"] in ("m", "cg") or (it["k"] == "sub" and (it.get("conds") or _has_measure(it["body"]))) for it in items)


@st.composite
def _sub(draw, n, depth, measure, visible, symbolic):
    kmap = {}
    if measure and draw(st.integers(0, 2)) == 0:
        src = draw(st.sampled_from(KEYS))
        # same width class: a<->m (width 1); b stays b or maps to a fresh name
        dst = {"a": draw(st.sampled_from(["m", "x"])), "m": draw(st.sampled_from(["a", "x"])), "b": "y"}[src]
        kmap = {src: dst}
    # visible names as seen from inside: a name v outside is reachable from inside through name k with kmap[k] == v
    inv = {v: k for k, v in kmap.items()}
    vis_in = [inv.get(v, v) for v in visible if v not in kmap or v in inv]
    body = draw(_body(n, depth, measure, vis_in, symbolic))
    if kmap and set(kmap.values()) & _all_key_names(body):
        # the map would merge two keys of the body: CircuitOperation.with_measurement_key_mapping documents a ValueError for
        # that (and an outer map reaches nested sub-circuits lazily) - outside the domain, so the map is dropped
        kmap = {}
    has_m = _has_measure(body)
    # negative repetitions only for measurement-free bodies (the inverse needs a unitary body)
    reps = draw(st.sampled_from([1, 1, 2, 2, 3, 0] + ([] if has_m else [-1, -2])))
    ids = None
    if abs(reps) >= 1 and draw(st.integers(0, 2 if not measure else 1)) == 0:
        ids = draw(st.sampled_from(["default", "custom"]))
    perm = list(draw(st.permutations(list(range(n))))) if draw(st.booleans()) else list(range(n))
    params = {}
    if symbolic and draw(st.booleans()):
        for s in draw(st.lists(st.sampled_from(SYMS), max_size=2, unique=True)):
            params[s] = draw(st.one_of(G.exponents(), st.sampled_from(SYMS)))
            if params[s] == s:
                params[s] = 0.25
    return {"k": "sub", "body": body, "reps": reps, "ids": ids, "perm": perm, "kmap": kmap,
            "ppath": draw(st.sampled_from([[], [], [], ["p"]])), "params": params,
            "build": draw(st.sampled_from(["ctor", "ctor", "methods"])), "frozen_tag": draw(st.booleans())}


@st.composite
def _case(draw, measure, symbolic=True, max_depth=3):
    n = draw(st.integers(2, 4 if not measure else 3))
    depth = draw(st.integers(1, max_depth))
    r = {"n": n, "names": list(draw(st.permutations(list(range(n + 2)))))[:n],
         "items": draw(_body(n, depth, measure, [], symbolic)),
         "top_params": {s: draw(G.exponents()) for s in SYMS}}
    if not any(it["k"] == "sub" for it in r["items"]):
        r["items"].append(draw(_sub(n, depth - 1, measure, [], symbolic)))
    if measure and not _has_measure(r["items"]):
        r["items"].append({"k": "m", "key": "a", "w": [draw(st.integers(0, n - 1))], "inv": []})
    r["sim"] = draw(st.sampled_from(["sv", "sv_nosplit", "dm"]))
    return r


def _xg(i, fam="XPow"):
    return {"k": "g", "g": [fam, {"e": 1.0, "s": 0.0}], "w": [i], "sym": None}


@st.composite
def _shadow_level(draw, n, d, name, out, visible):
    """One level of a chain of nested sub-circuits in which the SAME key name may be measured at every level and
    controls on it appear before / inside / after the nested block (mostly basis-preserving gates, so that the scopes hold
    different definite values and few outcome branches exist)."""
    body = []

    def flip():
        for i in range(n):
            c = draw(st.integers(0, 11))
            if c <= 3:
                body.append(_xg(i))
            elif c == 4:
                body.append(_xg(i, "HPow"))

    def ctrl():
        t = draw(st.integers(0, n - 1))
        body.append({"k": "cg", "g": ["XPow", {"e": 1.0, "s": 0.0}], "w": [t], "conds": [{"t": "key", "key": name, "index": -1}],
                     "form": draw(st.sampled_from(["ccop", "ccop", "if"]))})
        body.append({"k": "m", "key": out, "w": [t], "inv": []})

    flip()
    local = d == 0 or draw(st.integers(0, 2)) > 0
    if local:
        body.append({"k": "m", "key": name, "w": [draw(st.integers(0, n - 1))], "inv": [True] if draw(st.integers(0, 3)) == 0 else []})
    if d == 0:
        ctrl()
    else:
        if (local or visible) and draw(st.booleans()):
            ctrl()
        body.append(draw(_shadow_level(n, d - 1, name, out, visible or local)))
        if (local or visible) and draw(st.booleans()):
            flip()
            ctrl()
    return {"k": "sub", "body": body, "reps": draw(st.sampled_from([1, 1, 2])),
            "ids": draw(st.sampled_from([None, "default", "default", "custom"])),
            "perm": list(draw(st.permutations(list(range(n))))) if draw(st.integers(0, 3)) == 0 else list(range(n)),
            "kmap": {}, "ppath": draw(st.sampled_from([[], [], ["p"]])), "params": {},
            "build": draw(st.sampled_from(["ctor", "ctor", "methods"])), "frozen_tag": draw(st.booleans())}


@st.composite
def _shadow_case(draw):
    n = draw(st.integers(2, 3))
    name = draw(st.sampled_from(["a", "m"]))
    out = "m" if name == "a" else "a"
    items = []
    top = draw(st.booleans())
    if top:
        if draw(st.booleans()):
            items.append(_xg(draw(st.integers(0, n - 1))))
        items.append({"k": "m", "key": name, "w": [draw(st.integers(0, n - 1))], "inv": []})
    items.append(draw(_shadow_level(n, draw(st.sampled_from([1, 2, 2])), name, out, top)))
    return {"n": n, "names": list(draw(st.permutations(list(range(n + 2)))))[:n], "items": items,
            "top_params": {s: 0.5 for s in SYMS}, "sim": draw(st.sampled_from(["sv", "sv_nosplit", "dm"])), "shape": "shadow"}


def _keys_case():
    return st.integers(0, 3).flatmap(lambda k: _shadow_case() if k == 0 else _case(measure=True, symbolic=False, max_depth=2))


# ------------------------------------------------------------------------------------------------ cirq side


def _qubits(r):
    return [cirq.LineQubit(k) for k in r["names"]]


def _sym_exponent(it):
    return sympy.Symbol(it["sym"])


def _build_gate_op(it, qs):
    gate = G.build_gate(it["g"])
    if it.get("sym"):
        gate = type(gate)(exponent=_sym_exponent(it), global_shift=it["g"][1]["s"])
    return gate.on(*[qs[i] for i in it["w"]])


def _ids_for(sub):
    r = abs(sub["reps"])
    if sub["ids"] == "custom":
        return [f"i{j}" for j in range(r)]
    if sub["ids"] == "default":
        return [str(j) for j in range(r)]
    return None


def _controlled(op, it):
    conds = [MC.build_condition(c) for c in it["conds"]]
    if it.get("form") == "if":  # cirq.If: same meaning, its own key-protocol implementations
        return cirq.If(conds if len(conds) > 1 else conds[0], op)
    return op.with_classical_controls(*conds)


def _build_items(items, qs):
    ops = []
    for it in items:
        k = it["k"]
        if k == "g":
            ops.append(_build_gate_op(it, qs))
        elif k == "m":
            kw = {"invert_mask": tuple(it["inv"])} if it.get("inv") else {}
            ops.append(cirq.measure(*[qs[i] for i in it["w"]], key=it["key"], **kw))
        elif k == "cg":
            op = G.build_gate(it["g"]).on(*[qs[i] for i in it["w"]])
            ops.append(_controlled(op, it))
        else:
            op = _build_sub(it, qs)
            if it.get("conds"):
                op = _controlled(op, it)
            ops.append(op)
    return ops


def _build_sub(sub, qs):
    inner = cirq.FrozenCircuit(_build_items(sub["body"], qs))
    qmap = {qs[i]: qs[p] for i, p in enumerate(sub["perm"]) if i != p}
    ids = _ids_for(sub)
    params = {k: (sympy.Symbol(v) if isinstance(v, str) else v) for k, v in sub["params"].items()}
    if sub["build"] == "ctor":
        kw = {}
        if ids is not None:
            kw["repetition_ids"] = ids
        return cirq.CircuitOperation(inner, repetitions=sub["reps"], qubit_map=qmap, measurement_key_map=dict(sub["kmap"]),
                                     param_resolver=params, parent_path=tuple(sub["ppath"]), **kw)
    # the same value through the public builder methods, in a recipe-determined order
    op = cirq.CircuitOperation(inner)
    steps = ["q", "k", "p", "r", "path"]
    rot = (len(sub["body"]) + abs(sub["reps"])) % len(steps)
    for s in steps[rot:] + steps[:rot]:
        if s == "q" and qmap:
            op = op.with_qubit_mapping(qmap)
        elif s == "k" and sub["kmap"]:
            try:
                op = op.with_measurement_key_mapping(dict(sub["kmap"]))
            except ValueError:
                # documented: "ValueError: The remapped operation has a different number of measurement keys"
                raise Reject("documented ValueError of with_measurement_key_mapping")
        elif s == "p" and params:
            op = op.with_params(params)
        elif s == "r":
            if sub["reps"] != 1 or ids is not None:
                if ids is not None:
                    op = op.repeat(sub["reps"], repetition_ids=ids)
                else:
                    op = op.repeat(sub["reps"])
        elif s == "path" and sub["ppath"]:
            op = cirq.with_key_path_prefix(op, tuple(sub["ppath"]))
    return op


# ------------------------------------------------------------------------------------------------ reference side


class _Unbound(Exception):
    pass


def _lookup(measured, path, name, has_rid=False):
    """Which measurement a control on ``name`` refers to (absolute key string) - lexical scoping as documented:
    with a repetition id the own-iteration key (path+name) counts only if measured earlier in THIS iteration; otherwise
    the innermost enclosing prefix of the parent path whose key has been measured before (earlier in this iteration's
    text or before the sub-circuit in enclosing scopes).  ``measured`` is a stack of key sets, innermost last."""
    if has_rid:
        q = ":".join(tuple(path) + (name,))
        if q in measured[-1]:
            return q
        path = path[:-1]
    # prefixed candidates bind only to keys an enclosing sub-circuit has measured before (its "extern" keys); keys measured
    # at the top level of the circuit are only reachable as the bare name, which is resolved when the operation runs
    for j in range(len(path), 0, -1):
        q = ":".join(tuple(path[:j]) + (name,))
        if any(q in lvl for lvl in measured[1:]):
            return q
    if name in _DYN[0]:
        return name
    return None


_DYN = [set()]  # every absolute key measured so far in execution order (reset per reference run)


def _resolve_sym(name, chain):
    """chain: list of param dicts, innermost first.  Returns number or raises KeyError if unresolved."""
    cur = name
    for d in chain:
        if isinstance(cur, str) and cur in d:
            cur = d[cur]
    if isinstance(cur, str):
        raise KeyError(cur)
    return cur


def _ref_flat(items, n, wmap, kmaps, path, chain, measured, out, widths, has_rid=False):
    """Appends IR ops (vf.ref.interp) with fully qualified key strings to ``out``."""
    for it in items:
        k = it["k"]
        if k in ("g", "cg"):
            g = it["g"]
            if it.get("sym"):
                val = _resolve_sym(it["sym"], chain)
                g = [g[0], dict(g[1], e=float(val))]
            mat = cirq.unitary(G.build_gate(g))
            if it.get("inverse"):
                mat = mat.conj().T
            base = {"t": "u", "m": mat, "ax": [wmap[i] for i in it["w"]]}
            if k == "cg":
                conds = []
                for c in it["conds"]:
                    name = c["key"]
                    for km in kmaps:
                        name = km.get(name, name)
                    found = _lookup(measured, path, name, has_rid)
                    if found is None:
                        raise _Unbound(name)
                    cc = dict(c, key=found)
                    conds.append(MC.ir_condition(cc, {found: (2,) * widths[found]}))
                base = {"t": "c", "conds": conds, "op": base}
            out.append(base)
        elif k == "m":
            name = it["key"]
            for km in kmaps:
                name = km.get(name, name)
            q = ":".join(tuple(path) + (name,))
            measured[-1].add(q)
            _DYN[0].add(q)
            widths[q] = len(it["w"])
            out.append({"t": "m", "key": q, "ax": [wmap[i] for i in it["w"]], "inv": list(it.get("inv") or []), "conf": []})
        else:
            sub = it
            reps = sub["reps"]
            ids = _ids_for(sub)
            new_wmap = [wmap[sub["perm"][i]] for i in range(n)]
            body = sub["body"]
            if reps < 0:
                body = _inverse_body(body)
            target = out
            if sub.get("conds"):
                conds = []
                for c in sub["conds"]:
                    name = c["key"]
                    for km in kmaps:
                        name = km.get(name, name)
                    found = _lookup(measured, path, name, has_rid)
                    if found is None:
                        raise _Unbound(name)
                    conds.append(MC.ir_condition(dict(c, key=found), {found: (2,) * widths[found]}))
                target = []
                out.append({"t": "cb", "conds": conds, "ops": target})
            # Static (lexical) binding, as in a textual unrolling of ONE loop body: inside an iteration a control sees the keys
            # measured earlier in that iteration's text and the keys measured before the whole sub-circuit in enclosing
            # scopes; keys of earlier iterations of the same sub-circuit only become visible after the sub-circuit.
            done = set()
            for j in range(abs(reps)):
                new_path = list(path) + list(sub["ppath"]) + ([ids[j]] if ids is not None else [])
                measured.append(set())
                try:
                    _ref_flat(body, n, new_wmap, [sub["kmap"]] + kmaps, new_path, [sub["params"]] + chain, measured, target, widths,
                              has_rid=ids is not None)
                finally:
                    done |= measured.pop()
            measured[-1] |= done


def _inverse_body(body):
    inv = []
    for it in reversed(body):
        if it["k"] == "g":
            inv.append(dict(it, inverse=not it.get("inverse", False)))
        elif it["k"] == "sub":
            inv.append(dict(it, reps=-it["reps"]))
        else:
            raise Reject("inverse of non-unitary body")
    return inv


def _flat_reference(r):
    out = []
    measured = [set()]
    _DYN[0] = set()
    widths = {}
    items = r["items"]
    try:
        _ref_flat(items, r["n"], list(range(r["n"])), [], [], [r["top_params"]], measured, out, widths)
    except _Unbound as e:
        raise Reject(f"control key not bound: {e}")
    except KeyError as e:
        raise Reject(f"unresolved symbol {e}")
    return out, set().union(*measured), widths


# ------------------------------------------------------------------------------------------------ oracles


def _features(r):
    f = {"reps": False, "qmap": False, "kmap": False, "inner_cond": False, "params": False, "ids": False, "neg": False, "ppath": False}
    depth = [0]

    def walk(items, d):
        depth[0] = max(depth[0], d)
        for it in items:
            if it["k"] == "sub":
                f["reps"] |= it["reps"] != 1
                f["neg"] |= it["reps"] < 0
                f["qmap"] |= it["perm"] != sorted(it["perm"])
                f["kmap"] |= bool(it["kmap"])
                f["params"] |= bool(it["params"])
                f["ids"] |= it["ids"] is not None
                f["ppath"] |= bool(it["ppath"])
                f["inner_cond"] |= any(x["k"] == "cg" for x in it["body"])
                f["controlled_sub"] = f.get("controlled_sub", False) or bool(it.get("conds"))
                walk(it["body"], d + 1)

    walk(r["items"], 0)
    f["depth"] = depth[0]
    f["shadow_chain"] = r.get("shape") == "shadow"
    f["nontrivial"] = depth[0] >= 1 and sum(bool(f[k]) for k in ("reps", "qmap", "kmap", "inner_cond", "params", "ids")) >= 2
    return f


def _flat_unitary(flat, n):
    return L.circuit_unitary([(o["m"], o["ax"]) for o in flat], [2] * n)


def _circuit_unitary_cmp(what, circuit, qs, U, tol):
    try:
        got = circuit.unitary(qubit_order=qs, dtype=np.complex128)
    except (TypeError, ValueError) as e:
        raise Violation(f"{what}: Circuit.unitary raised {type(e).__name__}: {str(e)[:120]}")
    d = L.max_abs_diff(got, U)
    if d > tol:
        raise Violation(f"{what}: unitary differs from the unrolled reference by {d:.3g}")


def oracle_unitary(r):
    qs = _qubits(r)
    n = r["n"]
    flat, measured, widths = _flat_reference(r)
    U = _flat_unitary(flat, n)
    tol = 1e-7 * (1 + len(flat))
    ops = _build_items(r["items"], qs)
    circuit = cirq.Circuit(ops)
    resolver = cirq.ParamResolver(r["top_params"])
    resolved = cirq.resolve_parameters(circuit, resolver)
    if cirq.is_parameterized(resolved):
        raise Violation(f"circuit still parameterized after resolving every symbol: {sorted(cirq.parameter_names(resolved))}")
    _circuit_unitary_cmp("resolve_parameters(circuit with CircuitOperations)", resolved, qs, U, tol)
    # simulation with the resolver
    psi = cirq.Simulator(dtype=np.complex128).simulate(circuit, param_resolver=resolver, qubit_order=qs).final_state_vector
    d = L.max_abs_diff(psi, U[:, 0])
    if d > tol:
        raise Violation(f"Simulator.simulate(circuit with CircuitOperations, resolver): final state differs from the unrolled reference by {d:.3g}")
    # every way of flattening
    for name, fn in (
        ("cirq.decompose", lambda c: cirq.Circuit(cirq.decompose(c, keep=lambda op: not isinstance(cirq.unwrap(op) if hasattr(cirq, 'unwrap') else op.untagged, cirq.CircuitOperation)))),
        ("unroll_circuit_op(deep)", lambda c: cirq.unroll_circuit_op(c, deep=True, tags_to_check=None)),
        ("unroll_circuit_op_greedy_frontier(deep)", lambda c: cirq.unroll_circuit_op_greedy_frontier(c, deep=True, tags_to_check=None)),
    ):
        out = fn(resolved)
        # a zero-repetition or empty sub-circuit is a no-op; some primitives leave it in place, which changes nothing
        if any(isinstance(op.untagged, cirq.CircuitOperation) and op.untagged.repetitions != 0 and len(op.untagged.circuit) > 0
               for op in out.all_operations()):
            raise Violation(f"{name} left a CircuitOperation in the circuit")
        extra = set(out.all_qubits()) - set(qs)
        if extra:
            raise Violation(f"{name} introduced qubits {sorted(extra)}")
        _circuit_unitary_cmp(name, out, qs, U, tol)
    # per-operation views of every top-level CircuitOperation
    for it, op in zip(r["items"], ops):
        if it["k"] != "sub":
            continue
        rop = cirq.resolve_parameters(op, resolver)
        sub_flat = []
        _DYN[0] = set()
        _ref_flat([it], n, list(range(n)), [], [], [r["top_params"]], [set()], sub_flat, {})
        Us = _flat_unitary(sub_flat, n)
        used = sorted(set(rop.qubits), key=qs.index)
        for nm, c in (("mapped_circuit(deep=True)", rop.mapped_circuit(deep=True)), ("mapped_circuit()", rop.mapped_circuit()),
                      ("mapped_op()", cirq.Circuit(rop.mapped_op()))):
            _circuit_unitary_cmp(f"CircuitOperation.{nm}", c, qs, Us, tol)
        if cirq.has_unitary(rop):
            u = cirq.unitary(rop)
            axes = [qs.index(q) for q in rop.qubits]
            d = L.max_abs_diff(L.embed(u, axes, [2] * n), Us) if u.shape[0] == 2 ** len(axes) else float("inf")
            if d > tol:
                raise Violation(f"cirq.unitary(CircuitOperation) differs from the unrolled reference by {d:.3g}")
        else:
            raise Violation("cirq.has_unitary is False for a fully resolved unitary CircuitOperation")
        # expected qubits: images of the wires the body touches
        # inverse law
        if it["reps"] != 0:
            inv = rop ** -1
            _circuit_unitary_cmp("CircuitOperation ** -1", cirq.Circuit(inv), qs, Us.conj().T, tol)
        # repeat law: repeat(2) == two copies
        if it["ids"] is None:
            _circuit_unitary_cmp("CircuitOperation.repeat(2)", cirq.Circuit(rop.repeat(2)), qs, Us @ Us, tol)
        # qubit-mapping composition law
        perm2 = list(reversed(range(n)))
        m2 = {qs[i]: qs[perm2[i]] for i in range(n)}
        P = L.permutation_matrix_qubits(perm2, [2] * n)
        _circuit_unitary_cmp("with_qubit_mapping (composition with the existing map)", cirq.Circuit(rop.with_qubit_mapping(m2)), qs,
                             P @ Us @ P.conj().T, tol)
        # parameter bookkeeping on the unresolved op
        want_names = _free_symbols([it], [])
        if set(cirq.parameter_names(op)) != want_names:
            raise Violation(f"parameter_names(CircuitOperation) = {sorted(cirq.parameter_names(op))}, unrolled form has {sorted(want_names)}")
        if cirq.is_parameterized(op) != bool(want_names):
            raise Violation("is_parameterized(CircuitOperation) disagrees with the unrolled form")
    return _features(r)


def oracle_unroll_greedy_earliest(r):
    """unroll_circuit_op_greedy_earliest keeps the unitary (separate sub-check: see known finding C06-F17)."""
    qs = _qubits(r)
    n = r["n"]
    flat, measured, widths = _flat_reference(r)
    U = _flat_unitary(flat, n)
    resolved = cirq.resolve_parameters(cirq.Circuit(_build_items(r["items"], qs)), cirq.ParamResolver(r["top_params"]))
    out = cirq.unroll_circuit_op_greedy_earliest(resolved, deep=True, tags_to_check=None)
    if any(isinstance(op.untagged, cirq.CircuitOperation) for op in out.all_operations()):
        raise Violation("unroll_circuit_op_greedy_earliest left a CircuitOperation in the circuit")
    _circuit_unitary_cmp("unroll_circuit_op_greedy_earliest(deep)", out, qs, U, 1e-7 * (1 + len(flat)))
    return _features(r)


def _free_symbols(items, chain):
    out = set()
    for it in items:
        if it["k"] == "g" and it.get("sym"):
            cur = it["sym"]
            for d in chain:
                if isinstance(cur, str) and cur in d:
                    cur = d[cur]
            if isinstance(cur, str):
                out.add(cur)
        elif it["k"] == "sub":
            if it["reps"] != 0 or True:
                out |= _free_symbols(it["body"], [it["params"]] + chain)
    return out


def _records_table(branches, keys):
    got = {}
    for p, script, res, prng in branches:
        rec = {}
        for k in keys:
            if k not in res.records:
                raise Violation(f"key {k!r} missing from the records of the wrapped circuit (has {sorted(res.records)})")
            a = np.asarray(res.records[k])
            rec[k] = tuple(tuple(int(x) for x in inst) for inst in a[0])
        extra = set(res.records) - set(keys)
        if extra:
            raise Violation(f"unexpected keys {sorted(extra)} in the records (unrolled form has {sorted(keys)})")
        kk = RI.records_key(rec)
        got[kk] = got.get(kk, 0.0) + p
    return got


def _make_sim(kind, prng):
    if kind == "dm":
        return cirq.DensityMatrixSimulator(seed=prng, dtype=np.complex128)
    return cirq.Simulator(seed=prng, dtype=np.complex128, split_untangled_states=(kind == "sv"))


def oracle_keys(r):
    qs = _qubits(r)
    n = r["n"]
    flat, measured, widths = _flat_reference(r)
    if not measured:
        raise Reject("no measurement")
    ops = _build_items(r["items"], qs)
    circuit = cirq.resolve_parameters(cirq.Circuit(ops), cirq.ParamResolver(r["top_params"]))
    try:
        ref = RI.run(flat, [2] * n, max_branches=512)
    except OverflowError:
        raise Reject("too many branches")
    want = RI.distribution(ref)
    # key sets
    got_keys = set(cirq.measurement_key_names(circuit))
    if got_keys != measured:
        raise Violation(f"measurement_key_names(wrapped) = {sorted(got_keys)} but the unrolled form measures {sorted(measured)}")
    if not cirq.is_measurement(circuit):
        raise Violation("is_measurement(wrapped circuit) is False")

    def check(what, circ):
        def run(prng):
            return _make_sim(r["sim"], prng).run(circ, repetitions=1)

        try:
            br = enumerate_branches(run, max_branches=400, branch_vectors=2)
        except OverflowError:
            raise Reject("too many branches")
        got = _records_table(br, measured)
        for k in set(got) | set(want):
            if abs(got.get(k, 0) - want.get(k, 0)) > 1e-6:
                raise Violation(f"{what}: P[{k}] = {got.get(k, 0):.6g}, unrolled reference gives {want.get(k, 0):.6g}")

    check(f"{r['sim']}.run(wrapped)", circuit)
    variants = [
        ("decompose", cirq.Circuit(cirq.decompose(circuit, keep=lambda op: not isinstance(op.untagged, cirq.CircuitOperation)))),
        ("unroll_circuit_op(deep)", cirq.unroll_circuit_op(circuit, deep=True, tags_to_check=None)),
    ]
    for it, op in zip(r["items"], circuit.all_operations()):
        pass
    for name, c2 in variants:
        if any(isinstance(op.untagged, cirq.CircuitOperation) for op in c2.all_operations()):
            raise Violation(f"{name} left a CircuitOperation in the circuit")
        k2 = set(cirq.measurement_key_names(c2))
        if k2 != measured:
            raise Violation(f"{name}: measurement keys {sorted(k2)} != unrolled form {sorted(measured)}")
        check(f"{r['sim']}.run({name}(wrapped))", c2)
    f = _features(r)
    f["n_keys"] = min(len(measured), 4)
    f["qualified_keys"] = any(":" in k for k in measured)
    return f


# ------------------------------------------------------------------------------------------------ repeat_until


@st.composite
def _until_case(draw):
    n = draw(st.integers(1, 2))
    e = draw(st.sampled_from([0.5, 0.25, 0.75, 1.0, 0.6]))
    body_gate = draw(st.sampled_from(["XPow", "YPow", "HPow"]))
    cond = draw(st.sampled_from(["key", "eq1", "bitmask"]))
    return {"n": n, "e": e, "gate": body_gate, "cond": cond, "names": list(draw(st.permutations([0, 1, 2])))[:n],
            "kmap": draw(st.booleans()), "pre_x": draw(st.booleans()), "sim": draw(st.sampled_from(["sv", "sv_nosplit", "dm"])),
            "post_control": draw(st.booleans())}


def oracle_until(r):
    """repeat_until: loop the body until the condition holds (checked after each iteration, at least one iteration)."""
    qs = [cirq.LineQubit(k) for k in r["names"]]
    q = qs[0]
    gate = getattr(cirq, {"XPow": "XPowGate", "YPow": "YPowGate", "HPow": "HPowGate"}[r["gate"]])(exponent=r["e"])
    key_in = "m"
    key_out = "z" if r["kmap"] else "m"
    if r["cond"] == "key":
        cond = cirq.KeyCondition(cirq.MeasurementKey(key_in))
    elif r["cond"] == "eq1":
        cond = cirq.SympyCondition(sympy.Eq(sympy.Symbol(key_in), 1))
    else:
        cond = cirq.BitMaskKeyCondition(key_in, bitmask=1, target_value=1, equal_target=True)
    body = cirq.FrozenCircuit(gate.on(q), cirq.measure(q, key=key_in))
    op = cirq.CircuitOperation(body, repeat_until=cond, measurement_key_map={key_in: key_out} if r["kmap"] else None)
    pre = [cirq.X(q)] if r["pre_x"] else []
    post = []
    if r["post_control"] and len(qs) > 1:
        post = [cirq.X(qs[1]).with_classical_controls(key_out), cirq.measure(qs[1], key="w")]
    circuit = cirq.Circuit(pre, op, post)
    u = cirq.unitary(gate)
    # reference: iterate; state of q after a measurement outcome b is |b>
    p_stop = {}
    for b in (0, 1):
        v = u @ np.eye(2)[:, b]
        p_stop[b] = abs(v[1]) ** 2  # probability to measure 1 when starting from |b>
    start = 1 if r["pre_x"] else 0
    want = {}
    # state machine: before iteration the qubit is |cur>
    MAXIT = 24
    mass = {start: 1.0}
    hist = {(): (start, 1.0)}
    frontier = [((), start, 1.0)]
    lost = 0.0
    for it in range(MAXIT):
        nxt = []
        for rec, cur, p in frontier:
            p1 = p_stop[cur]
            if p * p1 > 1e-15:
                want[rec + (1,)] = want.get(rec + (1,), 0.0) + p * p1
            if p * (1 - p1) > 1e-15:
                nxt.append((rec + (0,), 0, p * (1 - p1)))
        frontier = nxt
    lost = sum(p for _, _, p in frontier)

    class _Deep(Exception):
        pass

    def run(prng):
        if len(prng.script) > MAXIT + 2:
            raise _Deep()
        sim = cirq.DensityMatrixSimulator(seed=prng, dtype=np.complex128) if r["sim"] == "dm" else cirq.Simulator(
            seed=prng, dtype=np.complex128, split_untangled_states=(r["sim"] == "sv"))
        orig_branch = prng._branch

        def guarded(probs):
            if prng.pos > MAXIT:
                raise _Deep()
            return orig_branch(probs)

        prng._branch = guarded
        return sim.run(circuit, repetitions=1)

    got = {}
    stack = [[]]
    from vf.prng import ScriptedPRNG, EPS

    explored = 0
    while stack:
        prefix = stack.pop()
        prng = ScriptedPRNG(prefix)
        try:
            res = run(prng)
        except _Deep:
            res = None
        explored += 1
        if explored > 400:
            raise Reject("too many branches")
        for i in range(len(prefix), len(prng.log)):
            e = prng.log[i]
            for alt in range(len(e["p"])):
                if alt != e["k"] and e["p"][alt] > EPS:
                    stack.append(prng.script[:i] + [alt])
        if res is None:
            continue
        a = np.asarray(res.records[key_out])
        rec = tuple(int(x) for x in a[0, :, 0])
        if post:
            w = int(np.asarray(res.records["w"])[0, 0, 0])
            if w != 1:  # loop ends with key == 1, so the controlled X always fires
                raise Violation(f"operation controlled by the loop's key after repeat_until did not fire (w={w}, records {rec})")
        got[rec] = got.get(rec, 0.0) + prng.probability
    for k in set(got) | set(want):
        if abs(got.get(k, 0) - want.get(k, 0)) > 1e-6 + lost:
            raise Violation(f"repeat_until: P[records {k}] = {got.get(k, 0):.6g}, reference loop gives {want.get(k, 0):.6g}")
    for k in got:
        if k[-1] != 1 or any(x != 0 for x in k[:-1]):
            raise Violation(f"repeat_until produced records {k}: the loop must stop exactly at the first iteration whose condition holds")
    return {"nontrivial": len(want) >= 3, "kmap": r["kmap"], "cond": r["cond"]}


# The whole sub-check is one known finding (see known_findings.json, C06-F17): excluded from generation while listed.
def _has_csub(items):
    return any(it["k"] == "sub" and (it.get("conds") or _has_csub(it["body"])) for it in items)


def _feat_unroll_stale_extern(sub_name, recipe):
    """a sub-circuit whose keys get a path prefix (explicit parent_path or repetition ids) that contains a classically
    controlled sub-circuit, nested inside a sub-circuit with a measurement-key map"""
    if sub_name != "keys_distribution":
        return False

    def walk(items, under_kmap):
        for it in items:
            if it["k"] != "sub":
                continue
            if under_kmap and (it["ppath"] or it["ids"]) and _has_csub(it["body"]):
                return True
            if walk(it["body"], under_kmap or bool(it["kmap"])):
                return True
        return False

    return walk(recipe["items"], False)


def _feat_unroll_deep_scope(sub_name, recipe):
    """a repeated sub-circuit without repetition ids / parent path, nested inside another sub-circuit, whose body controls on a
    key name that the same body also measures: the control is lexically bound outside the loop (wrapped run, mapped_circuit and
    cirq.decompose agree), but unroll_circuit_op(deep=True) flattens the inner loop first, so later iterations bind to the
    loop's own measurement"""
    if sub_name != "keys_distribution":
        return False

    def walk(items, depth):
        for it in items:
            if it["k"] != "sub":
                continue
            if depth >= 1 and not it["ids"] and not it["ppath"] and abs(it["reps"]) >= 2:
                meas = {x["key"] for x in it["body"] if x["k"] == "m"}
                ctrl = {c["key"] for x in it["body"] if x["k"] in ("cg", "sub") for c in (x.get("conds") or [])}
                if meas & ctrl:
                    return True
            if walk(it["body"], depth + 1):
                return True
        return False

    return walk(recipe["items"], 0)


KNOWN_FEATURES = {
    "C12_unroll_greedy_earliest_reorders": lambda sub, recipe: sub == "unroll_greedy_earliest",
    "C12_unroll_deep_stale_extern_keys": _feat_unroll_stale_extern,
    "C12_unroll_deep_loses_loop_scope": _feat_unroll_deep_scope,
}

def _documented_rejections(oracle):
    """CircuitOperation.with_measurement_key_mapping documents a ValueError when a key map merges two measurement keys of a
    (nested) sub-circuit; an outer key map is applied to inner CircuitOperations lazily, so it can surface anywhere."""

    def wrapped(r):
        try:
            return oracle(r)
        except ValueError as e:
            import traceback

            # judged by where it was raised, not by the wording of the message
            if any(fr.name == "with_measurement_key_mapping" for fr in traceback.extract_tb(e.__traceback__)):
                raise Reject("documented ValueError: key map merges two keys of a nested sub-circuit")
            raise

    return wrapped


oracle_keys = _documented_rejections(oracle_keys)

SUBCHECKS = [
    SubCheck("unitary", _case(measure=False), oracle_unitary, quick=1200, thorough=20000, shards_quick=6,
             frozen_keys=("names", "perm", "n")),
    SubCheck("unroll_greedy_earliest", _case(measure=False), oracle_unroll_greedy_earliest, quick=60, thorough=2000, shards_quick=1, shards_thorough=2,
             frozen_keys=("names", "perm", "n")),
    SubCheck("keys_distribution", _keys_case(), oracle_keys, quick=2400, thorough=30000, shards_quick=8,
             frozen_keys=("names", "perm", "n")),
    SubCheck("repeat_until", _until_case(), oracle_until, quick=300, thorough=5000, shards_quick=2),
]
