"""C01 — unitary simulation equals the ordered product of operation matrices."""
from __future__ import annotations

import itertools

import numpy as np
from hypothesis import strategies as st

import cirq
from vf.core import Reject, SubCheck, Violation
from vf.gen import circuits as GC
from vf.gen import gates as G
from vf.ref import linalg as L

RULE = (
    "Hypothesis draws a circuit recipe (1-4 wires quick / 1-6 thorough, qubits or qudits, gates from the whole unitary "
    "gate table with special+continuous parameters, every insert strategy, explicit empty moments), a qubit order "
    "(permutation of the wires + optional idle wire), an initial state (basis int / product state / full vector / tensor) "
    "and simulator options. Oracle: independent numpy embedding of cirq.unitary(op) on the op's axes, multiplied in "
    "all_operations() order. Non-trivial: >=2 operations whose embedded matrices do not commute AND (a multi-qubit "
    "op on non-adjacent or non-ascending axes of the chosen order, or a qudit wire). Distinct = distinct recipe hash."
)
ASSUMPTIONS = [
    "cirq.unitary(op) is taken as the matrix of each single operation (C03/C04 decide that); composition, axis handling, "
    "ordering, initial-state handling and options are recomputed independently",
    "tolerances: complex128 1e-7*(1+depth), complex64 2e-5*(1+depth)",
]

KETS = {
    "0": np.array([1, 0], dtype=complex), "1": np.array([0, 1], dtype=complex),
    "+": np.array([1, 1], dtype=complex) / np.sqrt(2), "-": np.array([1, -1], dtype=complex) / np.sqrt(2),
    "i": np.array([1, 1j], dtype=complex) / np.sqrt(2), "-i": np.array([1, -1j], dtype=complex) / np.sqrt(2),
}
KET_OBJ = {"0": "KET_ZERO", "1": "KET_ONE", "+": "KET_PLUS", "-": "KET_MINUS", "i": "KET_IMAG", "-i": "KET_MINUS_IMAG"}


def _tol(dtype, depth):
    return (2e-5 if dtype == "c64" else 1e-7) * (1 + depth)


@st.composite
def _case(draw, max_w=4, max_ops=10, qudits=None):
    if qudits is None:
        qudits = draw(st.integers(0, 3)) == 0
    r = draw(GC.circuit_recipes(max_w=max_w, max_ops=max_ops, qudits=qudits, min_ops=1, wrappers=True))
    n = len(r["dims"])
    idle = draw(st.integers(0, 4)) == 0 and n < 6
    if idle:
        r["dims"] = r["dims"] + [2]
        r["names"] = r["names"] + [max(r["names"]) + 1]
    m = len(r["dims"])
    r["order"] = list(draw(st.permutations(list(range(m)))))
    kind = draw(st.sampled_from(["int", "vector", "tensor", "product", "default"]))
    D = L.dim(r["dims"])
    if kind == "int":
        r["init"] = {"kind": "int", "v": draw(st.integers(0, D - 1))}
    elif kind in ("vector", "tensor"):
        r["init"] = {"kind": kind, "v": draw(st.lists(G.small_floats(), min_size=2 * D, max_size=2 * D))}
    elif kind == "product" and all(d == 2 for d in r["dims"]):
        r["init"] = {"kind": "product", "v": draw(st.lists(st.sampled_from(list(KETS)), min_size=m, max_size=m))}
    else:
        r["init"] = {"kind": "default"}
    r["dtype"] = draw(st.sampled_from(["c128", "c128", "c64"]))
    r["split"] = draw(st.booleans())
    return r


def _prepare(r):
    circuit, qs = GC.build_circuit(r)
    order = [qs[i] for i in r["order"]]
    shape = [r["dims"][i] for i in r["order"]]
    D = L.dim(shape)
    ops = []
    for op in circuit.all_operations():
        u = cirq.unitary(op, None)
        if u is None:
            raise Reject("op without unitary")
        ops.append((u, [order.index(q) for q in op.qubits]))
    init = r["init"]
    if init["kind"] == "int":
        psi0 = L.basis_vector(init["v"], D)
        arg = init["v"]
    elif init["kind"] in ("vector", "tensor"):
        psi0 = L.state_from_floats(init["v"], D)
        arg = psi0.copy() if init["kind"] == "vector" else psi0.copy().reshape(shape)
    elif init["kind"] == "product":
        # product state is given per *qubit* (wire), independent of the order
        per = {qs[i]: init["v"][i] for i in range(len(qs))}
        psi0 = L.kron_all([KETS[per[q]] for q in order]).reshape(-1)
        ps = None
        for q in qs:
            f = getattr(cirq, KET_OBJ[per[q]])(q)
            ps = f if ps is None else ps * f
        arg = ps
    else:
        psi0 = L.basis_vector(0, D)
        arg = None
    return circuit, qs, order, shape, ops, psi0, arg


def _nontrivial(r, ops, shape):
    mats = [L.embed(u, ax, shape) for u, ax in ops[:8]] if L.dim(shape) <= 64 else []
    noncomm = False
    for a, b in itertools.combinations(range(len(mats)), 2):
        if not np.allclose(mats[a] @ mats[b], mats[b] @ mats[a], atol=1e-9):
            noncomm = True
            break
    layout = any(len(ax) >= 2 and (list(ax) != sorted(ax) or max(ax) - min(ax) != len(ax) - 1) for _, ax in ops)
    qudit = any(d != 2 for d in shape)
    return {"nontrivial": bool(noncomm and (layout or qudit)), "noncommuting": noncomm, "odd_layout": layout, "qudit": qudit,
            "has_zero_qubit_op": any(len(ax) == 0 for _, ax in ops), "controlled": any(o.get("ctl") for o in r["ops"]),
            "qudit_control": any(r["dims"][i] > 2 for o in r["ops"] if o.get("ctl") for i in o["ctl"]["w"]),
            "qudit_pow": any(o["g"][0] in GC.QUDIT_POW for o in r["ops"])}


def _cmp(what, got, want, tol, phase=False):
    got = np.asarray(got)
    want = np.asarray(want)
    if got.shape != want.shape:
        raise Violation(f"{what}: shape {got.shape} != expected {want.shape}")
    d = L.diff_up_to_phase(got, want) if phase else L.max_abs_diff(got, want)
    if not d <= tol:
        raise Violation(f"{what}: differs from ordered matrix product by {d:.3g} (tol {tol:.1g})")


def oracle_entrypoints(r):
    circuit, qs, order, shape, ops, psi0, arg = _prepare(r)
    D = L.dim(shape)
    depth = len(ops)
    psi = L.apply_ops_to_vector(ops, shape, psi0)
    rho = np.outer(psi, psi.conj())
    dt = np.complex64 if r["dtype"] == "c64" else np.complex128
    tol = _tol(r["dtype"], depth)
    labels = _nontrivial(r, ops, shape)
    labels["init"] = r["init"]["kind"]

    # 1. circuit unitary
    U = L.circuit_unitary(ops, shape)
    _cmp("Circuit.unitary(qubit_order)", circuit.unitary(qubit_order=order, dtype=np.complex128), U, 1e-7 * (1 + depth))
    if r["order"] == sorted(r["order"]) or True:
        # cirq.unitary(circuit) uses the default (sorted) order: compare through the permutation
        if len(circuit.all_qubits()) == len(order):
            srt = sorted(order)
            shape_s = [shape[order.index(q)] for q in srt]
            ops_s = [(u, [srt.index(order[a]) for a in ax]) for u, ax in ops]
            _cmp("cirq.unitary(circuit)", cirq.unitary(circuit), L.circuit_unitary(ops_s, shape_s), 1e-7 * (1 + depth))

    # 2. final_state_vector (method + function)
    kw = {} if arg is None else {"initial_state": arg}
    if r["init"]["kind"] != "product":
        fsv = circuit.final_state_vector(qubit_order=order, dtype=dt, ignore_terminal_measurements=False, **kw)
        _cmp("Circuit.final_state_vector", fsv, psi, tol)
    _cmp("cirq.final_state_vector", cirq.final_state_vector(circuit, qubit_order=order, dtype=dt, **kw), psi, tol)

    # 3. state-vector simulator
    sim = cirq.Simulator(dtype=dt, split_untangled_states=r["split"])
    res = sim.simulate(circuit, qubit_order=order, **kw)
    _cmp(f"Simulator(split={r['split']}).simulate final_state_vector", res.final_state_vector, psi, tol)
    # step-by-step: prefix products per moment
    psi_m = psi0
    steps = sim.simulate_moment_steps(circuit, qubit_order=order, **kw)  # lazily: step results are mutated in place
    if len(circuit) == 0:
        # documented: an empty circuit still yields one step holding the initial state
        steps = list(steps)
        if len(steps) != 1:
            raise Violation(f"simulate_moment_steps of an empty circuit yields {len(steps)} steps")
        _cmp("simulate_moment_steps (empty circuit) state_vector", steps[0].state_vector(copy=True), psi0, tol)
        steps = []
    for k, (step, moment) in enumerate(itertools.zip_longest(steps, circuit)):
        if step is None or moment is None:
            raise Violation("simulate_moment_steps yields a different number of steps than the circuit has moments")
        mops = [(cirq.unitary(op), [order.index(q) for q in op.qubits]) for op in moment.operations]
        psi_m = L.apply_ops_to_vector(mops, shape, psi_m)
        _cmp(f"simulate_moment_steps step {k} state_vector", step.state_vector(copy=True), psi_m, tol)

    # 4. density-matrix simulator
    dm = cirq.DensityMatrixSimulator(dtype=dt, split_untangled_states=r["split"])
    if r["init"]["kind"] != "product" or True:
        resd = dm.simulate(circuit, qubit_order=order, **kw)
        _cmp(f"DensityMatrixSimulator(split={r['split']}).simulate final_density_matrix", resd.final_density_matrix, rho, tol)
    _cmp("cirq.final_density_matrix", cirq.final_density_matrix(circuit, qubit_order=order, dtype=dt, **kw), rho, tol)
    return labels


# ----------------------------------------------------------------------------- metamorphic: qubit order / init forms


def oracle_order_metamorphic(r):
    """Permuting the qubit order permutes amplitudes; equivalent initial-state forms give equal results."""
    circuit, qs, order, shape, ops, psi0, arg = _prepare(r)
    depth = len(ops)
    kw = {} if arg is None else {"initial_state": arg}
    sim = cirq.Simulator(dtype=np.complex128, split_untangled_states=r["split"])
    a = sim.simulate(circuit, qubit_order=order, **kw).final_state_vector
    # the same physical initial state expressed in wire order
    inv = [r["order"].index(i) for i in range(len(qs))]  # wire i sits at position inv[i] of `order`
    psi0_w = L.permute_vector(psi0, shape, inv)
    b = sim.simulate(circuit, qubit_order=qs, initial_state=psi0_w).final_state_vector
    shape_w = list(r["dims"])
    b_in_order = L.permute_vector(b, shape_w, r["order"])
    _cmp("qubit-order metamorphic (Simulator)", b_in_order, a, 1e-7 * (1 + depth))
    d1 = cirq.DensityMatrixSimulator(dtype=np.complex128, split_untangled_states=not r["split"]).simulate(
        circuit, qubit_order=qs, initial_state=psi0_w).final_density_matrix
    want = np.outer(b, b.conj())
    _cmp("DensityMatrixSimulator vs Simulator (same order)", d1, want, 1e-7 * (1 + depth))
    # density matrix initial state given as a matrix
    D = L.dim(shape_w)
    d2 = cirq.DensityMatrixSimulator(dtype=np.complex128, split_untangled_states=r["split"]).simulate(
        circuit, qubit_order=qs, initial_state=np.outer(psi0_w, psi0_w.conj())).final_density_matrix
    _cmp("DensityMatrixSimulator initial density matrix form", d2, want, 1e-7 * (1 + depth))
    lab = _nontrivial(r, ops, shape)
    lab["nontrivial"] = lab["nontrivial"] and r["order"] != sorted(r["order"])
    return lab


# ----------------------------------------------------------------------------- sweeps with prefix reuse


@st.composite
def _sweep_case(draw, max_w=4, max_ops=8):
    r = draw(GC.circuit_recipes(max_w=max_w, max_ops=max_ops, min_ops=1))
    m = len(r["dims"])
    r["order"] = list(draw(st.permutations(list(range(m)))))
    n = len(r["ops"])
    # which ops get a symbolic exponent (only eigen families), index of symbol
    # exact SWAPs (the product-state relabelling fast path) sprinkled between the other operations
    if m >= 2:
        for _ in range(draw(st.integers(0, 3))):
            pos = draw(st.integers(0, len(r["ops"])))
            w = list(draw(st.permutations(list(range(m)))))[:2]
            r["ops"].insert(pos, {"g": ["SwapPow", {"e": draw(st.sampled_from([1.0, 1.0, 3.0, -1.0])), "s": 0.0}], "w": w, "ins": 0})
        n = len(r["ops"])
    r["sym"] = [draw(st.sampled_from([0, 0, 0, 0, 1, 2, 3])) for _ in range(n)]  # mostly numeric: long unparameterized prefixes
    r["resolvers"] = draw(st.lists(st.fixed_dictionaries({"a": G.exponents(), "b": G.exponents()}), min_size=0 if draw(st.integers(0, 7)) == 0 else 1, max_size=3))
    r["split"] = draw(st.booleans())
    r["dm"] = draw(st.booleans())
    return r


def oracle_sweep(r):
    import sympy

    syms = {1: sympy.Symbol("a"), 2: sympy.Symbol("b"), 3: sympy.Symbol("a") + sympy.Symbol("b") / 2}
    qs = GC.qubits_of(r)
    order = [qs[i] for i in r["order"]]
    shape = [r["dims"][i] for i in r["order"]]
    c = cirq.Circuit()
    nsym = 0
    first_sym_moment = None
    for o, s in zip(r["ops"], r["sym"]):
        fam = G.FAMILIES[o["g"][0]]
        op = GC.build_op(r, o)
        if s and "eigen" in fam.tags:
            g = type(op.gate)(exponent=syms[s] * 1.0, global_shift=o["g"][1]["s"])
            op = g.on(*op.qubits)
            nsym += 1
        c.append(op, strategy=getattr(cirq.InsertStrategy, GC.INS[o.get("ins", 0)]))
    sweep = cirq.ListSweep([cirq.ParamResolver(d) for d in r["resolvers"]]) if r["resolvers"] else cirq.ListSweep([])
    Sim = cirq.DensityMatrixSimulator if r["dm"] else cirq.Simulator
    sim = Sim(dtype=np.complex128, split_untangled_states=r["split"])
    if not r["resolvers"]:
        if nsym:
            raise Reject("no resolver for parameterised circuit")
        res = sim.simulate_sweep(c, params=None, qubit_order=order)
        resolvers = [cirq.ParamResolver({})]
    else:
        res = sim.simulate_sweep(c, params=sweep, qubit_order=order)
        resolvers = list(sweep)
    if len(res) != len(resolvers):
        raise Violation(f"simulate_sweep returned {len(res)} results for {len(resolvers)} resolvers")
    pref = 0
    for m in c:
        if cirq.is_parameterized(m):
            break
        pref += 1
    for i, (one, pr) in enumerate(zip(res, resolvers)):
        rc = cirq.resolve_parameters(c, pr)
        ops = [(cirq.unitary(op), [order.index(q) for q in op.qubits]) for op in rc.all_operations()]
        psi = L.apply_ops_to_vector(ops, shape, L.basis_vector(0, L.dim(shape)))
        tol = 1e-7 * (1 + len(ops))
        if r["dm"]:
            _cmp(f"simulate_sweep[{i}] density matrix", one.final_density_matrix, np.outer(psi, psi.conj()), tol)
        else:
            _cmp(f"simulate_sweep[{i}] state vector", one.final_state_vector, psi, tol)
        if dict(one.params.param_dict) != dict(pr.param_dict):
            raise Violation(f"simulate_sweep[{i}] carries params {one.params} expected {pr}")
    return {"nontrivial": nsym > 0 and len(resolvers) >= 2 and 0 < pref < len(c), "prefix_moments": min(pref, 3),
            "n_resolvers": len(resolvers), "parameterised": nsym > 0}


# ----------------------------------------------------------------------------- classical simulator

CLASSICAL = ["X", "CNOT", "SWAP", "CCX", "CSWAP", "PERM", "CCCX", "X2", "X3", "CX0", "XNEG", "I", "MEASURE_MID", "XSOP", "SWAPSOP", "XPOS"]
SOPS = [[[0, 1], [1, 0]], [[0, 0], [1, 1]], [[1, 1]], [[0, 1]], [[0, 0], [0, 1], [1, 0]]]
POSS = [[[0, 1], [1]], [[0], [0, 1]], [[1], [0]], [[0, 1], [0, 1]]]


@st.composite
def _classical_case(draw, max_w=5, max_ops=10):
    n = draw(st.integers(1, max_w))
    names = list(draw(st.permutations(list(range(n + 2)))))[:n]
    ops = []
    for _ in range(draw(st.integers(1, max_ops))):
        k = draw(st.sampled_from(CLASSICAL))
        ar = {"X": 1, "X2": 1, "X3": 1, "XNEG": 1, "I": 1, "CNOT": 2, "CX0": 2, "SWAP": 2, "CCX": 3, "CSWAP": 3, "CCCX": 4, "MEASURE_MID": 1, "XSOP": 3, "SWAPSOP": 4, "XPOS": 3}.get(k)
        if k == "PERM":
            ar = draw(st.integers(1, min(4, n)))
            w = list(draw(st.permutations(list(range(n)))))[:ar]
            ops.append({"k": k, "w": w, "perm": list(draw(st.permutations(list(range(ar)))))})
            continue
        if ar > n:
            continue
        o = {"k": k, "w": list(draw(st.permutations(list(range(n)))))[:ar]}
        if k in ("XSOP", "SWAPSOP"):
            o["sop"] = draw(st.sampled_from(SOPS))
        if k == "XPOS":
            o["pos"] = draw(st.sampled_from(POSS))
        ops.append(o)
    init = draw(st.integers(0, 2 ** n - 1))
    return {"n": n, "names": names, "ops": ops, "init": init, "init_form": draw(st.sampled_from(["int", "list"])),
            "order": list(draw(st.permutations(list(range(n)))))}


def _classical_op(k, qs, perm=None, o=None):
    if k == "XSOP":
        return cirq.X(qs[2]).controlled_by(qs[0], qs[1], control_values=cirq.SumOfProducts([tuple(p) for p in o["sop"]]))
    if k == "SWAPSOP":
        return cirq.SWAP(qs[2], qs[3]).controlled_by(qs[0], qs[1], control_values=cirq.SumOfProducts([tuple(p) for p in o["sop"]]))
    if k == "XPOS":
        return cirq.X(qs[2]).controlled_by(qs[0], qs[1], control_values=[tuple(v) for v in o["pos"]])
    if k == "X":
        return cirq.X(qs[0])
    if k == "X2":
        return (cirq.X ** 2).on(qs[0])
    if k == "X3":
        return (cirq.X ** 3).on(qs[0])
    if k == "XNEG":
        return (cirq.X ** -1).on(qs[0])
    if k == "I":
        return cirq.I(qs[0])
    if k == "CNOT":
        return cirq.CNOT(*qs)
    if k == "CX0":
        return cirq.X(qs[1]).controlled_by(qs[0], control_values=[0])
    if k == "SWAP":
        return cirq.SWAP(*qs)
    if k == "CCX":
        return cirq.CCX(*qs)
    if k == "CSWAP":
        return cirq.CSWAP(*qs)
    if k == "CCCX":
        return cirq.X(qs[3]).controlled_by(*qs[:3])
    if k == "PERM":
        return cirq.QubitPermutationGate(perm).on(*qs)
    raise KeyError(k)


def oracle_classical(r):
    n = r["n"]
    qs = [cirq.LineQubit(k) for k in r["names"]]
    order = [qs[i] for i in r["order"]]
    c = cirq.Circuit()
    ops = []
    nmid = 0
    for o in r["ops"]:
        if o["k"] == "MEASURE_MID":
            c.append(cirq.measure(qs[o["w"][0]], key=f"mid{nmid}"))
            nmid += 1
            continue
        op = _classical_op(o["k"], [qs[i] for i in o["w"]], o.get("perm"), o)
        c.append(op)
        ops.append((cirq.unitary(op), [order.index(q) for q in op.qubits]))
    c.append(cirq.measure(*order, key="final"))
    shape = [2] * n
    psi = L.apply_ops_to_vector(ops, shape, L.basis_vector(r["init"], 2 ** n))
    nz = np.flatnonzero(np.abs(psi) > 1e-9)
    if len(nz) != 1:
        raise Reject("not classical")
    want_bits = L.index_to_digits(int(nz[0]), shape)
    init = r["init"] if r["init_form"] == "int" else L.index_to_digits(r["init"], shape)
    sim = cirq.ClassicalStateSimulator()
    res = sim.simulate(c, qubit_order=order, initial_state=init)
    got = [int(b) for b in res.measurements["final"]]
    if got != want_bits:
        raise Violation(f"ClassicalStateSimulator.simulate final measurement {got} != matrix product result {want_bits}")
    if r["init"] == 0:
        rr = sim.run(c, repetitions=2)
        for row in rr.records["final"][:, 0, :]:
            if [int(b) for b in row] != want_bits:
                raise Violation(f"ClassicalStateSimulator.run record {list(row)} != matrix product result {want_bits}")
    # cross-check with the state-vector simulator too
    sv = cirq.Simulator(dtype=np.complex128).simulate(c, qubit_order=order, initial_state=r["init"])
    if [int(b) for b in sv.measurements["final"]] != want_bits:
        raise Violation("Simulator.simulate measurement of a classical circuit differs from the matrix product")
    kinds = {o["k"] for o in r["ops"]}
    return {"nontrivial": len(ops) >= 2 and bool(kinds & {"PERM", "CSWAP", "CCX", "CNOT", "CX0", "CCCX", "SWAP", "XSOP", "SWAPSOP", "XPOS"}) and r["init"] != 0,
            "has_perm": "PERM" in kinds, "has_ctrl0": "CX0" in kinds, "has_sop": bool(kinds & {"XSOP", "SWAPSOP"})}


def oracle_classical_rejects(r):
    """Gates outside the classical vocabulary must raise ValueError, never produce an answer."""
    g = G.build_gate(r["g"])
    k = cirq.num_qubits(g)
    qs = cirq.LineQubit.range(max(k, 1))
    op = g.on(*qs[:k])
    u = cirq.unitary(op)
    # classical iff permutation matrix (0/1 entries)
    is_perm = np.allclose(np.abs(u) ** 2, np.abs(u)) and np.allclose(u.imag, 0) and np.allclose(u, np.round(u.real))
    c = cirq.Circuit(cirq.X(qs[0]), op, cirq.measure(*qs[:max(k, 1)], key="m"))
    try:
        res = cirq.ClassicalStateSimulator().simulate(c, qubit_order=qs[:max(k, 1)], initial_state=0)
    except ValueError:
        return {"nontrivial": not is_perm, "rejected": True}
    shape = [2] * max(k, 1)
    psi = L.apply_ops_to_vector([(cirq.unitary(cirq.X), [0]), (u, list(range(k)))], shape, L.basis_vector(0, 2 ** max(k, 1)))
    nz = np.flatnonzero(np.abs(psi) > 1e-9)
    got = [int(b) for b in res.measurements["m"]]
    if len(nz) != 1 or abs(abs(psi[nz[0]]) - 1) > 1e-9:
        raise Violation(f"ClassicalStateSimulator accepted non-classical gate {g!r} and answered {got}")
    if got != L.index_to_digits(int(nz[0]), shape):
        raise Violation(f"ClassicalStateSimulator answered {got} for {g!r}, matrix gives {L.index_to_digits(int(nz[0]), shape)}")
    return {"nontrivial": False, "accepted": True}


SUBCHECKS = [
    SubCheck("entrypoints", _case(), oracle_entrypoints, quick=4800, thorough=60000, shards_quick=8, shards_thorough=16,
             essential={"odd_layout": 0.15, "noncommuting": 0.3}),
    SubCheck("entrypoints_wide", _case(max_w=6, max_ops=24, qudits=False), oracle_entrypoints, quick=300, thorough=6000,
             shards_quick=2, shards_thorough=16),
    SubCheck("order_metamorphic", _case(), oracle_order_metamorphic, quick=1000, thorough=12000, shards_quick=2),
    SubCheck("sweep_prefix", _sweep_case(), oracle_sweep, quick=1600, thorough=16000, shards_quick=3),
    SubCheck("classical", _classical_case(), oracle_classical, quick=1500, thorough=40000, shards_quick=1, shards_thorough=8),
    SubCheck("classical_rejects", st.fixed_dictionaries({"g": G.gate_recipes(lambda f: f.unitary and not f.qudit and "zeroq" not in f.tags)}),
             oracle_classical_rejects, quick=400, thorough=10000, shards_quick=1, shards_thorough=4),
]
