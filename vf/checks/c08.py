"""C08 — gate algebra (pow / controlled / phase_by) and predicates are sound with respect to matrices."""
from __future__ import annotations

import itertools
import math
import os

import numpy as np
from hypothesis import strategies as st

import cirq
from vf.core import Reject, SubCheck, Violation
from vf.gen import gates as G
from vf.gen import gates_extra as GX
from vf.ref import gates as RG
from vf.ref import linalg as L

RULE = (
    "Six sub-domains. pow: [family, params] from the whole unitary gate table (qubit + qudit) with real powers a, b from the "
    "special+continuous exponent strategy, gate or operation level. controlled: a base gate (<=2 qudits) with 1-2 nested control "
    "specs (num_controls only / ProductOfSums with value sets / SumOfProducts / qudit control dimensions 2-3), built through "
    "gate.controlled, cirq.ControlledGate, op.controlled_by or cirq.ControlledOperation. phase_by: gate, turns, qubit index. "
    "commutes: pairs of gates (same shape) or operations laid out on a <=4 qubit register (disjoint / partly / fully overlapping, "
    "permuted), incl. near-commuting pairs at the scale of atol, atol in {1e-8,1e-6,1e-3}. equality: a gate and a related gate "
    "(same params, exponent + k periods, other shift, perturbation 1e-9..1e-3, PhasedXZ canonical variants, subclass/alias "
    "constructors) for ==/hash/approx_eq/equal_up_to_global_phase. controlled_equality: pairs of ControlledOperation / ControlledGate "
    "values over 1-3 controls of dimension 2-4 whose control values are written independently as ProductOfSums / SumOfProducts "
    "(same expansion in another spelling, strict subsets, SoPs whose per-control columns equal the PoS sums, permuted controls, "
    "unsorted / duplicated rows), same or different sub-gate, plus Moment/Circuit equality built on them. unary: has_stabilizer_effect, trace_distance_bound, "
    "pauli_expansion. Non-trivial: exponent/parameters off the half-integer lattice, a control spec other than all-ones, a pair of "
    "operations sharing some but not all qubits, a related-but-not-identical pair for the equality family."
)
ASSUMPTIONS = [
    "cirq.unitary(base gate) is taken as the matrix of the *base* gate (C03 decides that); powers of EigenGates are compared with the "
    "independent closed forms of vf.ref.gates at exponent e*t; block matrices, embeddings, conjugations, commutators, Pauli "
    "conjugation tests and the eigenvalue-arc formula are computed independently in numpy",
    "commutes True => max|AB-BA| <= 10*atol*dim + 2e-5 (numpy's default rtol is part of 'approximately commute'); a definite False => max|AB-BA| > atol/10; TypeError/None = indeterminate (counted)",
    "approx_eq True => max entry difference <= 2*pi*atol*max(3, #float parameters) + 1e-9 (each compared parameter enters through e^{i k pi x}, "
    "|k| <= 2); equal_up_to_global_phase True => difference after phase alignment <= twice that + 2e-5 (numpy rtol of the matrix fall-back)",
    "tableau-defined gates (CliffordGate family) and BooleanHamiltonianGate have matrices defined up to global phase; their pow laws are "
    "checked up to phase",
    "tolerances: 1e-8 for exact algebraic identities, 1e-7 for products of three matrices",
    "has_stabilizer_effect is checked for soundness only (True => U maps every X_i, Z_i to a signed Pauli string within 5e-5); false "
    "negatives are counted in the label stabilizer_false_negative_1q (F17, judged out of scope)",
]
SENSITIVITY = [
    "EigenGate._with_exponent drops global shift", "EigenGate equal_up_to_global_phase ignores other's exponent",
    "ZPow commutes with any EigenGate", "CZPow.controlled drops control values", "XPow phase_by sign", "CZPow has_stabilizer_effect % 0.5",
    "CXPow trace_distance_bound cos", "ProductOfSums.expand zips instead of product", "ControlledGate nested control values in wrong order",
    "EigenGate equality period 1", "XPow pauli_expansion sign", "PhasedXZ inverse keeps axis",
    "AbstractControlValues.__and__ concatenates in wrong order", "approx_eq tolerance x1000", "PauliString commutes parity",
    "ControlledOperation._extend_matrix ignores last control value", "commutes: disjoint check uses subset",
    "inverse of EigenGate via pow(-1) keeps sign",
]
TOL = 1e-8

# ----------------------------------------------------------------------------- known candidates (see report)


def _f13(sub, r):
    """PhasedXZGate equality is decided on a canonical form that drops a global phase."""
    if sub != "equality":
        return False
    return r.get("a", [None])[0] == "PhasedXZ" and r.get("b", [None])[0] == "PhasedXZ"


def _f15(sub, r):
    """SingleQubitCliffordGate._commutes_ compares tableaux (phase-free): anticommuting Cliffords are reported to commute."""
    if sub != "commutes":
        return False
    return r.get("a", [None])[0] == "SingleQubitClifford" and r.get("b", [None])[0] == "SingleQubitClifford" and r.get("level") == "gate"


def _f19(sub, r):
    """ControlledGate / controlled_by over a (Mutable)DensePauliString with identity positions: .on() drops those qubits."""
    g = r.get("g", [None, {}])
    if g[0] not in ("DensePauli", "MutableDensePauli") or "I" not in g[1].get("ps", []):
        return False
    return sub == "controlled" or (sub == "unary" and r.get("wrap") == "controlled")


# Repaired in /repo while this check was being built (their predicates are gone, their minimal inputs are regression examples):
# F9 Pauli._commutes_ identity test, F16/F16b qudit X/Z controlled, F20 MatrixGate._approx_eq_ shapes, F21 Gate._commutes_ atol,
# F22 cirq_ionq.MSGate equality ignoring theta, F23 PauliInteractionGate approximate equality values, F24 WaitGate equality ignoring
# the qid shape.
# F17 (PhasedXZGate has_stabilizer_effect false negatives) was judged out of scope: the predicate is only checked for soundness.
KNOWN_FEATURES = {"F13_phasedxz_eq_global_phase": _f13, "F15_clifford_commutes_up_to_phase": _f15,
                  "F19_controlled_dense_pauli_identity": _f19}


def _dev_exclude(sub, recipe):
    """Development aid only: VERIF_DEV_EXCLUDE=1 turns the candidate features into rejects (never set in real runs)."""
    if os.environ.get("VERIF_DEV_EXCLUDE"):
        for k, pred in KNOWN_FEATURES.items():
            if pred(sub, recipe):
                raise Reject(f"dev-excluded candidate {k}")


# ----------------------------------------------------------------------------- extra recipes local to C08

_LOCAL = {
    # the module-level Pauli singletons and the non-singleton Pauli instances produced by X**1 etc.
    "PauliConst": lambda p: getattr(cirq, p["p"]),
    "PauliPow1": lambda p: getattr(cirq, p["p"]) ** p["k"],
}
_LOCAL_REF = {
    "PauliConst": lambda p: RG.PAULIS[p["p"]],
    "PauliPow1": lambda p: RG.PAULIS[p["p"]],
}


def build(gr):
    if gr[0] in _LOCAL:
        return _LOCAL[gr[0]](gr[1])
    GX.validate(gr)
    return GX.build_gate(gr)


def shape_of(gr):
    if gr[0] in _LOCAL:
        return (2,)
    return GX.qid_shape(gr)


def _pauli_recipes():
    return st.one_of(st.fixed_dictionaries({"p": st.sampled_from("XYZ")}).map(lambda p: ["PauliConst", p]),
                     st.fixed_dictionaries({"p": st.sampled_from("XYZ"), "k": st.sampled_from([1, 1.0, 3, -1, 5.0])}).map(lambda p: ["PauliPow1", p]))


def _unitary_fam(f):
    return f.unitary


def _qubit_unitary(f):
    return f.unitary and not f.qudit and "zeroq" not in f.tags


_NO_OP_LEVEL = ("DensePauli", "MutableDensePauli")  # their .on() gives a PauliString without the identity positions


def _phase_of(gr):
    if gr[0] in _LOCAL:
        return "exact"
    return RG.reference(gr).phase if gr[0] in RG.REF else "exact"


def _lattice(v):
    return abs(2 * v - round(2 * v)) < 1e-9


def _off_lattice_params(gr):
    p = gr[1]
    return any(isinstance(v, float) and not _lattice(v) and not _lattice(v / math.pi) for v in _flat(p))


def _flat(x):
    if isinstance(x, dict):
        for v in x.values():
            yield from _flat(v)
    elif isinstance(x, (list, tuple)):
        for v in x:
            yield from _flat(v)
    else:
        yield x


def _n_float_params(gr):
    return max(1, sum(1 for v in _flat(gr[1]) if isinstance(v, float)))


def _param_bound(atol, n_params):
    """Largest entry-wise difference of two unitaries whose compared parameters all agree within atol.

    Every compared quantity x enters the documented matrices through factors e^{i k pi x} with |k| <= 2 (e^{2 pi i p} of
    PhasedISwapPowGate / GPI / IonQ MS phases is the steepest; exponents, shifts, canonical eigen-phases have |k| <= 1; radians and
    raw matrix entries have slope <= 1), so each contributes at most 2*pi*atol.  EigenGates are compared through their canonical
    eigen-phases e*(s+theta_k), one per eigen-component (at most 3 for the two-/three-component gates of the table whose projector
    entries are O(1)), hence at least 3 terms.  Comparisons *up to global phase* align the phase on one entry, which can double the
    entry-wise difference: callers use 2*bound there, plus numpy's default rtol=1e-5 used by allclose_up_to_global_phase."""
    return 2 * math.pi * atol * max(3, n_params) + 1e-9


def _cmp(what, got, want, tol=TOL, phase=False):
    got, want = np.asarray(got), np.asarray(want)
    if got.shape != want.shape:
        raise Violation(f"{what}: shape {got.shape} != expected {want.shape}")
    d = L.diff_up_to_phase(got, want) if phase else L.max_abs_diff(got, want)
    if not d <= tol:
        raise Violation(f"{what}: differs by {d:.3g} (tol {tol:.1g}){' up to global phase' if phase else ''}")


def _generic_exp():
    return st.one_of(G.exponents(), st.integers(-4000, 4000).map(lambda k: k / 1000.0))


# ----------------------------------------------------------------------------- 1. pow laws


@st.composite
def _pow_case(draw):
    g = draw(GX.gate_recipes(_unitary_fam, max_arity=3))
    fam = GX.all_families()[g[0]]
    if "eigen" in fam.tags and draw(st.booleans()):
        g = [g[0], dict(g[1], e=draw(_generic_exp()))]
    return {"g": g, "a": draw(_generic_exp()), "b": draw(_generic_exp()), "op": draw(st.booleans()),
            "int_a": draw(st.sampled_from([None, None, None, None, None, None, -1, 2, 3, -2, 0, 1])) if draw(st.booleans()) else None}


def _pow(x, t):
    """cirq.pow with the documented outcomes: a value, or None when the extrapolation is not defined."""
    return cirq.pow(x, t, None)


def oracle_pow(r):
    gr = r["g"]
    g = build(gr)
    fam = GX.all_families()[gr[0]]
    shape = shape_of(gr)
    D = L.dim(shape)
    qs = cirq.LineQid.for_qid_shape(shape)
    x = g.on(*qs) if r["op"] and gr[0] not in _NO_OP_LEVEL else g
    u = cirq.unitary(g)
    upto = _phase_of(gr) == "upto"
    a = r["a"] if r["int_a"] is None else r["int_a"]
    b = r["b"]
    lab = {"family": gr[0], "level": "op" if r["op"] else "gate", "eigen": "eigen" in fam.tags, "qudit": any(d != 2 for d in shape)}
    supported = 0

    def U(y, what):
        if not cirq.has_unitary(y):
            raise Violation(f"{what} of a unitary {gr[0]} has no unitary")
        m = cirq.unitary(y)
        if m.shape != (D, D):
            raise Violation(f"{what}: unitary shape {m.shape} != ({D},{D})")
        if tuple(cirq.qid_shape(y)) != tuple(shape):
            raise Violation(f"{what}: qid_shape {cirq.qid_shape(y)} != {tuple(shape)}")
        return m

    # g**1 == g, g**-1 == g^dagger, inverse protocol
    p1 = _pow(x, 1)
    if p1 is not None:
        _cmp(f"{gr[0]}**1 vs gate", U(p1, "x**1"), u, phase=False)
    inv = _pow(x, -1)
    if inv is not None:
        supported += 1
        _cmp(f"{gr[0]}**-1 vs U^dagger", U(inv, "x**-1"), u.conj().T, phase=upto)
        inv2 = cirq.inverse(x, None)
        if inv2 is None:
            raise Violation(f"{gr[0]}: x**-1 exists but cirq.inverse(x) is undefined")
        _cmp(f"cirq.inverse({gr[0]}) vs U^dagger", U(inv2, "inverse"), u.conj().T, phase=upto)
    lab["has_inverse"] = inv is not None
    p0 = _pow(x, 0)
    if p0 is not None:
        _cmp(f"{gr[0]}**0 vs identity", U(p0, "x**0"), np.eye(D), phase=upto)
    pa = _pow(x, a)
    pb = _pow(x, b)
    pab = _pow(x, a + b)
    lab["pow_defined"] = pa is not None
    if pa is not None:
        supported += 1
        ua = U(pa, "x**a")
        if "eigen" in fam.tags and gr[0] in RG.REF:
            # spectral definition: every eigen-phase (theta_k + s) * e is scaled by a
            p = dict(gr[1])
            p["e"] = p["e"] * a
            want = RG.reference([gr[0], p]).matrix
            _cmp(f"{gr[0]}(e={gr[1]['e']},s={gr[1].get('s')})**{a} vs spectral definition", ua, want, tol=TOL * (1 + abs(a) * (1 + abs(gr[1]["e"]))))
        if pb is not None and pab is not None:
            scale = 1 + abs(a) + abs(b)
            _cmp(f"{gr[0]}: U(x**a) U(x**b) vs U(x**(a+b)) [a={a}, b={b}]", ua @ U(pb, "x**b"), U(pab, "x**(a+b)"), tol=1e-7 * scale, phase=upto)
        if inv is not None:
            pma = _pow(x, -a)
            if pma is not None:
                _cmp(f"{gr[0]}: U(x**-a) vs U(x**a)^dagger [a={a}]", U(pma, "x**-a"), ua.conj().T, tol=1e-7 * (1 + abs(a)), phase=upto)
        # (x**a)**b == x**(a*b) is only required for EigenGates (same eigen-decomposition, scaled phases)
        if "eigen" in fam.tags:
            pab2 = _pow(pa, b)
            pprod = _pow(x, a * b)
            if pab2 is not None and pprod is not None:
                _cmp(f"{gr[0]}: U((x**a)**b) vs U(x**(a*b)) [a={a}, b={b}]", U(pab2, "(x**a)**b"), U(pprod, "x**(ab)"), tol=1e-7 * (1 + abs(a * b)))
    lab["nontrivial"] = bool(pa is not None and not _lattice(float(a)) or (inv is not None and _off_lattice_params(gr)))
    lab["a_class"] = "int" if float(a).is_integer() else "half" if float(2 * a).is_integer() else "generic"
    return lab


# ----------------------------------------------------------------------------- 2. controlled


@st.composite
def _ctrl_spec(draw, max_controls=2):
    n = draw(st.integers(1, max_controls))
    dims = [draw(st.sampled_from([2, 2, 2, 3])) for _ in range(n)]
    kind = draw(st.sampled_from(["count", "pos", "pos", "sop", "sop", "pos_obj"]))
    spec = {"kind": kind, "dims": dims, "shape_given": draw(st.booleans()) or any(d != 2 for d in dims)}
    if kind == "count":
        spec["vals"] = None
    elif kind in ("pos", "pos_obj"):
        vals = []
        for d in dims:
            if draw(st.booleans()):
                vals.append(draw(st.integers(0, d - 1)))
            else:
                vals.append(sorted(set(draw(st.lists(st.integers(0, d - 1), min_size=1, max_size=d)))))
        spec["vals"] = vals
    else:
        allc = list(itertools.product(*[range(d) for d in dims]))
        k = draw(st.integers(1, min(4, len(allc))))
        spec["vals"] = [list(t) for t in list(draw(st.permutations(allc)))[:k]]
        spec["named"] = draw(st.booleans())
    return spec


@st.composite
def _ctrl_case(draw):
    if draw(st.integers(0, 7)) == 0:
        # the specialised return types of controlled(): shift 0, all-ones controls on qubits
        g = draw(GX.gate_recipes(lambda f: f.name in ("XPow", "YPow", "ZPow", "CZPow", "CXPow", "GlobalPhase", "XPowD", "ZPowD"), max_arity=2, even=True))
        if "s" in g[1]:
            g = [g[0], dict(g[1], s=0.0)]
        n = draw(st.integers(1, 2))
        return {"g": g, "specs": [{"kind": draw(st.sampled_from(["count", "pos"])), "dims": [2] * n, "shape_given": draw(st.booleans()), "vals": [1] * n}],
                "via": draw(st.sampled_from(["gate", "op"]))}
    g = draw(GX.gate_recipes(lambda f: f.unitary and f.name not in ("Matrix3",), max_arity=2, even=True))
    fam = GX.all_families()[g[0]]
    if "eigen" in fam.tags and draw(st.booleans()):
        g = [g[0], dict(g[1], e=draw(_generic_exp()))]
    if "eigen" in fam.tags and draw(st.integers(0, 2)) == 0:
        g = [g[0], dict(g[1], s=0.0)]  # the specialised controlled() overrides need global_shift == 0
    specs = [draw(_ctrl_spec())]
    if draw(st.integers(0, 2)) == 0:
        specs.append(draw(_ctrl_spec(max_controls=1)))
    return {"g": g, "specs": specs, "via": draw(st.sampled_from(["gate", "gate", "ctor", "op", "cop"]))}


def expand_spec(spec):
    """Set of control tuples on which the target acts -- independent expansion of the control specification."""
    dims = spec["dims"]
    if spec["kind"] == "count":
        return {tuple([1] * len(dims))}
    if spec["kind"] in ("pos", "pos_obj"):
        sets = [[v] if isinstance(v, int) else list(v) for v in spec["vals"]]
        out = set()

        def rec(i, acc):
            if i == len(sets):
                out.add(tuple(acc))
                return
            for v in sets[i]:
                rec(i + 1, acc + [v])

        rec(0, [])
        return out
    return {tuple(t) for t in spec["vals"]}


def controlled_matrix(u, target_dim, specs_outer_first):
    """Block matrix: sum_c |c><c| (x) (U if c selected else 1); controls first (outermost first), big-endian."""
    dims = [d for s in specs_outer_first for d in s["dims"]]
    sels = [expand_spec(s) for s in specs_outer_first]
    lens = [len(s["dims"]) for s in specs_outer_first]
    C = L.dim(dims)
    out = np.zeros((C * target_dim, C * target_dim), dtype=complex)
    for idx, c in enumerate(itertools.product(*[range(d) for d in dims])):
        k = 0
        active = True
        for sel, n in zip(sels, lens):
            if tuple(c[k:k + n]) not in sel:
                active = False
            k += n
        blk = u if active else np.eye(target_dim)
        out[idx * target_dim:(idx + 1) * target_dim, idx * target_dim:(idx + 1) * target_dim] = blk
    return out, dims


def _cv_arg(spec):
    if spec["kind"] == "count" or spec["vals"] is None:
        return None
    if spec["kind"] == "pos":
        return [v if isinstance(v, int) else tuple(v) for v in spec["vals"]]
    if spec["kind"] == "pos_obj":
        return cirq.ProductOfSums([v if isinstance(v, int) else tuple(v) for v in spec["vals"]])
    return cirq.SumOfProducts([tuple(t) for t in spec["vals"]], name="f" if spec.get("named") else None)


def oracle_controlled(r):
    _dev_exclude("controlled", r)
    gr = r["g"]
    g = build(gr)
    tshape = shape_of(gr)
    T = L.dim(tshape)
    u = cirq.unitary(g)
    specs = r["specs"]  # applied in order: specs[0] innermost, specs[-1] outermost
    via = r["via"]
    cur = g
    tq = cirq.LineQid.for_qid_shape(tshape, start=10)
    cur_op = g.on(*tq)
    next_q = 20
    for s in specs:
        n = len(s["dims"])
        cv = _cv_arg(s)
        shape_kw = tuple(s["dims"]) if s["shape_given"] else None
        if via in ("gate", "ctor"):
            kw = {}
            if s["kind"] == "count" or shape_kw is None:
                kw["num_controls"] = n
            if cv is not None:
                kw["control_values"] = cv
            if shape_kw is not None:
                kw["control_qid_shape"] = shape_kw
            cur = cur.controlled(**kw) if via == "gate" else cirq.ControlledGate(cur, **kw)
        else:
            cq = [cirq.LineQid(next_q + i, dimension=d) for i, d in enumerate(s["dims"])]
            next_q += 10
            if via == "op":
                cur_op = cur_op.controlled_by(*cq, control_values=cv)
            else:
                cur_op = cirq.ControlledOperation(cq, cur_op, cv)
    want, cdims = controlled_matrix(u, T, list(reversed(specs)))
    full_shape = tuple(cdims) + tuple(tshape)
    if via in ("gate", "ctor"):
        got_shape = tuple(cirq.qid_shape(cur))
        if got_shape != full_shape:
            raise Violation(f"controlled {gr[0]} via {via}: qid_shape is not controls+target\n  got {got_shape} expected {full_shape} gate={gr if len(str(gr)) < 300 else gr[0]} specs={specs}")
        m = cirq.unitary(cur)
        result_type = type(cur).__name__  # for the message only
        specialised = not isinstance(cur, cirq.ControlledGate)
    else:
        got_shape = tuple(q.dimension for q in cur_op.qubits)
        if got_shape != full_shape:
            raise Violation(f"controlled {gr[0]} via {via}: qubit dimensions are not controls+target\n  got {got_shape} expected {full_shape} gate={gr if len(str(gr)) < 300 else gr[0]} specs={specs}")
        if tuple(cur_op.qubits[-len(tq):]) != tuple(tq) and len(tq):
            raise Violation(f"controlled {gr[0]} via {via}: target qubits are not the last qubits of the operation")
        m = cirq.unitary(cur_op)
        result_type = type(cur_op).__name__ + ":" + type(cur_op.gate).__name__  # for the message only
        specialised = not isinstance(cur_op, cirq.ControlledOperation) and not isinstance(cur_op.gate, cirq.ControlledGate)
    m = np.asarray(m)
    detail = f"\n  gate={gr if len(str(gr)) < 300 else gr[0]} specs={specs} result={result_type}"
    if m.shape != want.shape:
        raise Violation(f"controlled {gr[0]} via {via}: unitary has the wrong size{detail} shape={m.shape} expected={want.shape}")
    d = L.max_abs_diff(m, want)
    if not d <= TOL:
        raise Violation(f"controlled {gr[0]} via {via}: unitary differs from the block matrix{detail} diff={d:.3g}")
    nondefault = any(expand_spec(s) != {tuple([1] * len(s["dims"]))} for s in specs)
    return {"nontrivial": bool(nondefault), "family": gr[0], "via": via, "nested": len(specs) > 1,
            "qudit_control": any(d != 2 for s in specs for d in s["dims"]), "qudit_target": any(d != 2 for d in tshape),
            "specialised": bool(specialised), "kinds": "+".join(s["kind"] for s in specs),
            "n_controls": sum(len(s["dims"]) for s in specs)}


# ----------------------------------------------------------------------------- 3. phase_by


_PHASEABLE = ("XPow", "YPow", "ZPow", "CZPow", "PhasedXPow", "PhasedXZ", "ZZPow", "Matrix1", "Matrix2", "Rx", "Ry", "Rz", "CPhase")


@st.composite
def _phase_case(draw):
    if draw(st.integers(0, 3)) > 0:
        g = draw(GX.gate_recipes(lambda f: f.name in _PHASEABLE, max_arity=3, even=True))
    else:
        g = draw(GX.gate_recipes(_qubit_unitary, max_arity=3, even=True))
    fam = GX.all_families()[g[0]]
    if "eigen" in fam.tags and draw(st.booleans()):
        g = [g[0], dict(g[1], e=draw(_generic_exp()))]
    return {"g": g, "turns": draw(st.one_of(st.sampled_from([0.25, -0.25, 0.5, 0.125, 1.0, 0.0, 1 / 3]), st.integers(-1000, 1000).map(lambda k: k / 1000.0))),
            "idx": draw(st.integers(0, 2)), "op": draw(st.booleans())}


def oracle_phase_by(r):
    gr = r["g"]
    g = build(gr)
    n = len(shape_of(gr))
    idx = r["idx"] % n
    qs = cirq.LineQubit.range(n)
    x = g.on(*qs) if r["op"] else g
    res = cirq.phase_by(x, r["turns"], idx, None)
    lab = {"family": gr[0], "supported": res is not None, "level": "op" if r["op"] else "gate"}
    if res is None:
        lab["nontrivial"] = False
        return lab
    u = cirq.unitary(g)
    # P = Z(idx)**(2*turns); documented result: P U P^-1 up to global phase
    P = L.embed(np.diag([1, np.exp(2j * math.pi * r["turns"])]), [idx], (2,) * n)
    want = P @ u @ P.conj().T
    _cmp(f"phase_by({gr[0]}, {r['turns']}, {idx}) vs P U P^-1", cirq.unitary(res), want, tol=1e-7, phase=True)
    lab["nontrivial"] = bool(not _lattice(2 * r["turns"]) and not np.allclose(want, u, atol=1e-6))
    lab["changes_matrix"] = not np.allclose(want, u, atol=1e-6)
    return lab


# ----------------------------------------------------------------------------- 4. commutes

_EPS = [1e-3, 1e-4, 1e-5, 1e-6, 1e-7, 1e-9]


@st.composite
def _commute_case(draw):
    level = draw(st.sampled_from(["gate", "op", "op", "op"]))
    mode = draw(st.sampled_from(["free", "free", "free", "pauli", "diag", "near", "same", "clifford"]))
    base = GX.gate_recipes(_qubit_unitary, max_arity=2 if level == "op" else 3)
    if mode == "pauli":
        a, b = draw(_pauli_recipes()), draw(_pauli_recipes())
    elif mode == "diag":
        diag = GX.gate_recipes(lambda f: _qubit_unitary(f) and ("diag" in f.tags or f.name in ("ZPow", "CZPow", "ZZPow", "Rz")), max_arity=2)
        a, b = draw(diag), draw(st.one_of(diag, base))
    elif mode == "near":
        a = draw(base)
        b = [draw(st.sampled_from(["XPow", "ZPow", "YPow", "HPow"])), {"e": draw(st.sampled_from(_EPS)) * draw(st.sampled_from([1, -1, 3])), "s": 0.0}]
    elif mode == "same":
        a = draw(base)
        b = [a[0], dict(a[1])]
        if isinstance(b[1], dict) and "e" in b[1] and draw(st.booleans()):
            b[1]["e"] = draw(_generic_exp())
    elif mode == "clifford":
        if draw(st.integers(0, 3)) == 0:
            tq = st.sampled_from(["CNOT", "CZ", "SWAP", "CXSWAP", "CZSWAP"]).map(lambda n: ["TwoQubitClifford", {"name": n}])
            a = draw(tq)
            b = draw(st.one_of(tq, GX.gate_recipes(lambda f: f.name in ("CZPow", "CXPow", "SwapPow", "ISwapPow", "ZZPow", "XXPow"), max_arity=2)))
        else:
            a = ["SingleQubitClifford", {"i": draw(st.integers(0, 23))}]
            b = draw(st.one_of(st.just(None), _pauli_recipes())) or ["SingleQubitClifford", {"i": draw(st.integers(0, 23))}]
    else:
        a, b = draw(base), draw(base)
    na, nb = len(shape_of(a)), len(shape_of(b))
    n = draw(st.integers(max(na, nb), min(4, na + nb)))
    qa = list(draw(st.permutations(list(range(n)))))[:na]
    qb = list(draw(st.permutations(list(range(n)))))[:nb]
    return {"a": a, "b": b, "qa": qa, "qb": qb, "n": n, "level": level, "atol": draw(st.sampled_from([1e-8, 1e-8, 1e-6, 1e-3]))}


def oracle_commutes(r):
    _dev_exclude("commutes", r)
    ga, gb = build(r["a"]), build(r["b"])
    sa, sb = shape_of(r["a"]), shape_of(r["b"])
    atol = r["atol"]
    if atol not in (1e-8, 1e-6, 1e-3):
        raise Reject("atol outside the generated set (minimiser)")
    ua, ub = cirq.unitary(ga), cirq.unitary(gb)
    if r["level"] == "gate":
        x, y = ga, gb
        if tuple(sa) != tuple(sb):
            comm = None
        else:
            c = ua @ ub - ub @ ua
            comm = float(np.max(np.abs(c))) if c.size else 0.0
        D = L.dim(sa)
        overlap = "all" if tuple(sa) == tuple(sb) else "shape_mismatch"
    else:
        n = r["n"]
        qs = cirq.LineQubit.range(n)
        qa = [q % n for q in r["qa"]][:len(sa)]
        qb = [q % n for q in r["qb"]][:len(sb)]
        if len(set(qa)) != len(sa) or len(set(qb)) != len(sb):
            raise Reject("layout does not fit (minimiser)")
        x, y = ga.on(*[qs[i] for i in qa]), gb.on(*[qs[i] for i in qb])
        A = L.embed(ua, qa, (2,) * n)
        B = L.embed(ub, qb, (2,) * n)
        comm = float(np.max(np.abs(A @ B - B @ A)))
        D = 2 ** n
        shared = set(qa) & set(qb)
        overlap = "disjoint" if not shared else "all" if set(qa) == set(qb) else "partial"
    try:
        res = cirq.commutes(x, y, atol=atol)
    except TypeError:
        res = None  # documented: indeterminate
    dres = cirq.definitely_commutes(x, y, atol=atol)
    sym = None
    try:
        sym = cirq.commutes(y, x, atol=atol)
    except TypeError:
        pass
    what = f"commutes({r['a'][0]}, {r['b'][0]}) [{r['level']}, {overlap}]"
    detail = f"\n  a={r['a']} on {r.get('qa')} b={r['b']} on {r.get('qb')} atol={atol} max|AB-BA|={comm}"
    if res is not None and not isinstance(res, (bool, np.bool_)):
        raise Violation(f"{what} returned {res!r}, documented True/False{detail}")
    if comm is not None:
        # "True: commute (or approximately commute)": the implementation compares with np.allclose(atol=atol), whose default
        # rtol=1e-5 is part of what "approximately" means here (reported as an observation, not demanded away)
        lim = 10 * atol * D + 2e-5
        if res is True and comm > lim:
            raise Violation(f"{what} is True but the matrices do not commute{detail}")
        if dres is True and comm > lim:
            raise Violation(f"definitely_{what} is True but the matrices do not commute{detail}")
        if res is False and comm <= atol / 10:
            raise Violation(f"{what} is a definite False but the matrices commute{detail}")
        if sym is not None and res is not None and bool(sym) != bool(res) and not (atol / 10 < comm <= lim):
            raise Violation(f"{what} = {res} but with arguments swapped = {sym}{detail}")
    if res is True and dres is not True:
        raise Violation(f"{what} is True but definitely_commutes is {dres}{detail}")
    if res is not True and dres is True:
        raise Violation(f"{what} is {res} but definitely_commutes is True{detail}")
    if overlap == "disjoint" and res is not True:
        raise Violation(f"{what}: operations on disjoint qubits must commute, got {res}{detail}")
    return {"nontrivial": overlap == "partial" or (overlap == "all" and comm is not None and (res is not None)),
            "answer": "True" if res is True else "False" if res is False else "indeterminate", "overlap": overlap, "level": r["level"],
            "really_commute": comm is not None and comm <= atol / 10, "near_threshold": comm is not None and atol / 10 < comm <= 1e-2,
            "pair": r["a"][0] + "/" + r["b"][0] if r["a"][0] in ("PauliConst", "PauliPow1", "SingleQubitClifford") else "other"}


# ----------------------------------------------------------------------------- 5. equality family

_DELTAS = [0.0, 1e-9, 1e-7, 1e-5, 1e-3]


@st.composite
def _related(draw, a):
    """A gate recipe related to `a`: each float parameter is kept, shifted by whole periods, perturbed, or redrawn."""
    name, p = a
    how = draw(st.sampled_from(["periods", "perturb", "mixed", "redraw", "other", "copy"]))
    if how == "other" or not isinstance(p, dict):
        if how == "copy" or not isinstance(p, dict):
            return [name, p], "copy"
        return draw(GX.gate_recipes(_unitary_fam, max_arity=3)), "other"
    q = dict(p)
    for k in sorted(q):
        v = q[k]
        if not isinstance(v, float):
            continue
        if how == "copy":
            continue
        choice = how if how != "mixed" else draw(st.sampled_from(["copy", "periods", "perturb", "redraw"]))
        if choice == "periods":
            q[k] = v + draw(st.sampled_from([1.0, 2.0, -2.0, 4.0, -4.0, 2 * math.pi, -2 * math.pi, math.pi]))
        elif choice == "perturb":
            q[k] = v + draw(st.sampled_from(_DELTAS)) * draw(st.sampled_from([1, -1]))
        elif choice == "redraw":
            q[k] = draw(_generic_exp())
    if how in ("redraw", "mixed") and draw(st.booleans()):
        # discrete parameters: another Pauli letter / flipped flag / other table index
        for k in sorted(q):
            v = q[k]
            if isinstance(v, bool):
                q[k] = draw(st.booleans())
            elif isinstance(v, str) and v in ("X", "Y", "Z"):
                q[k] = draw(st.sampled_from("XYZ"))
            elif k == "i" and isinstance(v, int):
                q[k] = draw(st.integers(0, 23))
    if name == "PhasedXZ" and draw(st.booleans()):
        # the canonicalisation rules of PhasedXZGate: x -> -x with a -> a+1
        q = dict(q, x=-p["x"], a=p["a"] + 1.0)
        how = "pxz_canonical"
    return [name, q], how


@st.composite
def _eq_case(draw):
    a = draw(GX.gate_recipes(_unitary_fam, max_arity=3, even=draw(st.booleans())))
    fam = GX.all_families()[a[0]]
    if "eigen" in fam.tags and draw(st.booleans()):
        a = [a[0], dict(a[1], e=draw(_generic_exp()))]
    b, how = draw(_related(a))
    alias = draw(st.integers(0, 5)) == 0
    return {"a": a, "b": b, "how": how, "atol": draw(st.sampled_from([1e-8, 1e-6, 1e-3])), "op": draw(st.booleans()), "alias": alias}


_ALIASES = {
    # other documented spellings of the same gate (subclass / helper constructors), used as the right-hand side
    "XPow": lambda p: cirq.rx(math.pi * p["e"]) if p.get("s") == -0.5 else None,
    "ZPow": lambda p: cirq.rz(math.pi * p["e"]) if p.get("s") == -0.5 else None,
    "CZPow": lambda p: cirq.cphase(math.pi * p["e"]) if p.get("s") == 0 else None,
    "ISwapPow": lambda p: cirq.riswap(math.pi * p["e"] / 2) if p.get("s") == 0 else None,
    "CXPow": lambda p: cirq.CNOT ** p["e"] if p.get("s") == 0 else None,
}


def oracle_equality(r):
    _dev_exclude("equality", r)
    ga, gb = build(r["a"]), build(r["b"])
    if r.get("alias") and r["b"][0] in _ALIASES:
        alt = _ALIASES[r["b"][0]](r["b"][1])
        if alt is not None:
            gb = alt
    sa, sb = tuple(cirq.qid_shape(ga)), tuple(cirq.qid_shape(gb))
    ua, ub = cirq.unitary(ga), cirq.unitary(gb)
    same_shape = sa == sb
    # the predicates are judged against the matrices: a ququart gate and a two-qubit gate with matrices of equal
    # size are comparable; only matrices of different sizes can never be equal
    comparable = np.shape(ua) == np.shape(ub)
    d_exact = L.max_abs_diff(ua, ub) if comparable else float("inf")
    d_phase = L.diff_up_to_phase(ua, ub) if comparable else float("inf")
    atol = r["atol"]
    if atol not in (1e-8, 1e-6, 1e-3):
        raise Reject("atol outside the generated set (minimiser)")
    if r["op"] and same_shape and r["a"][0] not in _NO_OP_LEVEL and r["b"][0] not in _NO_OP_LEVEL:
        qs = cirq.LineQid.for_qid_shape(sa)
        x, y = ga.on(*qs), gb.on(*qs)
    else:
        x, y = ga, gb
    c = _n_float_params(r["a"])
    what = f"{r['a'][0]} vs {r['b'][0]} ({r['how']})"
    eq = x == y
    if not isinstance(eq, (bool, np.bool_)):
        raise Violation(f"{what}: == returned {type(eq).__name__}")
    if eq:
        if d_exact > 1e-9:
            raise Violation(f"{what}: a == b but the unitaries differ by {d_exact:.3g} (up to phase {d_phase:.3g})")
        try:
            ha, hb = hash(x), hash(y)
        except TypeError:  # mutable values (MutableDensePauliString) are deliberately unhashable
            ha = hb = None
        if ha != hb:
            raise Violation(f"{what}: a == b but hash(a) != hash(b)")
        if not bool(y == x):
            raise Violation(f"{what}: a == b but not b == a")
    if (x != y) == eq:
        raise Violation(f"{what}: == and != agree ({eq})")
    bound = _param_bound(atol, c)
    try:
        ae = cirq.approx_eq(x, y, atol=atol)
    except AttributeError:
        ae = None  # documented: insufficient information
    if ae is True and d_exact > bound:
        raise Violation(f"{what}: approx_eq(atol={atol}) is True but the unitaries differ by {d_exact:.3g}")
    if eq and ae is False:
        raise Violation(f"{what}: a == b but approx_eq(atol={atol}) is False")
    ep = cirq.equal_up_to_global_phase(x, y, atol=atol)
    # matrix fall-backs use allclose_up_to_global_phase(atol=atol) with numpy's default rtol=1e-5 ("see np.isclose")
    if ep is True and d_phase > 2 * bound + 2e-5:
        raise Violation(f"{what}: equal_up_to_global_phase(atol={atol}) is True but the unitaries differ up to phase by {d_phase:.3g}")
    if eq and ep is False:
        raise Violation(f"{what}: a == b but equal_up_to_global_phase(atol={atol}) is False")
    # converse for two EigenGates of the same class (the documented purpose of the protocol)
    fam_a = GX.all_families()[r["a"][0]]
    same_eigen = "eigen" in fam_a.tags and type(ga) is type(gb) and r["a"][0] == r["b"][0]
    if same_eigen and d_phase <= 1e-12 and ep is not True:
        raise Violation(f"{what}: same-class EigenGates with proportional matrices (diff {d_phase:.2g}) but equal_up_to_global_phase is {ep}")
    return {"nontrivial": bool(r["how"] not in ("copy", "other") and (eq or ae or ep)), "how": r["how"], "eq": bool(eq), "approx_eq": ae is True,
            "eq_phase": ep is True, "matrices_equal": d_exact <= 1e-9, "matrices_proportional": d_phase <= 1e-9,
            "family": r["a"][0], "level": "op" if r["op"] and same_shape else "gate", "same_eigen_converse": bool(same_eigen and d_phase <= 1e-12)}


# ----------------------------------------------------------------------------- 5b. equality of controlled gates / operations

_CE_SUBS = [
    ["XPow", {"e": 1.0, "s": 0.0}], ["XPow", {"e": 0.5, "s": 0.0}], ["YPow", {"e": 1.0, "s": 0.0}], ["ZPow", {"e": 0.5, "s": 0.0}],
    ["ZPow", {"e": 2.0, "s": 0.0}],  # identity matrix, not an identity gate
    ["HPow", {"e": 1.0, "s": 0.0}], ["ZPow", {"e": 0.25, "s": 0.5}], ["Identity", {"n": 1}], ["XPowD", {"d": 3, "e": 1.0, "s": 0.0}],
    ["CZPow", {"e": 1.0, "s": 0.0}], ["QuditPlus", {"d": 3, "k": 1}],
]


def _ce_expand(spec):
    """Set of active control tuples of {"kind": "pos"|"sop", "vals": ...} -- written independently of control_values.py."""
    if spec["kind"] == "pos":
        out = {()}
        for v in spec["vals"]:
            alts = [v] if isinstance(v, int) else list(v)
            out = {t + (x,) for t in out for x in alts}
        return out
    return {tuple(row) for row in spec["vals"]}


@st.composite
def _ce_pos(draw, dims, multi=False):
    vals = []
    for d in dims:
        k = draw(st.integers(2 if multi and d >= 2 else 1, d))
        chosen = list(draw(st.permutations(list(range(d)))))[:k]
        if draw(st.integers(0, 3)) == 0:
            chosen = chosen + [chosen[0]]  # duplicated value, unsorted
        vals.append(chosen[0] if len(chosen) == 1 and draw(st.booleans()) else chosen)
    return {"kind": "pos", "vals": vals}


@st.composite
def _ce_rows(draw, rows):
    """Write a set of conjunctions as SumOfProducts data: shuffled, possibly with duplicated rows."""
    rows = [list(r) for r in draw(st.permutations(sorted(rows)))]
    if rows and draw(st.integers(0, 2)) == 0:
        rows = rows + [rows[draw(st.integers(0, len(rows) - 1))]]
    return {"kind": "sop", "vals": rows}


@st.composite
def _ce_case(draw):
    n = draw(st.integers(1, 3))
    dims = [draw(st.sampled_from([2, 2, 2, 3, 3, 4])) for _ in range(n)]
    while L.dim(dims) > 36:
        dims[dims.index(max(dims))] -= 1
    allrows = list(itertools.product(*[range(d) for d in dims]))
    mode = draw(st.sampled_from(["near_collision", "near_collision", "same_expansion", "same_expansion", "independent", "subset", "permuted"]))
    if mode == "near_collision":
        # PoS with multi-valued controls vs an SoP whose per-control column sets equal the sums but whose expansion is a strict subset
        a = draw(_ce_pos(dims, multi=True))
        sums = [sorted(set([v] if isinstance(v, int) else v)) for v in a["vals"]]
        m = max(len(x) for x in sums)
        shifts = [draw(st.integers(0, 3)) for _ in sums]
        rows = {tuple(x[(k + sh) % len(x)] for x, sh in zip(sums, shifts)) for k in range(m)}
        full = sorted(_ce_expand(a))
        extra = draw(st.integers(0, 2))
        for r in list(draw(st.permutations(full)))[:extra]:
            rows.add(tuple(r))
        b = draw(_ce_rows(rows))
        if draw(st.booleans()):
            a, b = b, a
    elif mode == "same_expansion":
        a = draw(st.one_of(_ce_pos(dims), _ce_rows(set(list(draw(st.permutations(allrows)))[:draw(st.integers(1, min(5, len(allrows))))]))))
        ea = _ce_expand(a)
        if a["kind"] == "sop" and draw(st.booleans()):
            # factorable? then also offer the PoS spelling
            cols = [sorted({r[i] for r in ea}) for i in range(n)]
            b = {"kind": "pos", "vals": [list(reversed(c)) for c in cols]} if set(itertools.product(*cols)) == ea else draw(_ce_rows(ea))
        else:
            b = draw(_ce_rows(ea))
    elif mode == "subset":
        a = draw(st.one_of(_ce_pos(dims, multi=True), _ce_rows(set(list(draw(st.permutations(allrows)))[:draw(st.integers(2, min(6, max(2, len(allrows)))))]))))
        ea = sorted(_ce_expand(a))
        keep = draw(st.integers(1, max(1, len(ea) - 1)))
        b = draw(_ce_rows(set(list(draw(st.permutations(ea)))[:keep])))
    else:
        a = draw(st.one_of(_ce_pos(dims), _ce_rows(set(list(draw(st.permutations(allrows)))[:draw(st.integers(1, min(5, len(allrows))))]))))
        b = draw(st.one_of(_ce_pos(dims), _ce_rows(set(list(draw(st.permutations(allrows)))[:draw(st.integers(1, min(5, len(allrows))))]))))
        if mode == "permuted":
            b = {"kind": a["kind"], "vals": [list(v) if isinstance(v, list) else v for v in a["vals"]]}
    perm = list(range(n))
    if mode == "permuted" or draw(st.integers(0, 4)) == 0:
        perm = list(draw(st.permutations(list(range(n)))))
    sub_a = draw(st.sampled_from(_CE_SUBS))
    sub_b = sub_a if draw(st.integers(0, 3)) > 0 else draw(st.sampled_from(_CE_SUBS))
    return {"dims": dims, "a": a, "b": b, "perm": perm, "sub_a": sub_a, "sub_b": sub_b, "mode": mode,
            "via": draw(st.sampled_from(["cop", "cop", "controlled_by", "cgate", "gate_controlled"])),
            "atol": draw(st.sampled_from([1e-8, 1e-6, 1e-3]))}


def _ce_cv(spec):
    if spec["kind"] == "pos":
        return cirq.ProductOfSums([v if isinstance(v, int) else tuple(v) for v in spec["vals"]])
    return cirq.SumOfProducts([tuple(r) for r in spec["vals"]])


def _ce_block(u, tdim, dims, active):
    C = L.dim(dims)
    out = np.eye(C * tdim, dtype=complex)
    for idx, c in enumerate(itertools.product(*[range(d) for d in dims])):
        if tuple(c) in active:
            out[idx * tdim:(idx + 1) * tdim, idx * tdim:(idx + 1) * tdim] = u
    return out


def oracle_controlled_equality(r):
    dims = [int(d) for d in r["dims"]]
    n = len(dims)
    perm = [int(x) for x in r["perm"]]
    if not (1 <= n <= 3) or any(not 2 <= d <= 4 for d in dims) or sorted(perm) != list(range(n)) or r["atol"] not in (1e-8, 1e-6, 1e-3):
        raise Reject("outside the generated domain (minimiser)")
    for spec in (r["a"], r["b"]):
        rows = _ce_expand(spec) if spec.get("vals") else set()
        if not rows or any(len(t) != n or any(not 0 <= x < d for x, d in zip(t, dims)) for t in rows):
            raise Reject("control values outside the generated domain (minimiser)")
    ga, gb = build(r["sub_a"]), build(r["sub_b"])
    sa, sb = shape_of(r["sub_a"]), shape_of(r["sub_b"])
    ua, ub = cirq.unitary(ga), cirq.unitary(gb)
    ea, eb = _ce_expand(r["a"]), _ce_expand(r["b"])
    gate_level = r["via"] in ("cgate", "gate_controlled")
    # b is written with its controls in the order perm: position j of b's spec talks about control perm[j]
    dims_b = [dims[p] for p in perm]

    def b_spec_permuted():
        sp = r["b"]
        if sp["kind"] == "pos":
            return {"kind": "pos", "vals": [sp["vals"][p] for p in perm]}
        return {"kind": "sop", "vals": [[row[p] for p in perm] for row in sp["vals"]]}

    spec_b = b_spec_permuted()
    eb_own = _ce_expand(spec_b)  # in b's own control order
    cq = [cirq.LineQid(i, dimension=d) for i, d in enumerate(dims)]
    cq_b = [cq[p] for p in perm]
    tqa = cirq.LineQid.for_qid_shape(sa, start=100)
    tqb = cirq.LineQid.for_qid_shape(sb, start=100)
    cva, cvb = _ce_cv(r["a"]), _ce_cv(spec_b)
    if r["via"] == "cop":
        x, y = cirq.ControlledOperation(cq, ga.on(*tqa), cva), cirq.ControlledOperation(cq_b, gb.on(*tqb), cvb)
    elif r["via"] == "controlled_by":
        x, y = ga.on(*tqa).controlled_by(*cq, control_values=cva), gb.on(*tqb).controlled_by(*cq_b, control_values=cvb)
    elif r["via"] == "cgate":
        x = cirq.ControlledGate(ga, control_values=cva, control_qid_shape=tuple(dims))
        y = cirq.ControlledGate(gb, control_values=cvb, control_qid_shape=tuple(dims_b))
    else:
        x = ga.controlled(control_values=cva, control_qid_shape=tuple(dims))
        y = gb.controlled(control_values=cvb, control_qid_shape=tuple(dims_b))
    # reference matrices (the block structure itself is C08/controlled's business)
    Ma = _ce_block(ua, L.dim(sa), dims, ea)
    if gate_level:
        Mb = _ce_block(ub, L.dim(sb), dims_b, eb_own)  # a gate has no qubits: its matrix is in its own control order
    else:
        Mb = _ce_block(ub, L.dim(sb), dims, eb)  # same qubits: b's predicate read back in the canonical control order
    comparable = Ma.shape == Mb.shape  # judged against the matrices (as in `equality`): only different sizes can never be equal
    d_exact = L.max_abs_diff(Ma, Mb) if comparable else float("inf")
    d_phase = L.diff_up_to_phase(Ma, Mb) if comparable else float("inf")
    atol = r["atol"]
    what = f"controlled {r['sub_a'][0]} vs {r['sub_b'][0]} via {r['via']} [{r['a']['kind']} vs {r['b']['kind']}, {r['mode']}]"
    detail = f"\n  dims={dims} a={r['a']} b={r['b']} perm={perm} sub_a={r['sub_a']} sub_b={r['sub_b']} max|Ma-Mb|={d_exact:.3g}"
    eq = x == y
    if not isinstance(eq, (bool, np.bool_)):
        raise Violation(f"{what}: == returned {type(eq).__name__}{detail}")
    eq = bool(eq)
    if eq:
        if d_exact > 1e-9:
            raise Violation(f"{what}: a == b but the unitaries differ{detail}")
        if hash(x) != hash(y):
            raise Violation(f"{what}: a == b but hash(a) != hash(b){detail}")
        if not bool(y == x):
            raise Violation(f"{what}: a == b but not b == a{detail}")
    if bool(x != y) == eq:
        raise Violation(f"{what}: == and != agree{detail}")
    try:
        ae = cirq.approx_eq(x, y, atol=atol)
    except AttributeError:
        ae = None
    if ae is True and d_exact > _param_bound(atol, 3):
        raise Violation(f"{what}: approx_eq(atol={atol}) is True but the unitaries differ{detail}")
    if eq and ae is False:
        raise Violation(f"{what}: a == b but approx_eq is False{detail}")
    ep = cirq.equal_up_to_global_phase(x, y, atol=atol)
    if ep is True and d_phase > 2 * _param_bound(atol, 3) + 2e-5:
        raise Violation(f"{what}: equal_up_to_global_phase(atol={atol}) is True but the unitaries are not proportional{detail}")
    if eq and ep is False:
        raise Violation(f"{what}: a == b but equal_up_to_global_phase is False{detail}")
    if not gate_level:
        # equality of containers is built on the equality of the operations
        if (cirq.Moment([x]) == cirq.Moment([y])) and d_exact > 1e-9:
            raise Violation(f"{what}: Moment([a]) == Moment([b]) but the unitaries differ{detail}")
        if (cirq.Circuit(x) == cirq.Circuit(y)) and d_exact > 1e-9:
            raise Violation(f"{what}: Circuit(a) == Circuit(b) but the unitaries differ{detail}")
    # converse only where it is promised: control values are equal iff their expansions are (AbstractControlValues equality);
    # same constructor, same controls in the same order, same sub-gate recipe
    same_written = perm == list(range(n)) and r["sub_a"] == r["sub_b"] and ea == eb
    if same_written and r["via"] in ("cop", "cgate") and not eq:
        raise Violation(f"{what}: same controls, same sub-gate and the same expansion of the control values, but a != b{detail}")
    if same_written and bool(cva == cvb) is not True:
        raise Violation(f"{what}: control values with the same expansion compare unequal{detail}")
    if bool(cva == cvb) and set(eb_own) != set(ea):
        raise Violation(f"{what}: control values compare equal but their expansions differ{detail}")
    if bool(cva == cvb) and hash(cva) != hash(cvb):
        raise Violation(f"{what}: equal control values with different hashes{detail}")
    cross = r["a"]["kind"] != r["b"]["kind"]
    return {"nontrivial": bool(cross or perm != list(range(n))), "mode": r["mode"], "via": r["via"], "cross_repr": cross, "eq": eq,
            "approx_eq": ae is True, "eq_phase": ep is True, "matrices_equal": d_exact <= 1e-9, "same_expansion": ea == eb,
            "columns_collide": bool(cross and ea != eb and [sorted({t[i] for t in ea}) for i in range(n)] == [sorted({t[i] for t in eb}) for i in range(n)]),
            "qudit_controls": any(d != 2 for d in dims), "n_controls": n, "permuted": perm != list(range(n))}


# ----------------------------------------------------------------------------- 6. unary predicates


def _is_signed_pauli_string(m, n):
    """Is the 2^n x 2^n matrix +-(tensor product of Paulis)?  (Hermitian Pauli images only: +-1 phases)"""
    k = int(np.argmax(np.abs(m[:, 0])))
    if abs(abs(m[k, 0]) - 1) > 5e-5:
        return False
    best = None
    for ps in itertools.product("IXYZ", repeat=n):
        pm = L.pauli_string_matrix(ps)
        if abs(pm[k, 0]) < 0.5:
            continue
        s = m[k, 0] / pm[k, 0]
        # 5e-5: Cirq's own tests use np.allclose (rtol 1e-5): "Clifford within 1e-5" counts as Clifford
        if L.max_abs_diff(m, s * pm) < 5e-5 and min(abs(s - 1), abs(s + 1)) < 5e-5:
            best = ps
            break
    return best is not None


def maps_paulis_to_paulis(u, n):
    for i in range(n):
        for p in (L.PX, L.PZ):
            P = L.embed(p, [i], (2,) * n)
            if not _is_signed_pauli_string(u @ P @ u.conj().T, n):
                return False
    return True


def trace_distance_exact(u):
    """max over pure states of the trace distance between |psi> and U|psi>: sqrt(1 - min|<psi|U|psi>|^2).
    For a normal matrix the numerical range is the convex hull of the eigenvalues: distance of 0 to that hull."""
    ev = np.linalg.eigvals(u)
    ang = np.sort(np.mod(np.angle(ev), 2 * math.pi))
    gaps = np.diff(np.concatenate([ang, [ang[0] + 2 * math.pi]]))
    arc = 2 * math.pi - float(np.max(gaps))  # smallest arc containing every eigenvalue
    if arc >= math.pi:
        return 1.0
    return math.sin(arc / 2)


@st.composite
def _unary_case(draw):
    g = draw(GX.gate_recipes(_unitary_fam, max_arity=3, even=draw(st.booleans())))
    fam = GX.all_families()[g[0]]
    if "eigen" in fam.tags and draw(st.booleans()):
        g = [g[0], dict(g[1], e=draw(st.one_of(_generic_exp(), st.integers(-16, 16).map(lambda k: k / 4.0))))]
    wrap = draw(st.sampled_from(["none", "none", "none", "op", "controlled", "pow"]))
    return {"g": g, "wrap": wrap, "t": draw(st.sampled_from([0.5, -1, 2, 0.25, 1.5]))}


def oracle_unary(r):
    _dev_exclude("unary", r)
    gr = r["g"]
    g = build(gr)
    shape = shape_of(gr)
    x = g
    if r["wrap"] == "op" and gr[0] not in _NO_OP_LEVEL:
        x = g.on(*cirq.LineQid.for_qid_shape(shape))
    elif r["wrap"] == "controlled" and len(shape) <= 2:
        x = g.controlled()
        shape = (2,) + tuple(shape)
    elif r["wrap"] == "pow":
        y = cirq.pow(g, r["t"], None)
        if y is not None:
            x = y
    if not cirq.has_unitary(x):
        raise Reject("no unitary")
    u = cirq.unitary(x)
    n = len(shape)
    qubits_only = all(d == 2 for d in shape)
    lab = {"family": gr[0], "wrap": r["wrap"], "qubits_only": qubits_only}
    detail = f"\n  gate={gr if len(str(gr)) < 300 else gr[0]} wrap={r['wrap']} t={r['t']}"
    # has_stabilizer_effect
    hs = cirq.has_stabilizer_effect(x)
    if not isinstance(hs, (bool, np.bool_)):
        raise Violation(f"has_stabilizer_effect({gr[0]}) returned {hs!r}")
    lab["stabilizer_claim"] = bool(hs)
    if qubits_only and n >= 1:
        really = maps_paulis_to_paulis(u, n)
        lab["stabilizer_really"] = really
        if hs and not really:
            raise Violation(f"has_stabilizer_effect({gr[0]}, wrap={r['wrap']}) is True but U P U^dagger is not a Pauli string for some generator{detail}")
        # only soundness is demanded (True => Clifford); false negatives are counted
        lab["stabilizer_false_negative_1q"] = bool(n == 1 and not hs and really and _strictly_clifford(u))
    # trace_distance_bound
    tb = cirq.trace_distance_bound(x)
    exact = trace_distance_exact(u)
    if not (0 <= tb <= 1.0 + 1e-12):
        raise Violation(f"trace_distance_bound({gr[0]}) = {tb} outside [0, 1]")
    if tb < exact - 1e-7:
        raise Violation(f"trace_distance_bound({gr[0]}, wrap={r['wrap']}) underestimates the maximal trace distance: {tb:.6g} < {exact:.6g}{detail}")
    lab["bound_tight"] = tb <= exact + 1e-6
    lab["bound_trivial"] = tb >= 1 - 1e-12
    # pauli_expansion
    if qubits_only and 1 <= n <= 3:
        pe = cirq.pauli_expansion(x, default=None)
        lab["has_expansion"] = pe is not None
        if pe is not None:
            m = np.zeros((2 ** n, 2 ** n), dtype=complex)
            for k, c in pe.items():
                if len(k) != n or any(ch not in "IXYZ" for ch in k):
                    raise Violation(f"pauli_expansion({gr[0]}) has key {k!r}, expected {n} letters of IXYZ")
                m += complex(c) * L.pauli_string_matrix(k)
            _cmp(f"pauli_expansion({gr[0]}, wrap={r['wrap']}) summed vs unitary", m, u, tol=1e-8 * 4 ** n + 4 ** n * 1e-9)
    lab["nontrivial"] = bool(_off_lattice_params(gr) or (hs and not np.allclose(u, np.eye(len(u)))))
    return lab


def _strictly_clifford(u):
    """U X U^dag and U Z U^dag are signed Paulis to 1e-12 (so tolerance choices inside Cirq cannot matter)."""
    for p in (L.PX, L.PZ):
        m = u @ p @ u.conj().T
        ok = False
        for q in (L.PX, L.PY, L.PZ):
            for s in (1, -1):
                if L.max_abs_diff(m, s * q) < 1e-12:
                    ok = True
        if not ok:
            return False
    return True


SUBCHECKS = [
    SubCheck("pow", _pow_case(), oracle_pow, quick=8000, thorough=250000, shards_quick=6, shards_thorough=16,
             essential={"pow_defined": 0.4, "eigen": 0.3}),
    SubCheck("controlled", _ctrl_case(), oracle_controlled, quick=6000, thorough=150000, shards_quick=4, shards_thorough=16,
             essential={"nontrivial": 0.35, "qudit_control": 0.15, "nested": 0.15, "specialised": 0.04},
             examples=[{"g": ["XPowD", {"d": 3, "e": 0.5, "s": 0.0}], "specs": [{"dims": [2], "kind": "count", "shape_given": False, "vals": None}], "via": "gate"},  # F16 (fixed)
                       {"g": ["ZPowD", {"d": 3, "e": 0.5, "s": 0.0}], "specs": [{"dims": [2, 2], "kind": "count", "shape_given": False, "vals": None}], "via": "op"}]),
    SubCheck("phase_by", _phase_case(), oracle_phase_by, quick=4000, thorough=120000, shards_quick=3, shards_thorough=8,
             essential={"supported": 0.4, "changes_matrix": 0.2}),
    SubCheck("commutes", _commute_case(), oracle_commutes, quick=8000, thorough=250000, shards_quick=5, shards_thorough=16,
             essential={"overlap=partial": 0.1, "answer=True": 0.15, "answer=False": 0.15},
             examples=[{"a": ["PauliPow1", {"k": 1, "p": "X"}], "b": ["PauliConst", {"p": "X"}], "qa": [0], "qb": [0], "n": 1, "level": "gate", "atol": 1e-8},  # F9 (fixed)
                       {"a": ["PauliPow1", {"k": 1.0, "p": "Y"}], "b": ["PauliPow1", {"k": 3, "p": "Y"}], "qa": [0], "qb": [0], "n": 1, "level": "op", "atol": 1e-8},
                       {"a": ["ZPow", {"e": 1.0, "s": 0.0}], "b": ["HPow", {"e": 1e-06, "s": 0.0}], "qa": [0], "qb": [0], "n": 1, "level": "gate", "atol": 1e-3}]),  # F21 (fixed)
    SubCheck("equality", _eq_case(), oracle_equality, quick=8000, thorough=250000, shards_quick=5, shards_thorough=16,
             essential={"eq": 0.1, "approx_eq": 0.15, "eq_phase": 0.15},
             examples=[
                 {"a": ["Matrix1", {"v": [1.0, 0.0, 0.0, 1.0, 0.0, 0.0, 0.0, 0.0]}], "b": ["Matrix2", {"v": [1.0 if i in (0, 5, 10, 15) else 0.0 for i in range(32)]}],
                  "how": "other", "atol": 1e-8, "op": False, "alias": False},  # F20 (fixed): approx_eq raised on different sizes
                 {"a": ["IonqMS", {"phi0": 0.0, "phi1": 0.0, "theta": 0.25}], "b": ["IonqMS", {"phi0": 0.0, "phi1": 0.0, "theta": 0.1}],
                  "how": "perturb", "atol": 1e-8, "op": False, "alias": False},  # F22 (fixed)
                 {"a": ["PauliInteraction", {"e": 1.0, "i0": False, "i1": False, "p0": "Y", "p1": "X"}],
                  "b": ["PauliInteraction", {"e": 1.0, "i0": False, "i1": False, "p0": "X", "p1": "X"}],
                  "how": "other", "atol": 1e-6, "op": False, "alias": False},  # F23 (fixed)
             ]),
    SubCheck("controlled_equality", _ce_case(), oracle_controlled_equality, quick=5000, thorough=150000, shards_quick=3, shards_thorough=16,
             essential={"cross_repr": 0.4, "columns_collide": 0.1, "eq": 0.15, "qudit_controls": 0.3, "permuted": 0.06},
             examples=[{"dims": [2, 2], "a": {"kind": "pos", "vals": [[0, 1], [0, 1]]}, "b": {"kind": "sop", "vals": [[0, 0], [1, 1]]}, "perm": [0, 1],
                        "sub_a": ["XPow", {"e": 0.5, "s": 0.0}], "sub_b": ["XPow", {"e": 0.5, "s": 0.0}], "mode": "near_collision", "via": "cop", "atol": 1e-8},
                       {"dims": [3, 3], "a": {"kind": "pos", "vals": [[0, 1], [0, 2]]}, "b": {"kind": "sop", "vals": [[0, 0], [1, 2]]}, "perm": [0, 1],
                        "sub_a": ["YPow", {"e": 1.0, "s": 0.0}], "sub_b": ["YPow", {"e": 1.0, "s": 0.0}], "mode": "near_collision", "via": "controlled_by", "atol": 1e-8}]),
    SubCheck("unary", _unary_case(), oracle_unary, quick=6000, thorough=200000, shards_quick=4, shards_thorough=16,
             essential={"stabilizer_claim": 0.15},
             examples=[{"g": ["XPowD", {"d": 3, "e": 0.0, "s": 0.5}], "t": 1.5, "wrap": "controlled"}]),  # F16b (fixed)
]
